(** C15 — DataFrame: column schema and cells through row, cell and column access.

    MODEL and SPECIFICATION (definitions only; proofs are in FrameProofs.v).  Written after
      include/nix/DataFrame.hpp (front-end checks, the readColumn/writeColumn templates),
      include/nix/base/IDataFrame.hpp (Column, Cell), include/nix/Block.hpp (createDataFrame),
      backend/hdf5/DataFrameHDF5.cpp (Janus, writeCells/writeRow/readCells/readRow/writeColumn/readColumn),
      backend/hdf5/h5x/H5DataType.cpp (member types), h5x/H5Object.hpp (StringReader/StringWriter).
    A frame is a 1-D dataset of a compound type (one member per column); the model keeps it as the
    list of its rows ([fr_rows], each row the list of its cells in column order) -- the layout of the
    compound dataset -- and replays the library's calls on it ([fstep]).
    The specification ([sstep]) does not know that layout: it keeps the LOG of accepted row-count
    changes and cell writes and answers every read POINTWISE, cell by cell, by scanning the log for
    the last write to (row, column) since that row last (re)appeared ([lookup]).
    Values are [Prop.value] (bool, bounded Z, F64, string).  Shared by model and specification (they are
    about the arguments of a call, not about how cells are stored): HDF5's conversion between member
    types [conv], and the validation of a call's arguments ([plan_*]: which cells a call assigns or
    fetches, or which exception it raises, given the schema and the row count).  What differs is the
    data path: list surgery on rows here, log scanning there; FrameProofs.v proves them equal. *)
From Coq Require Import ZArith Bool String Ascii List Lia.
From Flocq Require Import BinarySingleNaN.
Require Import NixV.Base.Prelude NixV.Base.F64 NixV.Data.Prop.
Import ListNotations.
Local Open Scope string_scope.

(** * Schema *)

Record column := { c_name : string; c_unit : string; c_type : vtype }.

(** * HDF5 member conversion *)

(** does HDF5 have a conversion path from member type [s] to member type [d]?  (checked even when
    no element is transferred).  Same type always; Bool (an enum) and the integers and Double convert
    INTO integers and Double; nothing converts into Bool or to/from String. *)
Definition is_int (t : vtype) : bool :=
  match t with TInt32 | TUInt32 | TInt64 | TUInt64 => true | _ => false end.

Definition convertible (s d : vtype) : bool :=
  vtype_eqb s d ||
  (supported s && supported d &&
   match d with TBool | TString => false | _ => true end &&
   match s with TString => false | _ => true end).

Definition int_lo (t : vtype) : Z :=
  match t with TInt32 => -2147483648 | TInt64 => -9223372036854775808 | _ => 0 end%Z.
Definition int_hi (t : vtype) : Z :=
  match t with
  | TInt32 => 2147483647 | TUInt32 => 4294967295
  | TInt64 => 9223372036854775807 | TUInt64 => 18446744073709551615 | _ => 0
  end%Z.

Definition mk_int (t : vtype) (z : Z) : value :=
  match t with
  | TInt32 => VInt32 z | TUInt32 => VUInt32 z | TInt64 => VInt64 z | TUInt64 => VUInt64 z | _ => VNone
  end.

(** integer -> integer: HDF5 clamps on overflow *)
Definition clamp (t : vtype) (z : Z) : Z :=
  if (z <? int_lo t)%Z then int_lo t else if (int_hi t <? z)%Z then int_hi t else z.

(** the integer a Bool / integer value carries *)
Definition int_of (v : value) : option Z :=
  match v with
  | VBool b => Some (if b then 1 else 0)%Z
  | VInt32 z | VUInt32 z | VInt64 z | VUInt64 z => Some z
  | _ => None
  end.

(** double -> integer: truncation toward zero, clamped; +-inf clamp.  NaN, and a value that equals
    the ROUNDED maximum (HDF5 compares against (source type)MAX and then casts: 2^63 for Int64 and 2^64
    for UInt64 from a double; from a FLOAT source also 2^31 for Int32 and 2^32 for UInt32) are C undefined
    behaviour inside HDF5's conversion routine: [UB] (outside the domain of the check; on this platform
    NaN gives INT_MIN / INT64_MIN / 0 / 2^63, the rounded maximum gives the minimum / 0).
    [fl]: the source element is a float (the column templates with T = float). *)
Definition d2i (fl : bool) (t : vtype) (d : F64) : res value :=
  match d with
  | B754_nan => UB "double NaN converted to an integer member"
  | B754_infinity s => Ok (mk_int t (if s then int_lo t else int_hi t))
  | _ =>
    let z := Btrunc d in
    if (z <? int_lo t)%Z then Ok (mk_int t (int_lo t))
    else if (int_hi t <? z)%Z then
      if (z =? int_hi t + 1)%Z && (fl || negb (int_hi t <? 4294967296)%Z)
      then UB "floating-point value equal to the rounded integer maximum converted to an integer member"
      else Ok (mk_int t (int_hi t))
    else Ok (mk_int t z)
  end.

(** convert one value to the member type [d]; [Err] = no conversion path *)
Definition conv_gen (fl : bool) (d : vtype) (v : value) : res value :=
  if vtype_eqb (type_of v) d then Ok v
  else if negb (convertible (type_of v) d) then Err H5ERR
  else if is_int d then
    match v with
    | VDouble x => d2i fl d x
    | _ => match int_of v with Some z => Ok (mk_int d (clamp d z)) | None => Err H5ERR end
    end
  else (* d = TDouble *)
    match int_of v with Some z => Ok (VDouble (ofZ z)) | None => Err H5ERR end.

Definition conv : vtype -> value -> res value := conv_gen false.

Fixpoint conv_all_gen (fl : bool) (d : vtype) (vs : list value) : res (list value) :=
  match vs with
  | [] => Ok []
  | v :: r => bind (conv_gen fl d v) (fun v' => bind (conv_all_gen fl d r) (fun r' => Ok (v' :: r')))
  end.

Definition conv_all : vtype -> list value -> res (list value) := conv_all_gen false.

(** ** Element types of the column templates beyond the seven

    [readColumn<T>] / [writeColumn<T>] compile for every element type Hydra knows.  Besides the six a
    Variant can hold: int8/int16/uint8/uint16 and float ([TOther "Int8"] ...), for which HDF5 converts
    like for their wider relatives, and char ([TBad "Char"]), for which [data_type_to_h5_memtype]
    throws.  The model carries a small integer as the 32-bit integer of the same signedness and a
    float as the double of the same value ([elt_carrier]); what is particular to the narrow type is the
    clamping / rounding when such an element is READ ([conv_elt]). *)
Definition small_range (t : vtype) : option (Z * Z) :=
  match t with
  | TOther n =>
    if String.eqb n "Int8" then Some (-128, 127)%Z
    else if String.eqb n "Int16" then Some (-32768, 32767)%Z
    else if String.eqb n "UInt8" then Some (0, 255)%Z
    else if String.eqb n "UInt16" then Some (0, 65535)%Z
    else None
  | _ => None
  end.

Definition is_float_elt (t : vtype) : bool :=
  match t with TOther n => String.eqb n "Float" | _ => false end.

Definition elt_carrier (t : vtype) : vtype :=
  match small_range t with
  | Some (lo, _) => if (lo <? 0)%Z then TInt32 else TUInt32
  | None => if is_float_elt t then TDouble else t
  end.

(** [data_type_to_h5_memtype(T)] succeeds *)
Definition elt_has_memtype (t : vtype) : bool := supported (elt_carrier t).

(** IEEE-754 binary32, only as a rounding step: a double rounded to the nearest float (ties to even), kept as a double *)
Lemma Hprec32 : FLX.Prec_gt_0 24. Proof. reflexivity. Qed.
Lemma Hmax32 : Prec_lt_emax 24 128. Proof. reflexivity. Qed.

Definition widen32 (x : binary_float 24 128) : F64 :=
  match x with
  | B754_zero s => B754_zero s
  | B754_infinity s => B754_infinity s
  | B754_nan => B754_nan
  | B754_finite s m e _ => binary_normalize prec emax Hprec Hmax mode_NE (if s then Zneg m else Zpos m) e s
  end.

Definition round32 (neg : bool) (m e : Z) : F64 :=
  widen32 (binary_normalize 24 128 Hprec32 Hmax32 mode_NE m e neg).

Definition FLT_MAX : F64 := ofME 16777215 104.

(** double -> float as HDF5 does it: beyond +-FLT_MAX the result is the infinity (also where rounding to
    nearest would still give FLT_MAX), otherwise round to nearest even *)
Definition to_f32 (d : F64) : F64 :=
  match d with
  | B754_finite s m e _ =>
    if flt FLT_MAX d then B754_infinity false
    else if flt d (fneg FLT_MAX) then B754_infinity true
    else round32 s (if s then Zneg m else Zpos m) e
  | _ => d
  end.

(** integer -> float: one rounding to the nearest float *)
Definition z_to_f32 (z : Z) : F64 := round32 false z 0.

(** convert a stored cell to the element type [t] of a column read *)
Definition conv_elt (t : vtype) (v : value) : res value :=
  match small_range t with
  | Some (lo, hi) =>
    bind (conv (elt_carrier t) v) (fun v' =>
    match int_of v' with
    | Some z => Ok (mk_int (elt_carrier t) (if (z <? lo)%Z then lo else if (hi <? z)%Z then hi else z))
    | None => Err H5ERR
    end)
  | None =>
    if is_float_elt t then
      if negb (convertible (type_of v) TDouble) then Err H5ERR
      else match v with
           | VDouble d => Ok (VDouble (to_f32 d))
           | _ => match int_of v with Some z => Ok (VDouble (z_to_f32 z)) | None => Err H5ERR end
           end
    else conv t v
  end.

Fixpoint conv_elt_all (t : vtype) (vs : list value) : res (list value) :=
  match vs with
  | [] => Ok []
  | v :: r => bind (conv_elt t v) (fun v' => bind (conv_elt_all t r) (fun r' => Ok (v' :: r')))
  end.

(** * Lists of rows *)

Fixpoint upd_nth {A} (n : nat) (x : A) (l : list A) : list A :=
  match l, n with
  | [], _ => []
  | _ :: r, O => x :: r
  | a :: r, S m => a :: upd_nth m x r
  end.

Definition rowsT := list (list value).

Definition cell (rows : rowsT) (r c : nat) : value := nth c (nth r rows []) VNone.

Definition upd_cell (rows : rowsT) (r c : nat) (v : value) : rowsT :=
  upd_nth r (upd_nth c v (nth r rows [])) rows.

(** a batch of cell assignments (row, column, value), applied in order *)
Definition put := (nat * nat * value)%type.

Definition apply_puts (puts : list put) (rows : rowsT) : rowsT :=
  fold_left (fun rs (p : put) => let '(r, c, v) := p in upd_cell rs r c v) puts rows.

Record frame := { fr_cols : list column; fr_rows : rowsT }.

Record dstate := { d_frame : option frame; d_ro : bool }.

Definition dfresh : dstate := {| d_frame := None; d_ro := false |}.

Definition default_row (cols : list column) : list value := map (fun c => default_of (c_type c)) cols.

Fixpoint find_col (name : string) (cols : list column) : option nat :=
  match cols with
  | [] => None
  | c :: r => if String.eqb name (c_name c) then Some O else option_map S (find_col name r)
  end.

Definition col_type (cols : list column) (c : nat) : vtype :=
  match nth_error cols c with Some x => c_type x | None => TBad "Nothing" end.

Definition ncols (f : frame) : nat := List.length (fr_cols f).
Definition nrows (f : frame) : nat := List.length (fr_rows f).

(** * Exceptions (class names as the harness reports them) *)
Definition LOGIC : string := "std::logic_error".        (* std::string built from the null member name *)
Definition OOB : string := "nix::OutOfBounds".
Definition H5EXC : string := "nix::hdf5::H5Exception".

(** * Operations *)

(** a column named by the caller *)
Inductive cref := ByName (s : string) | ByIdx (i : Z).

Inductive fop :=
| FNew (cols : list column)
| FRows (n : Z) | FNRows | FSchema
| FWRow (row : Z) (vs : list value)
| FWCells (row : Z) (cells : list (cref * value))       (* writeCell(row, col, v) is writeCells(row, {{col, v}}) *)
| FWCol (c : cref) (t : vtype) (off cnt : Z) (vs : list value)
| FRRow (row : Z)
| FRCells (row : Z) (names : list string)
| FRCell (row : Z) (c : cref)
| FRCol (c : cref) (t : vtype) (cnt : option Z) (resize : bool) (off : Z) (pre : list value)
| FColIdx (s : string) | FColName (i : Z)
| FColIdxs (names : list string) | FColNames (idxs : list Z)     (* the vector overloads of colIndex / colName *)
| FReopen (ro : bool).

Definition rcell := (Z * string * value)%type.            (* Cell: col (position in the request), name, value *)

Inductive fanswer :=
| FDone | FNoFrame | FAbsent
| FNum (n : Z)
| FSchemaA (cols : list column)
| FVals (vs : list value)
| FCells (cs : list rcell)
| FCell (c : rcell)
| FStr (s : string)
| FNums (ns : list Z)
| FStrs (ss : list string).

(** * Argument validation: what a call assigns / fetches, or which exception it raises *)

Definition in_range (z : Z) (n : nat) : bool := ((0 <=? z) && (z <? Z.of_nat n))%Z.

(** [DataType::member_name(i)] as a std::string: a null name for i >= n makes the string constructor throw *)
Definition col_name (cols : list column) (i : Z) : res string :=
  if in_range i (List.length cols) then
    match nth_error cols (Z.to_nat i) with Some c => Ok (c_name c) | None => Err LOGIC end
  else Err LOGIC.

(** the member name a Cell refers to: its name if it has one ([haveName]: name != ""), else column [col] *)
Definition cref_name (cols : list column) (c : cref) : res string :=
  match c with
  | ByName s => if is_empty s then col_name cols 0 else Ok s
  | ByIdx i => col_name cols i
  end.

(** a column argument of the column calls: the name itself, or [colName(col)] *)
Definition colarg_name (cols : list column) (c : cref) : res string :=
  match c with ByName s => Ok s | ByIdx i => col_name cols i end.

(** Janus(dst, cells): resolve every cell's member name in order and insert it into the memory compound;
    inserting a name twice fails *)
Fixpoint resolve_cells (cols : list column) (cells : list (cref * value)) (seen : list string)
  : res (list (string * value)) :=
  match cells with
  | [] => Ok []
  | (c, v) :: r =>
    bind (cref_name cols c) (fun n =>
    if existsb (String.eqb n) seen then Err H5ERR
    else bind (resolve_cells cols r (n :: seen)) (fun r' => Ok ((n, v) :: r')))
  end.

(** H5Dwrite of a one-row compound subset: members the file type does not have are skipped (the code does
    so silently; the property text does not speak about them), every other member is converted to its
    column's type *)
Fixpoint cells_to_puts (cols : list column) (row : nat) (named : list (string * value)) : res (list put) :=
  match named with
  | [] => Ok []
  | (n, v) :: r =>
    match find_col n cols with
    | None => cells_to_puts cols row r
    | Some c => bind (conv (col_type cols c) v) (fun v' =>
                bind (cells_to_puts cols row r) (fun r' => Ok ((row, c, v') :: r')))
    end
  end.

Definition is_none (v : value) : bool := match v with VNone => true | _ => false end.
Definition is_nil {A} (l : list A) : bool := match l with [] => true | _ => false end.

(** [DataFrameHDF5::writeCells] (also the tail of writeRow): the checks in the order of the code *)
Definition plan_cells (cols : list column) (nr : nat) (ro : bool) (row : Z) (cells : list (cref * value)) : res (list put) :=
  if existsb (fun cv => is_none (snd cv)) cells then Err INVARG      (* data_type_to_h5_memtype(Nothing) *)
  else if is_nil cells then Err H5EXC                                 (* makeCompound(0) *)
  else
    bind (resolve_cells cols cells []) (fun named =>
    if ro then Err H5ERR
    else if negb (in_range row nr) then Err H5ERR                     (* hyperslab outside the extent *)
    else cells_to_puts cols (Z.to_nat row) named).

(** [DataFrameHDF5::writeRow]: value k goes to member k *)
Fixpoint number_cells (k : Z) (vs : list value) : list (cref * value) :=
  match vs with
  | [] => []
  | v :: r => (ByIdx k, v) :: number_cells (k + 1) r
  end.

Definition plan_row (cols : list column) (nr : nat) (ro : bool) (row : Z) (vs : list value) : res (list put) :=
  if Nat.ltb (List.length cols) (List.length vs) then Err LOGIC       (* member_name(k) for k >= #columns *)
  else plan_cells cols nr ro row (number_cells 0 vs).

(** column [c] of rows [off, off+cnt) gets the values [vs] *)
Fixpoint col_puts (c : nat) (off : nat) (vs : list value) : list put :=
  match vs with
  | [] => []
  | v :: r => (off, c, v) :: col_puts c (S off) r
  end.

(** [DataFrame::writeColumn<T>] front-end + [DataFrameHDF5::writeColumn] *)
Definition plan_column (cols : list column) (nr : nat) (ro : bool) (c : cref) (t : vtype) (off cnt : Z) (vs : list value)
  : res (list put) :=
  bind (colarg_name cols c) (fun name =>
  let cnt' := if (cnt =? 0)%Z then zlen vs else cnt in
  if (zlen vs <? cnt')%Z then Err OOB                                 (* "Requested to write more data than available" *)
  else if negb (elt_has_memtype t) then Err INVARG                    (* data_type_to_h5_memtype(Char) *)
  else if ro then Err H5ERR
  else match find_col name cols with
  | None =>                                                           (* no such member: nothing is transferred *)
    if (cnt' =? 0)%Z || (off + cnt' <=? Z.of_nat nr)%Z then Ok [] else Err H5ERR
  | Some ci =>
    if negb (convertible (elt_carrier t) (col_type cols ci)) then Err H5ERR
    else if (cnt' =? 0)%Z then Ok []
    else if negb ((0 <=? off) && (off + cnt' <=? Z.of_nat nr))%Z then Err H5ERR
    else bind (conv_all_gen (is_float_elt t) (col_type cols ci) (firstn (Z.to_nat cnt') vs)) (fun vs' =>
         Ok (col_puts ci (Z.to_nat off) vs'))
  end).

Definition plan_read_row (nr : nat) (row : Z) : res nat :=
  if in_range row nr then Ok (Z.to_nat row) else Err H5ERR.

Fixpoint has_dup (l : list string) : bool :=
  match l with
  | [] => false
  | a :: r => existsb (String.eqb a) r || has_dup r
  end.

(** request position, name, column index of every requested cell *)
Fixpoint name_cols (cols : list column) (names : list string) (k : Z) : list (Z * string * nat) :=
  match names with
  | [] => []
  | n :: r =>
    match find_col n cols with
    | Some c => (k, n, c) :: name_cols cols r (k + 1)
    | None => name_cols cols r (k + 1)
    end
  end.

(** [DataFrameHDF5::readCells]: every name must be a member, no name twice; Cell.col is the position in the request *)
Definition plan_read_cells (cols : list column) (nr : nat) (row : Z) (names : list string) : res (nat * list (Z * string * nat)) :=
  if negb (forallb (fun n => opt_is_some (find_col n cols)) names) then Err H5EXC   (* member_type(name) *)
  else if is_nil names then Err H5EXC
  else if has_dup names then Err H5ERR
  else if in_range row nr then Ok (Z.to_nat row, name_cols cols names 0) else Err H5ERR.

Definition plan_read_cell (cols : list column) (nr : nat) (row : Z) (c : cref) : res (nat * list (Z * string * nat)) :=
  bind (colarg_name cols c) (fun name => plan_read_cells cols nr row [name]).

(** what a column read transfers: [rp_k] elements starting at row [rp_off] of column [rp_src] ([None]:
    a name the frame does not have; HDF5 then transfers nothing and what the buffer holds afterwards is
    unspecified -- observed: zeroed for 4-byte elements, untouched for 8-byte ones -- so only the
    zero-element read is inside the domain), into the caller's vector [rp_pre] (already resized if asked for) *)
Record rplan := { rp_k : nat; rp_off : nat; rp_src : option nat; rp_pre : list value }.

(** [DataFrame::readColumn<T>] (both overloads: [cnt = None] is the one that derives the count)
    + [DataFrameHDF5::readColumn] *)
Definition plan_read_column (cols : list column) (nr : nat) (c : cref) (t : vtype) (cnt : option Z) (rs : bool)
    (off : Z) (pre : list value) : res rplan :=
  bind (colarg_name cols c) (fun name =>
  bind (match cnt with
        | Some k => Ok k
        | None => if rs then (if (Z.of_nat nr <? off)%Z then Err OOB        (* "offset > number of rows" *)
                              else Ok (Z.of_nat nr - off)%Z)
                  else Ok (zlen pre)
        end) (fun k =>
  if negb rs && (zlen pre <? k)%Z then Err OOB                       (* "Vector not big enough for requested data" *)
  else if negb (elt_has_memtype t) then Err INVARG                   (* data_type_to_h5_memtype(Char) *)
  else
  let pre' := if rs then resize (Z.to_nat k) (default_of (elt_carrier t)) pre else pre in
  match find_col name cols with
  | None =>
    if (k =? 0)%Z then Ok {| rp_k := O; rp_off := O; rp_src := None; rp_pre := pre' |}
    else if ((0 <=? off) && (0 <=? k) && (off + k <=? Z.of_nat nr))%Z
         then UB "readColumn of a name the frame does not have: the content of the buffer is unspecified"
         else Err H5ERR
  | Some ci =>
    if negb (convertible (col_type cols ci) (elt_carrier t)) then Err H5ERR
    else if (k =? 0)%Z then Ok {| rp_k := O; rp_off := O; rp_src := Some ci; rp_pre := pre' |}
    else if negb ((0 <=? off) && (0 <=? k) && (off + k <=? Z.of_nat nr))%Z then Err H5ERR
    else Ok {| rp_k := Z.to_nat k; rp_off := Z.to_nat off; rp_src := Some ci; rp_pre := pre' |}
  end)).

(** the first elements of the caller's vector are replaced by what was read (the rest is untouched) *)
Definition overlay (vs pre : list value) : list value := vs ++ skipn (List.length vs) pre.

(** finish a column read: convert the fetched cells to the caller's element type *)
Definition finish_read (t : vtype) (p : rplan) (fetched : list value) : res (list value) :=
  match rp_src p with
  | None => Ok (overlay (repeat (default_of (elt_carrier t)) (rp_k p)) (rp_pre p))
  | Some _ => bind (conv_elt_all t fetched) (fun vs => Ok (overlay vs (rp_pre p)))
  end.

(** [Block::createDataFrame] on a fresh block, as of /repo a3cfdfc.  Front-end, in this order: name/type
    checks and the duplicate-entity check (pass: fresh block, fixed name); an EMPTY column list is refused
    (std::invalid_argument); then per column, in order: an empty name -> std::invalid_argument (9dd5538), type Nothing or a type no Variant supports ->
    std::invalid_argument, a name seen before -> ConsistencyError.  Nothing is created before these pass. *)
Fixpoint check_cols (cols : list column) (seen : list string) : res unit :=
  match cols with
  | [] => Ok tt
  | c :: r =>
    if is_empty (c_name c) then Err INVARG                  (* 9dd5538: an empty column name is refused up front *)
    else if negb (supported (c_type c)) then Err INVARG
    else if existsb (String.eqb (c_name c)) seen then Err "nix::ConsistencyError"
    else check_cols r (c_name c :: seen)
  end.

Definition plan_create (cols : list column) : res unit :=
  if is_nil cols then Err INVARG
  else
  bind (check_cols cols []) (fun _ =>
  (* [DataFrameHDF5::createData]: every member type is storable, every name non-empty and there is at least one member *)
  Ok tt).

Definition answer_cells (cs : list (Z * string * nat)) (get : nat -> value) : list rcell :=
  map (fun knc => let '(k, n, c) := knc in (k, n, get c)) cs.

Definition first_cell (cs : list rcell) : rcell :=
  match cs with c0 :: _ => c0 | [] => (0%Z, "", VNone) end.

(** [DataFrameHDF5::colIndex(vector<string>)] / [colName(vector<unsigned>)]: the backend's own loops, element by
    element, the first failure ends the call *)
Fixpoint col_indices (cols : list column) (names : list string) : res (list Z) :=
  match names with
  | [] => Ok []
  | n :: r => match find_col n cols with
              | Some c => bind (col_indices cols r) (fun l => Ok (Z.of_nat c :: l))
              | None => Err H5EXC
              end
  end.

Fixpoint col_names (cols : list column) (idxs : list Z) : res (list string) :=
  match idxs with
  | [] => Ok []
  | i :: r => bind (col_name cols i) (fun n => bind (col_names cols r) (fun l => Ok (n :: l)))
  end.

(** * The model: the frame as its list of rows *)

Definition with_frame (s : dstate) (f : frame) : dstate := {| d_frame := Some f; d_ro := d_ro s |}.

(** a mutating call: plan, then list surgery *)
Definition on_frame (s : dstate) (k : frame -> res rowsT) : dstate * res fanswer :=
  match d_frame s with
  | None => (s, Err "nix::UninitializedEntity")
  | Some f => match k f with
              | Ok rows' => (with_frame s {| fr_cols := fr_cols f; fr_rows := rows' |}, Ok FDone)
              | Err e => (s, Err e)
              | UB w => (s, UB w)
              end
  end.

Definition ask_frame (s : dstate) (k : frame -> res fanswer) : dstate * res fanswer :=
  match d_frame s with
  | None => (s, Err "nix::UninitializedEntity")
  | Some f => (s, k f)
  end.

(** the cells of column [ci] in rows [off, off+k): a slice of the row list *)
Definition slice_column (rows : rowsT) (ci off k : nat) : list value :=
  map (fun row => nth ci row VNone) (firstn k (skipn off rows)).

Definition fstep (o : fop) (s : dstate) : dstate * res fanswer :=
  match o with
  | FNew cols =>
    match plan_create cols with
    | Ok _ => ({| d_frame := Some {| fr_cols := cols; fr_rows := [] |}; d_ro := false |}, Ok FDone)
    | Err e => (dfresh, Err e)
    | UB w => (dfresh, UB w)
    end
  | FRows n =>
    on_frame s (fun f =>
      if d_ro s then Err H5ERR
      else Ok (resize (Z.to_nat n) (default_row (fr_cols f)) (fr_rows f)))            (* H5Dset_extent *)
  | FNRows => (s, Ok (match d_frame s with Some f => FNum (Z.of_nat (nrows f)) | None => FAbsent end))
  | FSchema => (s, Ok (match d_frame s with Some f => FSchemaA (fr_cols f) | None => FAbsent end))
  | FWRow row vs =>
    on_frame s (fun f => bind (plan_row (fr_cols f) (nrows f) (d_ro s) row vs) (fun puts => Ok (apply_puts puts (fr_rows f))))
  | FWCells row cells =>
    on_frame s (fun f => bind (plan_cells (fr_cols f) (nrows f) (d_ro s) row cells) (fun puts => Ok (apply_puts puts (fr_rows f))))
  | FWCol c t off cnt vs =>
    on_frame s (fun f => bind (plan_column (fr_cols f) (nrows f) (d_ro s) c t off cnt vs) (fun puts => Ok (apply_puts puts (fr_rows f))))
  | FRRow row =>
    ask_frame s (fun f => bind (plan_read_row (nrows f) row) (fun r => Ok (FVals (nth r (fr_rows f) []))))
  | FRCells row names =>
    ask_frame s (fun f => bind (plan_read_cells (fr_cols f) (nrows f) row names) (fun rc =>
                          Ok (FCells (answer_cells (snd rc) (cell (fr_rows f) (fst rc))))))
  | FRCell row c =>
    ask_frame s (fun f => bind (plan_read_cell (fr_cols f) (nrows f) row c) (fun rc =>
                          Ok (FCell (first_cell (answer_cells (snd rc) (cell (fr_rows f) (fst rc)))))))
  | FRCol c t cnt rs off pre =>
    ask_frame s (fun f => bind (plan_read_column (fr_cols f) (nrows f) c t cnt rs off pre) (fun p =>
                          bind (finish_read t p (match rp_src p with
                                                 | Some ci => slice_column (fr_rows f) ci (rp_off p) (rp_k p)
                                                 | None => [] end)) (fun vs => Ok (FVals vs))))
  | FColIdx n => ask_frame s (fun f => match find_col n (fr_cols f) with
                                       | Some c => Ok (FNum (Z.of_nat c)) | None => Err H5EXC end)
  | FColName i => ask_frame s (fun f => bind (col_name (fr_cols f) i) (fun n => Ok (FStr n)))
  | FColIdxs ns => ask_frame s (fun f => bind (col_indices (fr_cols f) ns) (fun l => Ok (FNums l)))
  | FColNames is => ask_frame s (fun f => bind (col_names (fr_cols f) is) (fun l => Ok (FStrs l)))
  | FReopen ro => ({| d_frame := d_frame s; d_ro := ro |}, Ok (match d_frame s with Some _ => FDone | None => FNoFrame end))
  end.

Fixpoint frun (ops : list fop) (s : dstate) : list (res fanswer) :=
  match ops with
  | [] => []
  | o :: r => let '(s', a) := fstep o s in a :: frun r s'
  end.

Fixpoint ffinal (ops : list fop) (s : dstate) : dstate :=
  match ops with
  | [] => s
  | o :: r => ffinal r (fst (fstep o s))
  end.

(** * Specification: a pointwise cell map, kept as the log of accepted changes *)

Inductive event :=
| ERows (n : nat)                (* the row count became n *)
| EPut (puts : list put).        (* these cells were assigned (already converted to their column's type) *)

(** newest first *)
Definition log := list event.

(** the last assignment to (r, c) in a batch *)
Fixpoint find_put (puts : list put) (r c : nat) : option value :=
  match puts with
  | [] => None
  | (r', c', v) :: rest =>
    match find_put rest r c with
    | Some x => Some x
    | None => if Nat.eqb r' r && Nat.eqb c' c then Some v else None
    end
  end.

(** the value of cell (r, c): the last assignment since row r last (re)appeared, else [d] *)
Fixpoint lookup (l : log) (r c : nat) (d : value) : value :=
  match l with
  | [] => d
  | ERows n :: rest => if Nat.ltb r n then lookup rest r c d else d
  | EPut puts :: rest => match find_put puts r c with Some v => v | None => lookup rest r c d end
  end.

Fixpoint log_rows (l : log) : nat :=
  match l with
  | [] => O
  | ERows n :: _ => n
  | EPut _ :: rest => log_rows rest
  end.

Record sframe := { sf_cols : list column; sf_log : log }.
Record sstate := { s_frame : option sframe; s_ro : bool }.
Definition sfresh : sstate := {| s_frame := None; s_ro := false |}.

Definition spec_cell (f : sframe) (r c : nat) : value :=
  lookup (sf_log f) r c (default_of (col_type (sf_cols f) c)).

(** what the specification demands of an answer *)
Inductive verdict :=
| Must (a : fanswer)      (* exactly this answer *)
| Reject                  (* any exception, and no trace *)
| Any.                    (* outside the domain (an undefined double -> integer conversion was asked for) *)

Definition to_verdict (r : res fanswer) : verdict :=
  match r with Ok a => Must a | Err _ => Reject | UB _ => Any end.

Definition supdate (s : sstate) (k : sframe -> res event) : sstate * verdict :=
  match s_frame s with
  | None => (s, Reject)
  | Some f => match k f with
              | Ok e => ({| s_frame := Some {| sf_cols := sf_cols f; sf_log := e :: sf_log f |}; s_ro := s_ro s |}, Must FDone)
              | Err _ => (s, Reject)
              | UB _ => (s, Any)
              end
  end.

Definition sask (s : sstate) (k : sframe -> res fanswer) : sstate * verdict :=
  match s_frame s with
  | None => (s, Reject)
  | Some f => (s, to_verdict (k f))
  end.

Definition sstep (o : fop) (s : sstate) : sstate * verdict :=
  match o with
  | FNew cols =>
    match plan_create cols with
    | Ok _ => ({| s_frame := Some {| sf_cols := cols; sf_log := [] |}; s_ro := false |}, Must FDone)
    | Err _ => (sfresh, Reject)
    | UB _ => (sfresh, Any)
    end
  | FRows n => supdate s (fun f => if s_ro s then Err H5ERR else Ok (ERows (Z.to_nat n)))
  | FNRows => (s, Must (match s_frame s with Some f => FNum (Z.of_nat (log_rows (sf_log f))) | None => FAbsent end))
  | FSchema => (s, Must (match s_frame s with Some f => FSchemaA (sf_cols f) | None => FAbsent end))
  | FWRow row vs =>
    supdate s (fun f => bind (plan_row (sf_cols f) (log_rows (sf_log f)) (s_ro s) row vs) (fun puts => Ok (EPut puts)))
  | FWCells row cells =>
    supdate s (fun f => bind (plan_cells (sf_cols f) (log_rows (sf_log f)) (s_ro s) row cells) (fun puts => Ok (EPut puts)))
  | FWCol c t off cnt vs =>
    supdate s (fun f => bind (plan_column (sf_cols f) (log_rows (sf_log f)) (s_ro s) c t off cnt vs) (fun puts => Ok (EPut puts)))
  | FRRow row =>
    sask s (fun f => bind (plan_read_row (log_rows (sf_log f)) row) (fun r =>
                     Ok (FVals (map (spec_cell f r) (seq 0 (List.length (sf_cols f)))))))
  | FRCells row names =>
    sask s (fun f => bind (plan_read_cells (sf_cols f) (log_rows (sf_log f)) row names) (fun rc =>
                     Ok (FCells (answer_cells (snd rc) (spec_cell f (fst rc))))))
  | FRCell row c =>
    sask s (fun f => bind (plan_read_cell (sf_cols f) (log_rows (sf_log f)) row c) (fun rc =>
                     Ok (FCell (first_cell (answer_cells (snd rc) (spec_cell f (fst rc)))))))
  | FRCol c t cnt rs off pre =>
    sask s (fun f => bind (plan_read_column (sf_cols f) (log_rows (sf_log f)) c t cnt rs off pre) (fun p =>
                     bind (finish_read t p (match rp_src p with
                                            | Some ci => map (fun i => spec_cell f (rp_off p + i) ci) (seq 0 (rp_k p))
                                            | None => [] end)) (fun vs => Ok (FVals vs))))
  | FColIdx n => sask s (fun f => match find_col n (sf_cols f) with
                                  | Some c => Ok (FNum (Z.of_nat c)) | None => Err H5EXC end)
  | FColName i => sask s (fun f => bind (col_name (sf_cols f) i) (fun n => Ok (FStr n)))
  | FColIdxs ns => sask s (fun f => bind (col_indices (sf_cols f) ns) (fun l => Ok (FNums l)))
  | FColNames is => sask s (fun f => bind (col_names (sf_cols f) is) (fun l => Ok (FStrs l)))
  | FReopen ro => ({| s_frame := s_frame s; s_ro := ro |}, Must (match s_frame s with Some _ => FDone | None => FNoFrame end))
  end.

Fixpoint srun (ops : list fop) (s : sstate) : list verdict :=
  match ops with
  | [] => []
  | o :: r => let '(s', x) := sstep o s in x :: srun r s'
  end.

(** does a model outcome satisfy a verdict? *)
Definition fmeets (m : res fanswer) (v : verdict) : Prop :=
  match v, m with
  | Must x, Ok y => x = y
  | Reject, Err _ => True
  | Any, UB _ => True
  | _, _ => False
  end.
