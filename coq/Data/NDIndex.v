(** n-dimensional indices: shapes, row-major flat positions, boxes, offsets.
    Definitions only (proofs: NDProofs.v).  Extents, offsets and counts are C++ [ndsize_t]
    values, modelled as [Z]; the only arithmetic of the nix code on them that can wrap
    ([extent[axis] += count[axis]] in DataArray::appendData) uses [u64_add] in NDArr.v.
    The flat position of an index follows the layout HDF5 gives the *memory buffer* of a
    hyperslab transfer: row-major, last dimension fastest. *)
From Coq Require Import List ZArith Bool Lia.
Require Import NixV.Base.Prelude.
Import ListNotations.
Local Open Scope Z_scope.

(** number of elements of a shape ([NDSize::nelms], without the 64-bit wrap: see NDArr.v) *)
Fixpoint prod (sh : list Z) : Z :=
  match sh with
  | [] => 1
  | s :: r => s * prod r
  end.

Definition shape_ok (sh : list Z) : Prop := Forall (fun s => 0 <= s) sh.

Fixpoint shape_okb (sh : list Z) : bool :=
  match sh with
  | [] => true
  | s :: r => (0 <=? s) && shape_okb r
  end.

(** flat row-major position of index [i] in a box of shape [sh] *)
Fixpoint ravel (sh i : list Z) : Z :=
  match sh, i with
  | _ :: sh', x :: i' => x * prod sh' + ravel sh' i'
  | _, _ => 0
  end.

(** the index at flat position [k] *)
Fixpoint unravel (sh : list Z) (k : Z) : list Z :=
  match sh with
  | [] => []
  | _ :: sh' => (k / prod sh') :: unravel sh' (k mod prod sh')
  end.

(** [i] has the rank of [sh] and 0 <= i_j < sh_j in every dimension *)
Fixpoint in_box (sh i : list Z) : bool :=
  match sh, i with
  | [], [] => true
  | s :: sh', x :: i' => (0 <=? x) && (x <? s) && in_box sh' i'
  | _, _ => false
  end.

Fixpoint vadd (a b : list Z) : list Z :=
  match a, b with
  | x :: a', y :: b' => (x + y) :: vadd a' b'
  | _, _ => []
  end.

Fixpoint vsub (a b : list Z) : list Z :=
  match a, b with
  | x :: a', y :: b' => (x - y) :: vsub a' b'
  | _, _ => []
  end.

(** the box [off, off+cnt) lies inside the extent [sh] (all three of the same rank) *)
Fixpoint fits (sh off cnt : list Z) : bool :=
  match sh, off, cnt with
  | [], [], [] => true
  | s :: sh', o :: off', c :: cnt' => (0 <=? o) && (0 <=? c) && (o + c <=? s) && fits sh' off' cnt'
  | _, _, _ => false
  end.

(** index [i] lies in the box [off, off+cnt) *)
Definition in_slab (off cnt i : list Z) : bool :=
  Nat.eqb (List.length i) (List.length off) && in_box cnt (vsub i off).

(** tabulate a function over all indices of a box, in row-major order *)
Definition tab {A} (sh : list Z) (f : list Z -> A) : list A :=
  map (fun k => f (unravel sh (Z.of_nat k))) (seq 0 (Z.to_nat (prod sh))).

(** replace entry [n] *)
Fixpoint set_nth (l : list Z) (n : nat) (v : Z) : list Z :=
  match l, n with
  | [], _ => []
  | _ :: r, O => v :: r
  | x :: r, S n' => x :: set_nth r n' v
  end.

(** all entries equal except possibly at position [n]: the loop of DataArray::appendData
    ([for i < count.size(): if (i == axis) continue; if (extent[i] != count[i]) throw]) *)
Definition eq_except (a b : list Z) (n : nat) : bool :=
  forallb (fun j => Nat.eqb j n || (nth j a 0 =? nth j b 0)) (seq 0 (List.length b)).
