(** C01 proofs: n-d index bijection, slab lemmas, extent change, append, refinement of every history
    of the row-major model (NDArr) to the pointwise history specification (NDSpec), calibration,
    reopen.  Unbounded in rank, shape and history length. *)
From Coq Require Import List ZArith Bool String Lia ZifyBool ZifyNat.
From Flocq Require Import Core BinarySingleNaN.
Require Import NixV.Base.Prelude NixV.Base.F64 NixV.Data.NDIndex NixV.Data.NDArr NixV.Data.NDSpec.
Import ListNotations.
Local Open Scope Z_scope.

(** * Row-major index <-> flat position *)

Lemma shape_ok_cons : forall s r, shape_ok (s :: r) <-> 0 <= s /\ shape_ok r.
Proof.
  intros s r. unfold shape_ok. split.
  - intro H. inversion H; subst. auto.
  - intros [H1 H2]. constructor; assumption.
Qed.

Lemma prod_nonneg : forall sh, shape_ok sh -> 0 <= prod sh.
Proof.
  induction sh as [|s r IH]; intro H; cbn [prod].
  - lia.
  - apply shape_ok_cons in H. destruct H as [Hs Hr]. specialize (IH Hr). nia.
Qed.

Lemma shape_okb_ok : forall sh, shape_okb sh = true <-> shape_ok sh.
Proof.
  induction sh as [|s r IH]; cbn [shape_okb].
  - split; intros; [constructor | reflexivity].
  - rewrite shape_ok_cons, andb_true_iff, IH, Z.leb_le. tauto.
Qed.

Lemma in_box_length : forall sh i, in_box sh i = true -> List.length i = List.length sh.
Proof.
  induction sh as [|s r IH]; destruct i as [|x i']; cbn [in_box List.length]; intro H; try discriminate; auto.
  apply andb_true_iff in H. destruct H as [_ H]. f_equal. auto.
Qed.

Lemma in_box_cons : forall s r x i, in_box (s :: r) (x :: i) = true <-> 0 <= x < s /\ in_box r i = true.
Proof.
  intros. cbn [in_box]. rewrite !andb_true_iff, Z.leb_le, Z.ltb_lt. tauto.
Qed.

Lemma ravel_bounds : forall sh i, in_box sh i = true -> 0 <= ravel sh i < prod sh.
Proof.
  induction sh as [|s r IH]; destruct i as [|x i']; cbn [in_box]; intro H; try discriminate.
  - cbn [ravel prod]. lia.
  - apply in_box_cons in H. destruct H as [Hx Hi]. specialize (IH _ Hi).
    cbn [ravel prod]. nia.
Qed.

Theorem ravel_unravel : forall sh k, shape_ok sh -> 0 <= k < prod sh -> ravel sh (unravel sh k) = k.
Proof.
  induction sh as [|s r IH]; intros k Hok Hk; cbn [prod] in Hk; cbn [unravel ravel].
  - lia.
  - apply shape_ok_cons in Hok. destruct Hok as [Hs Hr].
    pose proof (prod_nonneg r Hr) as Hp.
    assert (Hp0 : 0 < prod r) by nia.
    rewrite IH; [| assumption | apply Z.mod_pos_bound; assumption].
    rewrite Z.mul_comm. symmetry. apply Z.div_mod. lia.
Qed.

Theorem unravel_in_box : forall sh k, shape_ok sh -> 0 <= k < prod sh -> in_box sh (unravel sh k) = true.
Proof.
  induction sh as [|s r IH]; intros k Hok Hk; cbn [prod] in Hk; cbn [unravel].
  - reflexivity.
  - apply shape_ok_cons in Hok. destruct Hok as [Hs Hr].
    pose proof (prod_nonneg r Hr) as Hp.
    assert (Hp0 : 0 < prod r) by nia.
    apply in_box_cons. split.
    + split. apply Z.div_pos; lia. apply Z.div_lt_upper_bound; lia.
    + apply IH; [assumption | apply Z.mod_pos_bound; assumption].
Qed.

Theorem unravel_ravel : forall sh i, in_box sh i = true -> unravel sh (ravel sh i) = i.
Proof.
  induction sh as [|s r IH]; destruct i as [|x i']; cbn [in_box]; intro H; try discriminate.
  - reflexivity.
  - apply in_box_cons in H. destruct H as [Hx Hi].
    pose proof (ravel_bounds _ _ Hi) as Hb. specialize (IH _ Hi).
    cbn [ravel unravel].
    assert (Hd : (x * prod r + ravel r i') / prod r = x).
    { symmetry. apply Z.div_unique with (r := ravel r i'); lia. }
    assert (Hm : (x * prod r + ravel r i') mod prod r = ravel r i').
    { symmetry. apply Z.mod_unique with (q := x); lia. }
    rewrite Hd, Hm, IH. reflexivity.
Qed.

(** * Tabulation *)

Lemma nth_map_seq : forall {A} (g : nat -> A) n len d, (n < len)%nat -> nth n (map g (seq 0 len)) d = g n.
Proof.
  intros A g n len d Hn.
  rewrite nth_indep with (d' := g 0%nat) by (rewrite map_length, seq_length; exact Hn).
  rewrite map_nth. rewrite seq_nth by exact Hn. reflexivity.
Qed.

Lemma tab_length : forall {A} sh (f : list Z -> A), List.length (tab sh f) = Z.to_nat (prod sh).
Proof. intros. unfold tab. rewrite map_length, seq_length. reflexivity. Qed.

Lemma tab_nth : forall {A} sh (f : list Z -> A) k d,
  (k < Z.to_nat (prod sh))%nat -> nth k (tab sh f) d = f (unravel sh (Z.of_nat k)).
Proof. intros. unfold tab. rewrite nth_map_seq by assumption. reflexivity. Qed.

Lemma tab_at : forall {A} sh (f : list Z -> A) i d,
  in_box sh i = true -> nth (Z.to_nat (ravel sh i)) (tab sh f) d = f i.
Proof.
  intros A sh f i d Hi. pose proof (ravel_bounds _ _ Hi) as Hb.
  rewrite tab_nth by lia. rewrite Z2Nat.id by lia. rewrite unravel_ravel by assumption. reflexivity.
Qed.

Lemma tab_empty : forall {A} sh (f : list Z -> A), prod sh <= 0 -> tab sh f = [].
Proof.
  intros. unfold tab. replace (Z.to_nat (prod sh)) with 0%nat by lia. reflexivity.
Qed.

Lemma list_eq_nth : forall {A} (l1 l2 : list A) d,
  List.length l1 = List.length l2 -> (forall k, (k < List.length l1)%nat -> nth k l1 d = nth k l2 d) -> l1 = l2.
Proof.
  induction l1 as [|a l1 IH]; destruct l2 as [|b l2]; cbn [List.length]; intros d Hl Hn; try discriminate; auto.
  f_equal.
  - apply (Hn 0%nat). lia.
  - apply IH with (d := d). lia. intros k Hk. apply (Hn (S k)). lia.
Qed.

Lemma tab_ext : forall {A} sh (f g : list Z -> A),
  shape_ok sh -> (forall i, in_box sh i = true -> f i = g i) -> tab sh f = tab sh g.
Proof.
  intros A sh f g Hok H. unfold tab. apply map_ext_in. intros k Hk. apply in_seq in Hk.
  apply H. apply unravel_in_box; [assumption | lia].
Qed.

(** a tabulation equals a list when it agrees with it at every index of the box *)
Lemma tab_eq_list : forall {A} sh (f : list Z -> A) l d,
  shape_ok sh -> List.length l = Z.to_nat (prod sh) ->
  (forall i, in_box sh i = true -> f i = nth (Z.to_nat (ravel sh i)) l d) -> tab sh f = l.
Proof.
  intros A sh f l d Hok Hl H.
  apply list_eq_nth with (d := d).
  - rewrite tab_length. lia.
  - intros k Hk. rewrite tab_length in Hk. rewrite tab_nth by assumption.
    assert (Hb : 0 <= Z.of_nat k < prod sh) by lia.
    rewrite H by (apply unravel_in_box; assumption).
    rewrite ravel_unravel by assumption. rewrite Nat2Z.id. reflexivity.
Qed.

(** * Offsets *)

Lemma vsub_vadd : forall off r, List.length r = List.length off -> vsub (vadd off r) off = r.
Proof.
  induction off as [|o off IH]; destruct r as [|x r]; cbn [List.length vadd vsub]; intro H; try discriminate; auto.
  f_equal. lia. apply IH. lia.
Qed.

Lemma vadd_vsub : forall off i, List.length i = List.length off -> vadd off (vsub i off) = i.
Proof.
  induction off as [|o off IH]; destruct i as [|x i]; cbn [List.length vadd vsub]; intro H; try discriminate; auto.
  f_equal. lia. apply IH. lia.
Qed.

Lemma vadd_length : forall a b, List.length a = List.length b -> List.length (vadd a b) = List.length a.
Proof.
  induction a as [|x a IH]; destruct b as [|y b]; cbn [List.length vadd]; intro H; try discriminate; auto.
Qed.

Lemma fits_lengths : forall sh off cnt, fits sh off cnt = true ->
  List.length off = List.length sh /\ List.length cnt = List.length sh.
Proof.
  induction sh as [|s sh IH]; destruct off as [|o off]; destruct cnt as [|c cnt]; cbn [fits List.length]; intro H;
    try discriminate; auto.
  rewrite !andb_true_iff in H. destruct H as [_ H]. destruct (IH _ _ H). split; lia.
Qed.

Lemma fits_shape_ok : forall sh off cnt, fits sh off cnt = true -> shape_ok cnt.
Proof.
  induction sh as [|s sh IH]; destruct off as [|o off]; destruct cnt as [|c cnt]; cbn [fits]; intro H;
    try discriminate.
  - constructor.
  - rewrite !andb_true_iff in H. destruct H as [[[_ Hc] _] H]. apply shape_ok_cons. split. lia. eapply IH; eassumption.
Qed.

Lemma fits_in_box : forall sh off cnt r,
  fits sh off cnt = true -> in_box cnt r = true -> in_box sh (vadd off r) = true.
Proof.
  induction sh as [|s sh IH]; destruct off as [|o off]; destruct cnt as [|c cnt]; cbn [fits]; intros r H Hr;
    try discriminate.
  - destruct r; [reflexivity | discriminate].
  - destruct r as [|x r]; [discriminate|].
    apply in_box_cons in Hr. destruct Hr as [Hx Hr].
    rewrite !andb_true_iff in H. destruct H as [[[Ho Hc] Hs] H].
    cbn [vadd]. apply in_box_cons. split. lia. eapply IH; eassumption.
Qed.

Lemma in_slab_vadd : forall off cnt r,
  List.length off = List.length cnt -> in_box cnt r = true -> in_slab off cnt (vadd off r) = true.
Proof.
  intros off cnt r Hl Hr. unfold in_slab.
  pose proof (in_box_length _ _ Hr) as Hlr.
  rewrite vadd_length by lia. rewrite Nat.eqb_refl. cbn [andb].
  rewrite vsub_vadd by lia. assumption.
Qed.

Lemma in_slab_true : forall off cnt i, in_slab off cnt i = true ->
  List.length i = List.length off /\ in_box cnt (vsub i off) = true.
Proof.
  intros off cnt i H. unfold in_slab in H. apply andb_true_iff in H. destruct H as [H1 H2].
  apply Nat.eqb_eq in H1. auto.
Qed.

(** * The array model: cells of a tabulated array *)

Lemma get_with_tab : forall a sh (f : list Z -> V) i,
  in_box sh i = true -> get (with_data a sh (tab sh f)) i = f i.
Proof.
  intros a sh f i Hi. unfold get, with_data. cbn [a_shape a_cells]. apply tab_at. assumption.
Qed.

Lemma wf_with_tab : forall a sh (f : list Z -> V), shape_ok sh -> wf (with_data a sh (tab sh f)).
Proof.
  intros. unfold wf, with_data. cbn [a_shape a_cells]. split. assumption. apply tab_length.
Qed.

Lemma create_wf : forall t c sh, shape_ok sh -> wf (create t c sh).
Proof. intros. unfold wf, create. cbn [a_shape a_cells]. split. assumption. apply tab_length. Qed.

Lemma create_get : forall t c sh i, in_box sh i = true -> get (create t c sh) i = zero_of t.
Proof. intros t c sh i H. unfold get, create. cbn [a_shape a_cells]. exact (tab_at sh (fun _ => zero_of t) i _ H). Qed.

(** ** slab selection *)

Lemma slab_sel_lengths : forall sh off cnt foff fcnt,
  slab_sel sh off cnt = Ok (foff, fcnt) -> List.length foff = List.length sh /\ List.length fcnt = List.length sh.
Proof.
  intros sh off cnt foff fcnt H. unfold slab_sel in H.
  destruct (negb (Nat.eqb (List.length off) 0) &&
            ((List.length off <? List.length sh)%nat ||
             (negb (Nat.eqb (List.length cnt) 0) && (List.length cnt <? List.length sh)%nat))) eqn:E0; [discriminate|].
  destruct ((32 <? List.length cnt)%nat || existsb (fun c => u64max <=? c) cnt); [discriminate|].
  destruct off as [|o off].
  - inversion H; subst. rewrite repeat_length. auto.
  - destruct cnt as [|c cnt]; inversion H; subst; cbn [List.length] in *;
      rewrite ?firstn_length, ?repeat_length; cbn [List.length]; split; lia.
Qed.

(** ** write: the cell-wise effect *)

Lemma write_slab_inv : forall a off cnt vals a',
  write_slab false a off cnt vals = Ok a' ->
  exists foff fcnt,
    slab_sel (a_shape a) off cnt = Ok (foff, fcnt) /\
    zlen vals = prod cnt /\
    xfer_ok (a_shape a) foff fcnt cnt = true /\
    a' = with_data a (a_shape a)
           (tab (a_shape a) (fun i => if in_slab foff fcnt i
                                      then nth (Z.to_nat (ravel fcnt (vsub i foff))) vals (zero a)
                                      else get a i)).
Proof.
  intros a off cnt vals a' H. unfold write_slab in H.
  destruct (zlen vals =? prod cnt) eqn:Hz; cbn [negb] in H; [|discriminate].
  destruct (slab_sel (a_shape a) off cnt) as [[foff fcnt]|e|w] eqn:Hs; cbn [bind fst snd] in H; try discriminate.
  destruct (xfer_ok (a_shape a) foff fcnt cnt) eqn:Hx; cbn [negb] in H; [|discriminate].
  inversion H; subst. exists foff, fcnt. repeat split; auto. lia.
Qed.

Theorem write_slab_get : forall a off cnt vals a',
  wf a -> write_slab false a off cnt vals = Ok a' ->
  a_shape a' = a_shape a /\ a_ty a' = a_ty a /\ wf a' /\
  exists foff fcnt, slab_sel (a_shape a) off cnt = Ok (foff, fcnt) /\
    forall i, in_box (a_shape a) i = true ->
      get a' i = if in_slab foff fcnt i then nth (Z.to_nat (ravel fcnt (vsub i foff))) vals (zero a) else get a i.
Proof.
  intros a off cnt vals a' [Hok Hlen] H.
  apply write_slab_inv in H. destruct H as (foff & fcnt & Hs & Hz & Hx & ->).
  split; [reflexivity|]. split; [reflexivity|]. split; [apply wf_with_tab; assumption|].
  exists foff, fcnt. split; [assumption|].
  intros i Hi. apply get_with_tab. assumption.
Qed.

Lemma read_slab_inv : forall a off cnt vs,
  read_slab a off cnt = Ok vs ->
  exists foff fcnt, slab_sel (a_shape a) off cnt = Ok (foff, fcnt) /\
    xfer_ok (a_shape a) foff fcnt cnt = true /\ vs = tab fcnt (fun r => get a (vadd foff r)).
Proof.
  intros a off cnt vs H. unfold read_slab in H.
  destruct (slab_sel (a_shape a) off cnt) as [[foff fcnt]|e|w] eqn:Hs; cbn [bind fst snd] in H; try discriminate.
  destruct (xfer_ok (a_shape a) foff fcnt cnt) eqn:Hx; cbn [negb] in H; [|discriminate].
  inversion H; subst. exists foff, fcnt. auto.
Qed.

(** a slab read right after a slab write with the same arguments returns the written values *)
Theorem read_write_same : forall a off cnt vals a',
  wf a -> write_slab false a off cnt vals = Ok a' -> read_slab a' off cnt = Ok vals.
Proof.
  intros a off cnt vals a' Hwf H.
  apply write_slab_inv in H. destruct H as (foff & fcnt & Hs & Hz & Hx & ->).
  unfold read_slab. cbn [with_data a_shape]. rewrite Hs. cbn [bind fst snd]. rewrite Hx. cbn [negb].
  f_equal.
  unfold xfer_ok in Hx. apply andb_true_iff in Hx. destruct Hx as [Hp Hf]. apply Z.eqb_eq in Hp.
  unfold zlen in Hz.
  destruct (prod fcnt =? 0) eqn:Hp0.
  - apply Z.eqb_eq in Hp0. rewrite tab_empty by lia.
    destruct vals; [reflexivity | cbn [List.length] in Hz; lia].
  - cbn [orb] in Hf. apply Z.eqb_neq in Hp0.
    destruct (fits_lengths _ _ _ Hf) as [Hl1 Hl2].
    apply tab_eq_list with (d := zero a).
    + eapply fits_shape_ok; eassumption.
    + lia.
    + intros r Hr.
      rewrite get_with_tab by (eapply fits_in_box; eassumption).
      rewrite in_slab_vadd by (assumption || lia).
      rewrite vsub_vadd by (rewrite (in_box_length _ _ Hr); lia).
      reflexivity.
Qed.

(** cells outside the written box keep their value *)
Theorem read_write_other : forall a off cnt vals a' foff fcnt i,
  wf a -> write_slab false a off cnt vals = Ok a' ->
  slab_sel (a_shape a) off cnt = Ok (foff, fcnt) ->
  in_box (a_shape a) i = true -> in_slab foff fcnt i = false ->
  get a' i = get a i.
Proof.
  intros a off cnt vals a' foff fcnt i Hwf H Hs Hi Hn.
  destruct (write_slab_get _ _ _ _ _ Hwf H) as (_ & _ & _ & foff' & fcnt' & Hs' & Hg).
  rewrite Hs in Hs'. inversion Hs'; subst. rewrite Hg by assumption. rewrite Hn. reflexivity.
Qed.

(** a slab read of a region disjoint from the written box is unchanged by the write *)
Theorem read_write_disjoint : forall a off cnt vals a' foff fcnt off2 cnt2 foff2 fcnt2,
  wf a -> write_slab false a off cnt vals = Ok a' ->
  slab_sel (a_shape a) off cnt = Ok (foff, fcnt) ->
  slab_sel (a_shape a) off2 cnt2 = Ok (foff2, fcnt2) ->
  (forall r, in_box fcnt2 r = true -> in_slab foff fcnt (vadd foff2 r) = false) ->
  read_slab a' off2 cnt2 = read_slab a off2 cnt2.
Proof.
  intros a off cnt vals a' foff fcnt off2 cnt2 foff2 fcnt2 Hwf H Hs Hs2 Hd.
  destruct (write_slab_get _ _ _ _ _ Hwf H) as (Hsh & _ & _ & foff' & fcnt' & Hs' & Hg).
  rewrite Hs in Hs'. inversion Hs'; subst foff' fcnt'.
  unfold read_slab. rewrite Hsh, Hs2. cbn [bind fst snd].
  destruct (xfer_ok (a_shape a) foff2 fcnt2 cnt2) eqn:Hx; cbn [negb]; [|reflexivity].
  f_equal.
  unfold xfer_ok in Hx. apply andb_true_iff in Hx. destruct Hx as [_ Hf].
  destruct (prod fcnt2 =? 0) eqn:Hp0.
  - apply Z.eqb_eq in Hp0. rewrite !tab_empty by lia. reflexivity.
  - cbn [orb] in Hf. apply tab_ext. eapply fits_shape_ok; eassumption.
    intros r Hr. rewrite Hg by (eapply fits_in_box; eassumption). rewrite Hd by assumption. reflexivity.
Qed.

(** ** extent change *)

Lemma set_extent_inv : forall a sh a',
  set_extent false a sh = Ok a' ->
  List.length sh = List.length (a_shape a) /\ existsb (fun s => u64max <=? s) sh = false /\
  a' = with_data a sh (tab sh (fun i => if in_box (a_shape a) i then get a i else zero a)).
Proof.
  intros a sh a' H. unfold set_extent in H.
  destruct (Nat.eqb (List.length sh) (List.length (a_shape a))) eqn:E; cbn [negb] in H; [|discriminate].
  destruct (existsb (fun s => u64max <=? s) sh) eqn:E2; [discriminate|].
  inversion H; subst. apply Nat.eqb_eq in E. auto.
Qed.

Theorem set_extent_get : forall a sh a',
  shape_ok sh -> set_extent false a sh = Ok a' ->
  a_shape a' = sh /\ a_ty a' = a_ty a /\ wf a' /\
  forall i, in_box sh i = true -> get a' i = if in_box (a_shape a) i then get a i else zero a.
Proof.
  intros a sh a' Hok H. apply set_extent_inv in H. destruct H as (_ & _ & ->).
  split; [reflexivity|]. split; [reflexivity|]. split; [apply wf_with_tab; assumption|].
  intros i Hi. apply get_with_tab. assumption.
Qed.

(** surviving indices keep their value *)
Theorem set_extent_keeps : forall a sh a' i,
  shape_ok sh -> set_extent false a sh = Ok a' ->
  in_box sh i = true -> in_box (a_shape a) i = true -> get a' i = get a i.
Proof.
  intros a sh a' i Hok H Hi Hold.
  destruct (set_extent_get _ _ _ Hok H) as (_ & _ & _ & Hg). rewrite Hg by assumption. rewrite Hold. reflexivity.
Qed.

(** exposed indices read zero / the empty string *)
Theorem set_extent_fills : forall a sh a' i,
  shape_ok sh -> set_extent false a sh = Ok a' ->
  in_box sh i = true -> in_box (a_shape a) i = false -> get a' i = zero_of (a_ty a).
Proof.
  intros a sh a' i Hok H Hi Hold.
  destruct (set_extent_get _ _ _ Hok H) as (_ & _ & _ & Hg). rewrite Hg by assumption. rewrite Hold. reflexivity.
Qed.

(** * Append *)

Lemma set_nth_length : forall l n v, List.length (set_nth l n v) = List.length l.
Proof. induction l as [|x l IH]; destruct n; cbn [set_nth List.length]; intros; auto. Qed.

Lemma set_nth_same : forall l n v, (n < List.length l)%nat -> nth n (set_nth l n v) 0 = v.
Proof.
  induction l as [|x l IH]; destruct n; cbn [set_nth List.length nth]; intros v H; try lia; auto.
  apply IH. lia.
Qed.

Lemma set_nth_shape_ok : forall l n v, shape_ok l -> 0 <= v -> shape_ok (set_nth l n v).
Proof.
  induction l as [|x l IH]; destruct n; cbn [set_nth]; intros v H Hv; auto.
  - apply shape_ok_cons in H. apply shape_ok_cons. tauto.
  - apply shape_ok_cons in H. apply shape_ok_cons. split. tauto. apply IH; tauto.
Qed.

Lemma shape_ok_nth : forall l n, shape_ok l -> 0 <= nth n l 0.
Proof.
  induction l as [|x l IH]; destruct n; cbn [nth]; intro H; try lia.
  - apply shape_ok_cons in H. lia.
  - apply shape_ok_cons in H. apply IH. tauto.
Qed.

Lemma in_box_grow : forall sh i n v, in_box sh i = true -> nth n sh 0 <= v -> in_box (set_nth sh n v) i = true.
Proof.
  induction sh as [|s sh IH]; destruct i as [|x i]; cbn [in_box]; intros n v H Hv; try discriminate.
  - destruct n; reflexivity.
  - apply in_box_cons in H. destruct H as [Hx Hi]. destruct n; cbn [set_nth nth] in *.
    + apply in_box_cons. split. lia. assumption.
    + apply in_box_cons. split. lia. apply IH; assumption.
Qed.

Lemma in_box_nth : forall sh i n, in_box sh i = true -> (n < List.length sh)%nat -> 0 <= nth n i 0 < nth n sh 0.
Proof.
  induction sh as [|s sh IH]; destruct i as [|x i]; cbn [in_box List.length]; intros n H Hn; try discriminate; try lia.
  apply in_box_cons in H. destruct H as [Hx Hi]. destruct n; cbn [nth]. lia. apply IH. assumption. lia.
Qed.

Lemma in_box_vsub_nth : forall cnt i off n,
  in_box cnt (vsub i off) = true -> (n < List.length cnt)%nat -> nth n off 0 <= nth n i 0.
Proof.
  induction cnt as [|c cnt IH]; intros i off n H Hn; cbn [List.length] in Hn; try lia.
  destruct i as [|x i]; destruct off as [|o off]; cbn [vsub in_box] in H; try discriminate.
  apply in_box_cons in H. destruct H as [Hx Hi]. destruct n; cbn [nth]. lia. eapply IH. eassumption. lia.
Qed.

Lemma u64_add_small : forall x y, 0 <= x + y < two64 -> u64_add x y = x + y.
Proof. intros. unfold u64_add, u64_wrap. apply Z.mod_small. assumption. Qed.

Lemma slab_sel_full : forall sh off cnt,
  (0 < List.length sh)%nat -> List.length off = List.length sh -> List.length cnt = List.length sh ->
  slab_sel sh off cnt = Ok (off, cnt) \/ slab_sel sh off cnt = Err h5exception.
Proof.
  intros sh off cnt Hr Ho Hc. unfold slab_sel.
  rewrite Ho, Hc, Nat.ltb_irrefl. cbn [orb andb]. rewrite andb_false_r. cbn [orb andb]. rewrite andb_false_r.
  destruct ((32 <? List.length sh)%nat || existsb (fun c => u64max <=? c) cnt); [right; reflexivity|].
  left. destruct off as [|o off]; [cbn [List.length] in Ho; lia|].
  destruct cnt as [|c cnt]; [cbn [List.length] in Hc; lia|].
  rewrite <- Ho at 1. rewrite firstn_all. rewrite <- Hc. rewrite firstn_all. reflexivity.
Qed.

(** append = grow along [axis] + write at the old end; every old element unchanged *)
Theorem append_spec : forall a axis cnt vals a',
  wf a -> 0 <= axis ->
  0 <= nth (Z.to_nat axis) cnt 0 ->
  nth (Z.to_nat axis) (a_shape a) 0 + nth (Z.to_nat axis) cnt 0 < two64 ->
  append false a axis cnt vals = Ok (a', Ok tt) ->
  a_shape a' = set_nth (a_shape a) (Z.to_nat axis) (nth (Z.to_nat axis) (a_shape a) 0 + nth (Z.to_nat axis) cnt 0) /\
  wf a' /\
  (forall i, in_box (a_shape a) i = true -> get a' i = get a i) /\
  read_slab a' (set_nth (repeat 0 (List.length (a_shape a))) (Z.to_nat axis) (nth (Z.to_nat axis) (a_shape a) 0)) cnt = Ok vals.
Proof.
  intros a axis cnt vals a' Hwf Hax Hc Hnw H.
  unfold append in H.
  set (ax := Z.to_nat axis) in *. set (ext := a_shape a) in *.
  destruct (zlen ext <=? axis) eqn:E1; [discriminate|].
  destruct (Nat.eqb (List.length ext) (List.length cnt)) eqn:E2; cbn [negb] in H; [|discriminate].
  destruct (eq_except ext cnt ax) eqn:E3; cbn [negb] in H; [|discriminate].
  apply Nat.eqb_eq in E2. unfold zlen in E1.
  assert (Haxl : (ax < List.length ext)%nat) by lia.
  destruct Hwf as [Hok Hlen].
  pose proof (shape_ok_nth ext ax Hok) as He0.
  rewrite u64_add_small in H by lia.
  set (ext' := set_nth ext ax (nth ax ext 0 + nth ax cnt 0)) in *.
  set (off := set_nth (repeat 0 (List.length ext)) ax (nth ax ext 0)) in *.
  destruct (set_extent false a ext') as [a1|e|w] eqn:Hse; cbn [bind] in H; try discriminate.
  destruct (write_slab false a1 off cnt vals) as [a2|e|w] eqn:Hw; try discriminate.
  inversion H; subst a2. clear H.
  assert (Hok' : shape_ok ext') by (apply set_nth_shape_ok; [assumption | lia]).
  destruct (set_extent_get _ _ _ Hok' Hse) as (Hsh1 & Hty1 & Hwf1 & Hg1).
  destruct (write_slab_get _ _ _ _ _ Hwf1 Hw) as (Hsh2 & _ & Hwf2 & foff & fcnt & Hs & Hg2).
  split; [rewrite Hsh2, Hsh1; reflexivity|]. split; [assumption|]. split.
  - intros i Hi.
    assert (Hi' : in_box ext' i = true) by (apply in_box_grow; [assumption | lia]).
    rewrite Hsh1 in Hg2. rewrite Hg2 by assumption.
    rewrite Hsh1 in Hs.
    assert (Hlo : List.length off = List.length ext') by (unfold off, ext'; rewrite !set_nth_length, repeat_length; reflexivity).
    assert (Hlc : List.length cnt = List.length ext') by (unfold ext'; rewrite set_nth_length; lia).
    destruct (slab_sel_full ext' off cnt) as [Hs'|Hs']; try assumption.
    { unfold ext'. rewrite set_nth_length. lia. }
    2:{ rewrite Hs' in Hs. discriminate. }
    rewrite Hs' in Hs. inversion Hs; subst foff fcnt.
    destruct (in_slab off cnt i) eqn:Hin.
    + exfalso. apply in_slab_true in Hin. destruct Hin as [_ Hin].
      pose proof (in_box_vsub_nth cnt i off ax Hin ltac:(lia)) as Hge.
      unfold off in Hge. rewrite set_nth_same in Hge by (rewrite repeat_length; assumption).
      pose proof (in_box_nth ext i ax Hi Haxl). lia.
    + rewrite Hg1 by assumption. fold ext. rewrite Hi. reflexivity.
  - apply (read_write_same a1); assumption.
Qed.

(** * Calibration *)

Lemma poly_fold_eval : forall cs x v t, fst (fold_left (poly_step x) cs (v, t)) = poly_eval cs x v t.
Proof.
  induction cs as [|c cs IH]; intros x v t; cbn [fold_left poly_eval].
  - reflexivity.
  - unfold poly_step at 2. cbn [fst snd]. apply IH.
Qed.

Theorem apply_poly_spec : forall cs o x, apply_poly cs o x = spec_poly cs o x.
Proof.
  intros cs o x. unfold apply_poly, spec_poly. destruct cs as [|c cs]; [reflexivity|]. apply poly_fold_eval.
Qed.

(** * Monadic maps *)

Lemma to_opt_mapM : forall {A B} (f : A -> res B) l, to_opt (mapM f l) = mapO (fun x => to_opt (f x)) l.
Proof.
  induction l as [|x l IH]; cbn [mapM mapO]; [reflexivity|].
  destruct (f x) as [y|e|w]; cbn [bind to_opt]; try reflexivity.
  rewrite <- IH. destruct (mapM f l); reflexivity.
Qed.

Lemma mapM_length : forall {A B} (f : A -> res B) l ys, mapM f l = Ok ys -> List.length ys = List.length l.
Proof.
  induction l as [|x l IH]; cbn [mapM]; intros ys H.
  - inversion H. reflexivity.
  - destruct (f x); cbn [bind] in H; try discriminate.
    destruct (mapM f l) eqn:E; cbn [bind] in H; try discriminate. inversion H; subst. cbn [List.length]. f_equal. auto.
Qed.

Lemma mapO_ext : forall {A B} (f g : A -> option B) l, (forall x, f x = g x) -> mapO f l = mapO g l.
Proof. induction l as [|x l IH]; cbn [mapO]; intro H; [reflexivity|]. rewrite H, IH by assumption. reflexivity. Qed.

Lemma mapO_compose : forall {A B C} (f : A -> option B) (g : B -> option C) l,
  match mapO f l with Some ds => mapO g ds | None => None end
  = mapO (fun v => match f v with Some d => g d | None => None end) l.
Proof.
  induction l as [|x l IH]; cbn [mapO]; [reflexivity|].
  destruct (f x) as [d|].
  - destruct (mapO f l) as [ds|]; cbn [mapO].
    + rewrite <- IH. reflexivity.
    + rewrite <- IH. destruct (g d); reflexivity.
  - destruct (mapO f l); reflexivity.
Qed.

(** * Refinement: the row-major model against the pointwise history specification *)

Lemma to_opt_bind : forall {A B} (m : res A) (f : A -> res B),
  to_opt (bind m f) = match to_opt m with Some x => to_opt (f x) | None => None end.
Proof. intros. destruct m; reflexivity. Qed.

Lemma sel_agree : forall sh off cnt, to_opt (slab_sel sh off cnt) = spec_sel sh off cnt.
Proof.
  intros sh off cnt. unfold slab_sel, spec_sel.
  destruct off as [|o off]; cbn [is_nil List.length Nat.eqb negb andb].
  - destruct (32 <? List.length cnt)%nat; cbn [orb]; [reflexivity|].
    destruct (existsb (fun c => u64max <=? c) cnt); reflexivity.
  - destruct cnt as [|c cnt]; cbn [is_nil List.length Nat.eqb negb andb existsb orb].
    + destruct (S (List.length off) <? List.length sh)%nat; cbn [orb]; [reflexivity|].
      destruct (32 <? 0)%nat eqn:E; [discriminate E | reflexivity].
    + destruct (S (List.length off) <? List.length sh)%nat; cbn [orb].
      * destruct (32 <? S (List.length cnt))%nat; cbn [orb]; [reflexivity|].
        destruct ((u64max <=? c) || existsb (fun c0 => u64max <=? c0) cnt); reflexivity.
      * destruct (S (List.length cnt) <? List.length sh)%nat.
        -- destruct (32 <? S (List.length cnt))%nat; cbn [orb]; [reflexivity|].
           destruct ((u64max <=? c) || existsb (fun c0 => u64max <=? c0) cnt); reflexivity.
        -- destruct (32 <? S (List.length cnt))%nat; cbn [orb]; [reflexivity|].
           destruct ((u64max <=? c) || existsb (fun c0 => u64max <=? c0) cnt); reflexivity.
Qed.

Lemma region_agree : forall sh off cnt,
  match slab_sel sh off cnt with
  | Ok (foff, fcnt) => if xfer_ok sh foff fcnt cnt then Some (foff, fcnt) else None
  | _ => None
  end = spec_region sh off cnt.
Proof.
  intros. unfold spec_region. rewrite <- sel_agree.
  destruct (slab_sel sh off cnt) as [[foff fcnt]|e|w]; reflexivity.
Qed.

(** the abstraction relation between an array of the model and a state of the specification *)
Definition RA (a : arr) (h : sst) : Prop :=
  a_ty a = s_ty h /\ a_shape a = s_shape h /\ wf a /\
  (forall i, in_box (a_shape a) i = true -> get a i = s_cell h i) /\
  a_poly a = s_poly h /\ a_origin a = s_origin h.

Lemma RA_zero : forall a h, RA a h -> zero a = zero_of (s_ty h).
Proof. intros a h (Ht & _). unfold zero. rewrite Ht. reflexivity. Qed.

Lemma read_agree : forall a h off cnt, RA a h ->
  to_opt (read_slab a off cnt) =
  match spec_region (s_shape h) off cnt with
  | Some (foff, fcnt) => Some (spec_region_vals h foff fcnt)
  | None => None
  end.
Proof.
  intros a h off cnt (Ht & Hsh & Hwf & Hc & _).
  rewrite <- region_agree. rewrite <- Hsh. unfold read_slab.
  destruct (slab_sel (a_shape a) off cnt) as [[foff fcnt]|e|w]; cbn [bind fst snd to_opt]; try reflexivity.
  destruct (xfer_ok (a_shape a) foff fcnt cnt) eqn:Hx; cbn [negb to_opt]; [|reflexivity].
  f_equal. unfold spec_region_vals.
  unfold xfer_ok in Hx. apply andb_true_iff in Hx. destruct Hx as [_ Hf].
  destruct (prod fcnt =? 0) eqn:Hp0.
  - apply Z.eqb_eq in Hp0. rewrite !tab_empty by lia. reflexivity.
  - cbn [orb] in Hf. apply tab_ext. eapply fits_shape_ok; eassumption.
    intros r Hr. apply Hc. eapply fits_in_box; eassumption.
Qed.

Lemma read_direct_agree : forall a h dst off cnt, RA a h ->
  to_opt (read_direct a dst off cnt) = spec_read_list h true dst off cnt.
Proof.
  intros a h dst off cnt HR. pose proof (read_agree a h off cnt HR) as Hr.
  destruct HR as (Ht & Hsh & _).
  unfold read_direct, spec_read_list, spec_read_vals. cbn [orb].
  rewrite to_opt_bind.
  destruct (spec_region (s_shape h) off cnt) as [[foff fcnt]|] eqn:Hreg.
  - rewrite <- region_agree, <- Hsh in Hreg.
    destruct (slab_sel (a_shape a) off cnt) as [[foff' fcnt']|e|w]; try discriminate. cbn [to_opt].
    rewrite <- Ht.
    destruct (conv_ok (a_ty a) dst); cbn [negb]; [|reflexivity].
    rewrite to_opt_bind, Hr. apply to_opt_mapM.
  - rewrite <- region_agree, <- Hsh in Hreg.
    destruct (slab_sel (a_shape a) off cnt) as [[foff' fcnt']|e|w] eqn:Hs; cbn [to_opt]; try reflexivity.
    destruct (conv_ok (a_ty a) dst); cbn [negb]; [|reflexivity].
    rewrite to_opt_bind, Hr. reflexivity.
Qed.

Lemma conv_ok_not_string : forall dst, conv_ok TDouble dst = true -> dtype_eqb dst TString = false.
Proof. destruct dst; cbn; intro H; try reflexivity; discriminate. Qed.

Lemma calibrated_agree : forall a h, RA a h -> calibrated a = s_calibrated h.
Proof.
  intros a h (_ & _ & _ & _ & Hp & Ho). unfold calibrated, s_calibrated, poly_coeffs, s_coeffs.
  rewrite Hp, Ho. destruct (s_poly h) as [[|c cs]|]; reflexivity.
Qed.

Lemma io_read_agree : forall a h dst off cnt, RA a h ->
  to_opt (io_read a dst off cnt) = spec_read_list h false dst off cnt.
Proof.
  intros a h dst off cnt HR. unfold io_read.
  rewrite (calibrated_agree _ _ HR).
  destruct (s_calibrated h) eqn:Hcal.
  - destruct (dtype_eqb dst TString) eqn:Es.
    + assert (dst = TString) by (destruct dst; (discriminate || reflexivity)). subst dst. cbn [to_opt].
      unfold spec_read_list, spec_read_vals. rewrite Hcal. cbn [orb negb].
      destruct (spec_region (s_shape h) off cnt) as [[foff fcnt]|]; [|reflexivity].
      replace (conv_ok TDouble TString) with false by reflexivity. rewrite andb_false_r. reflexivity.
    + rewrite to_opt_bind, (read_direct_agree _ _ _ _ _ HR).
      destruct HR as (Ht & Hsh & _ & _ & Hp & Ho).
      unfold spec_read_list, spec_read_vals. rewrite Hcal. cbn [orb negb].
      destruct (spec_region (s_shape h) off cnt) as [[foff fcnt]|]; [|reflexivity].
      destruct (conv_ok (s_ty h) TDouble); cbn [andb]; [|reflexivity].
      destruct (conv_ok TDouble dst) eqn:Hc2.
      * rewrite <- mapO_compose.
        destruct (mapO (fun v => to_opt (conv_val (s_ty h) TDouble v)) (spec_region_vals h foff fcnt)) as [ds|]; [|reflexivity].
        cbn [negb].
        rewrite to_opt_mapM. apply mapO_ext. intro v.
        rewrite apply_poly_spec. unfold poly_coeffs, s_coeffs, origin_or_zero. rewrite Hp, Ho. reflexivity.
      * destruct (mapO (fun v => to_opt (conv_val (s_ty h) TDouble v)) (spec_region_vals h foff fcnt)) as [ds|]; reflexivity.
  - rewrite (read_direct_agree _ _ _ _ _ HR).
    unfold spec_read_list, spec_read_vals. rewrite Hcal. cbn [orb negb]. reflexivity.
Qed.

Definition ro_of (h : sst) : bool := ro_mode h.

Lemma extent_agree : forall a h sh, RA a h -> shape_ok sh ->
  match set_extent (ro_mode h) a sh with
  | Ok a' => exists h', spec_extent h sh = Some h' /\ RA a' h' /\ s_mode h' = s_mode h
  | _ => spec_extent h sh = None
  end.
Proof.
  intros a h sh HR Hok. pose proof (RA_zero _ _ HR) as Hz.
  destruct HR as (Ht & Hsh & Hwf & Hc & Hp & Ho).
  unfold set_extent, spec_extent. rewrite <- Hsh.
  destruct (Nat.eqb (List.length sh) (List.length (a_shape a))); cbn [negb]; [|reflexivity].
  destruct (ro_mode h); [reflexivity|].
  destruct (existsb (fun s => u64max <=? s) sh); [reflexivity|].
  eexists. split; [reflexivity|]. split; [|reflexivity].
  unfold RA, push, s_shape, s_cell. cbn [s_ty s_hist s_poly s_origin shape_after cell_after with_data a_ty a_shape a_poly a_origin].
  repeat split; try assumption.
  - apply tab_length.
  - intros i Hi. rewrite (get_with_tab a sh _ i Hi).
    fold (s_shape h). rewrite <- Hsh.
    destruct (in_box (a_shape a) i) eqn:E.
    + apply Hc. assumption.
    + assumption.
Qed.

Lemma write_agree : forall a h off cnt vals, RA a h ->
  match write_slab (ro_mode h) a off cnt vals with
  | Ok a' => exists h', spec_write h off cnt vals = Some h' /\ RA a' h' /\ s_mode h' = s_mode h
  | _ => spec_write h off cnt vals = None
  end.
Proof.
  intros a h off cnt vals HR. pose proof (RA_zero _ _ HR) as Hz.
  destruct HR as (Ht & Hsh & Hwf & Hc & Hp & Ho).
  unfold write_slab, spec_write.
  destruct (zlen vals =? prod cnt); cbn [negb]; [|reflexivity].
  rewrite <- region_agree, <- Hsh.
  destruct (slab_sel (a_shape a) off cnt) as [[foff fcnt]|e|w]; cbn [bind fst snd];
    try (destruct (ro_mode h); reflexivity).
  destruct (ro_mode h); [reflexivity|].
  destruct (xfer_ok (a_shape a) foff fcnt cnt); cbn [negb]; [|reflexivity].
  eexists. split; [reflexivity|]. split; [|reflexivity].
  destruct Hwf as [Hok Hlen].
  unfold RA, push, s_shape, s_cell. cbn [s_ty s_hist s_poly s_origin shape_after cell_after with_data a_ty a_shape a_poly a_origin].
  repeat split; try assumption.
  - apply tab_length.
  - intros i Hi. rewrite (get_with_tab a (a_shape a) _ i Hi).
    destruct (in_slab foff fcnt i).
    + rewrite Hz. reflexivity.
    + apply Hc. assumption.
Qed.

(** ** Hydra's vector rule *)

Lemma lns_fst : forall dims i acc,
  fst (last_nonsingleton dims i acc) = (fst acc + List.length (filter (fun d => (1 <? d)%Z) dims))%nat.
Proof.
  induction dims as [|d r IH]; intros i acc; cbn [last_nonsingleton filter List.length].
  - lia.
  - rewrite IH. destruct (1 <? d); cbn [fst List.length]; lia.
Qed.

Lemma lns_snd_nil : forall dims i acc,
  filter (fun d => 1 <? d) dims = [] -> snd (last_nonsingleton dims i acc) = snd acc.
Proof.
  induction dims as [|d r IH]; intros i acc H; cbn [last_nonsingleton filter] in *.
  - reflexivity.
  - destruct (1 <? d); [discriminate|]. apply IH. assumption.
Qed.

Lemma lns_snd_one : forall dims i acc d,
  filter (fun d => 1 <? d) dims = [d] ->
  (i <= snd (last_nonsingleton dims i acc))%nat /\ nth (snd (last_nonsingleton dims i acc) - i) dims 0 = d.
Proof.
  induction dims as [|d0 r IH]; intros i acc d H; cbn [last_nonsingleton filter] in *.
  - discriminate.
  - destruct (1 <? d0) eqn:E.
    + inversion H; subst. rewrite lns_snd_nil by assumption. cbn [snd]. split. lia.
      rewrite Nat.sub_diag. reflexivity.
    + destruct (IH (S i) acc d H) as [Hle Hn]. split. lia.
      replace (snd (last_nonsingleton r (S i) acc) - i)%nat with (S (snd (last_nonsingleton r (S i) acc) - S i)) by lia.
      cbn [nth]. assumption.
Qed.

Lemma vector_agree : forall dims, to_opt (vector_size dims) = spec_vector_size dims.
Proof.
  intro dims. unfold vector_size, spec_vector_size.
  pose proof (lns_fst dims 0%nat (0%nat, 0%nat)) as Hf. cbn [fst] in Hf.
  destruct (filter (fun d => 1 <? d) dims) as [|d [|d2 r]] eqn:E; cbn [List.length] in Hf.
  - rewrite Hf. cbn. rewrite lns_snd_nil by assumption. reflexivity.
  - rewrite Hf. cbn.
    destruct (lns_snd_one dims 0%nat (0%nat, 0%nat) d E) as [_ Hn]. rewrite Nat.sub_0_r in Hn. rewrite Hn. reflexivity.
  - destruct (1 <? fst (last_nonsingleton dims 0 (0%nat, 0%nat)))%nat eqn:E2; [reflexivity|]. lia.
Qed.

(** ** One call *)

Definition R (s : st) (h : sst) : Prop :=
  RA (disk s) h /\ sess s = s_mode h.

(** the domain of the refinement: 64-bit unsigned extents and an append that does not overflow
    64 bits (the exclusion is exhibited by [append_wrap_shrinks]) *)
Definition op_dom (s : st) (o : op) : Prop :=
  match o with
  | OExtent sh => shape_ok sh
  | OWriteAll sh _ => shape_ok sh
  | OAppend axis cnt _ =>
      0 <= axis /\ 0 <= nth (Z.to_nat axis) cnt 0 /\
      nth (Z.to_nat axis) (a_shape (disk s)) 0 + nth (Z.to_nat axis) cnt 0 < two64
  | _ => True
  end.

Lemma RA_mode : forall a h m, RA a h -> RA a (mkSst (s_ty h) (s_hist h) (s_poly h) (s_origin h) m).
Proof. intros a h m H. exact H. Qed.

Lemma is_ro_mode : forall h m, s_mode h = Some m -> is_ro m = ro_mode h.
Proof. intros h m H. unfold ro_mode. rewrite H. destruct m; reflexivity. Qed.

Lemma ro_mode_push : forall h h', s_mode h' = s_mode h -> ro_mode h' = ro_mode h.
Proof. intros h h' H. unfold ro_mode. rewrite H. reflexivity. Qed.

Lemma write_all_agree : forall a h sh vals, RA a h -> shape_ok sh ->
  match write_all (ro_mode h) a sh vals with
  | Ok (a', r) =>
      exists h' q, (match spec_extent h sh with
                    | None => (h, None)
                    | Some s1 => match spec_write s1 [] sh vals with Some s2 => (s2, Some ObsUnit) | None => (s1, None) end
                    end) = (h', q) /\ to_opt (unit_res r) = q /\ RA a' h' /\ s_mode h' = s_mode h
  | _ => spec_extent h sh = None
  end.
Proof.
  intros a h sh vals HR Hok. unfold write_all.
  pose proof (extent_agree a h sh HR Hok) as He.
  destruct (set_extent (ro_mode h) a sh) as [a1|e|w]; cbn [bind]; try assumption.
  destruct He as (h1 & He & HR1 & Hm1). rewrite He.
  pose proof (write_agree a1 h1 [] sh vals HR1) as Hw. rewrite (ro_mode_push _ _ Hm1) in Hw.
  destruct (write_slab (ro_mode h) a1 [] sh vals) as [a2|e|w].
  - destruct Hw as (h2 & Hw & HR2 & Hm2). rewrite Hw. exists h2, (Some ObsUnit).
    split; [reflexivity|]. split; [reflexivity|]. split; [assumption | congruence].
  - rewrite Hw. exists h1, None. split; [reflexivity|]. split; [reflexivity|]. split; assumption.
  - rewrite Hw. exists h1, None. split; [reflexivity|]. split; [reflexivity|]. split; assumption.
Qed.

Lemma RA_with_poly : forall a h p m, RA a h -> RA (with_poly a p) (mkSst (s_ty h) (s_hist h) p (s_origin h) m).
Proof. intros a h p m (Ht & Hsh & Hwf & Hc & Hp & Ho). repeat split; try assumption; apply Hwf. Qed.

Lemma RA_with_origin : forall a h o m, RA a h -> RA (with_origin a o) (mkSst (s_ty h) (s_hist h) (s_poly h) o m).
Proof. intros a h o m (Ht & Hsh & Hwf & Hc & Hp & Ho). repeat split; try assumption; apply Hwf. Qed.

Theorem step_refines : forall s h o, R s h -> op_dom s o ->
  to_opt (snd (step s o)) = snd (spec_step h o) /\ R (fst (step s o)) (fst (spec_step h o)).
Proof.
  intros s h o (HRA & Hsess) Hdom.
  destruct o as [off cnt vals|sh vals|axis cnt vals|sh| |direct dst off cnt| |cs|x| | |m0].
  11:{ (* OClose *) unfold step, spec_step. cbn [fst snd to_opt]. split; [reflexivity|].
       split; [|reflexivity]. cbn [disk]. apply RA_mode. assumption. }
  11:{ (* OOpen *) unfold step, spec_step. cbn [fst snd to_opt]. split; [reflexivity|].
       split; [|reflexivity]. cbn [disk]. apply RA_mode. assumption. }
  all: unfold step, spec_step; rewrite Hsess; destruct (s_mode h) as [m|] eqn:Hm;
       [ | try (destruct cs); try (destruct x); cbn [fst snd to_opt];
           (split; [reflexivity | split; [assumption | congruence]]) ].
  all: pose proof (is_ro_mode _ _ Hm) as Hro; unfold view.
  - (* OWrite *)
    pose proof (write_agree (disk s) h off cnt vals HRA) as Hw. rewrite Hro.
    destruct (write_slab (ro_mode h) (disk s) off cnt vals) as [a'|e|w].
    + destruct Hw as (h' & Hw & HR' & Hm'). rewrite Hw. cbn [fst snd to_opt]. split; [reflexivity|].
      split; [assumption|]. cbn [on_disk sess]. congruence.
    + rewrite Hw. cbn [fst snd to_opt]. split; [reflexivity|]. split; [assumption|]. congruence.
    + rewrite Hw. cbn [fst snd to_opt]. split; [reflexivity|]. split; [assumption|]. congruence.
  - (* OWriteAll *)
    cbn [op_dom] in Hdom.
    pose proof (write_all_agree (disk s) h sh vals HRA Hdom) as Hw. rewrite Hro.
    destruct (write_all (ro_mode h) (disk s) sh vals) as [[a' r]|e|w].
    + destruct Hw as (h' & q & Hw & Hq & HR' & Hm'). rewrite Hw. cbn [fst snd]. split; [assumption|].
      split; [assumption|]. cbn [on_disk sess]. congruence.
    + rewrite Hw. cbn [fst snd to_opt]. split; [reflexivity|]. split; [assumption|]. congruence.
    + rewrite Hw. cbn [fst snd to_opt]. split; [reflexivity|]. split; [assumption|]. congruence.
  - (* OAppend *)
    cbn [op_dom] in Hdom. destruct Hdom as (Hax & Hc0 & Hnw).
    pose proof HRA as (Ht & Hsh & Hwf & _).
    unfold append. fold (s_shape h). rewrite <- Hsh.
    set (ext := a_shape (disk s)) in *. set (ax := Z.to_nat axis) in *.
    replace (axis <? 0) with false by lia. cbn [orb].
    destruct (zlen ext <=? axis) eqn:E1; [cbn [fst snd to_opt]; split; [reflexivity | split; [assumption | congruence]]|].
    destruct (Nat.eqb (List.length ext) (List.length cnt)) eqn:E2; cbn [negb];
      [|cbn [fst snd to_opt]; split; [reflexivity | split; [assumption | congruence]]].
    unfold eq_except.
    destruct (forallb (fun j => Nat.eqb j ax || (nth j ext 0 =? nth j cnt 0)) (seq 0 (List.length cnt))) eqn:E3; cbn [negb];
      [|cbn [fst snd to_opt]; split; [reflexivity | split; [assumption | congruence]]].
    destruct Hwf as [Hok Hlen].
    pose proof (shape_ok_nth ext ax Hok) as He0.
    rewrite u64_add_small by lia.
    replace (two64 <=? nth ax ext 0 + nth ax cnt 0) with false by lia.
    assert (Hok' : shape_ok (set_nth ext ax (nth ax ext 0 + nth ax cnt 0))) by (apply set_nth_shape_ok; [assumption | lia]).
    pose proof (extent_agree (disk s) h _ HRA Hok') as He. rewrite Hro.
    destruct (set_extent (ro_mode h) (disk s) (set_nth ext ax (nth ax ext 0 + nth ax cnt 0))) as [a1|e|w]; cbn [bind].
    + destruct He as (h1 & He & HR1 & Hm1). rewrite He.
      pose proof (write_agree a1 h1 (set_nth (repeat 0 (List.length ext)) ax (nth ax ext 0)) cnt vals HR1) as Hw.
      rewrite (ro_mode_push _ _ Hm1) in Hw.
      destruct (write_slab (ro_mode h) a1 (set_nth (repeat 0 (List.length ext)) ax (nth ax ext 0)) cnt vals) as [a2|e|w].
      * destruct Hw as (h2 & Hw & HR2 & Hm2). rewrite Hw. cbn [fst snd unit_res bind to_opt]. split; [reflexivity|].
        split; [assumption|]. cbn [on_disk sess]. congruence.
      * rewrite Hw. cbn [fst snd unit_res bind to_opt]. split; [reflexivity|].
        split; [assumption|]. cbn [on_disk sess]. congruence.
      * rewrite Hw. cbn [fst snd unit_res bind to_opt]. split; [reflexivity|].
        split; [assumption|]. cbn [on_disk sess]. congruence.
    + rewrite He. cbn [fst snd to_opt]. split; [reflexivity|]. split; [assumption|]. congruence.
    + rewrite He. cbn [fst snd to_opt]. split; [reflexivity|]. split; [assumption|]. congruence.
  - (* OExtent *)
    cbn [op_dom] in Hdom.
    pose proof (extent_agree (disk s) h sh HRA Hdom) as He. rewrite Hro.
    destruct (set_extent (ro_mode h) (disk s) sh) as [a'|e|w].
    + destruct He as (h' & He & HR' & Hm'). rewrite He. cbn [fst snd to_opt]. split; [reflexivity|].
      split; [assumption|]. cbn [on_disk sess]. congruence.
    + rewrite He. cbn [fst snd to_opt]. split; [reflexivity|]. split; [assumption|]. congruence.
    + rewrite He. cbn [fst snd to_opt]. split; [reflexivity|]. split; [assumption|]. congruence.
  - (* OShape *)
    cbn [fst snd to_opt]. assert (Hsh : a_shape (disk s) = s_shape h) by apply HRA. rewrite Hsh.
    split; [reflexivity|]. split; [assumption | congruence].
  - (* ORead *)
    cbn [fst snd]. split; [|split; [assumption | congruence]].
    rewrite to_opt_bind. unfold spec_read.
    assert (Ht : a_ty (disk s) = s_ty h) by apply HRA. rewrite Ht.
    destruct direct.
    + rewrite (read_direct_agree _ _ _ _ _ HRA). destruct (spec_read_list h true _ off cnt); reflexivity.
    + rewrite (io_read_agree _ _ _ _ _ HRA). destruct (spec_read_list h false _ off cnt); reflexivity.
  - (* OReadVec *)
    cbn [fst snd]. split; [|split; [assumption | congruence]].
    rewrite to_opt_bind. unfold read_vector. rewrite to_opt_bind, vector_agree.
    assert (Ht : a_ty (disk s) = s_ty h) by apply HRA.
    assert (Hsh : a_shape (disk s) = s_shape h) by apply HRA. rewrite Hsh.
    destruct (spec_vector_size (s_shape h)) as [n|]; [|reflexivity].
    rewrite (io_read_agree _ _ _ _ _ HRA), Ht. unfold spec_read.
    destruct (spec_read_list h false (s_ty h) [] [n]); reflexivity.
  - (* OPoly *)
    rewrite <- Hro.
    destruct cs as [cs|]; destruct (is_ro m); cbn [fst snd to_opt]; (split; [reflexivity|]).
    all: split; [ | cbn [on_disk sess s_mode]; congruence ].
    all: try assumption.
    all: cbn [on_disk disk]; apply RA_with_poly; assumption.
  - (* OOrigin *)
    rewrite <- Hro.
    destruct x as [x|]; destruct (is_ro m); cbn [fst snd to_opt]; (split; [reflexivity|]).
    all: split; [ | cbn [on_disk sess s_mode]; congruence ].
    all: try assumption.
    all: cbn [on_disk disk]; apply RA_with_origin; assumption.
  - (* OCal *)
    cbn [fst snd to_opt]. pose proof HRA as (Ht & Hsh & Hwf & Hc & Hp & Ho).
    unfold poly_coeffs, s_coeffs. rewrite Hp, Ho. split; [reflexivity|].
    split; [assumption | congruence].
Qed.

(** ** Every history *)

Fixpoint run_dom (s : st) (ops : list op) : Prop :=
  match ops with
  | [] => True
  | o :: r => op_dom s o /\ run_dom (fst (step s o)) r
  end.

(** For EVERY operation list: each call's outcome equals the outcome the pointwise specification
    prescribes (in particular every read returns the specification's values), and the final
    model state abstracts to the specification's final state. *)
Theorem history_refines : forall ops s h, R s h -> run_dom s ops ->
  map to_opt (snd (run s ops)) = snd (spec_run h ops) /\ R (fst (run s ops)) (fst (spec_run h ops)).
Proof.
  induction ops as [|o r IH]; intros s h HR Hd.
  - cbn. split; [reflexivity | assumption].
  - cbn [run_dom] in Hd. destruct Hd as [Hd1 Hd2].
    destruct (step_refines s h o HR Hd1) as [Ho HR1].
    cbn [run spec_run].
    destruct (step s o) as [s1 x] eqn:Es. destruct (spec_step h o) as [h1 q] eqn:Eh.
    cbn [fst snd] in *.
    specialize (IH s1 h1 HR1 Hd2).
    destruct (run s1 r) as [s2 xs]. destruct (spec_run h1 r) as [h2 qs]. cbn [fst snd map] in *.
    destruct IH as [IH1 IH2]. split; [f_equal; assumption | assumption].
Qed.

Lemma start_R : forall t c sh, shape_ok sh -> R (start t c sh) (spec_start t sh).
Proof.
  intros t c sh Hok. unfold R, start, spec_start. cbn [disk sess s_mode]. split; [|reflexivity].
  unfold RA, s_shape, s_cell. cbn [s_ty s_hist s_poly s_origin shape_after cell_after].
  split; [reflexivity|]. split; [reflexivity|]. split; [apply create_wf; assumption|].
  split; [|split; reflexivity].
  intros i Hi. apply create_get. assumption.
Qed.

Corollary history_refines_from_create : forall t c sh ops,
  shape_ok sh -> run_dom (start t c sh) ops ->
  map to_opt (snd (run (start t c sh) ops)) = snd (spec_run (spec_start t sh) ops).
Proof. intros t c sh ops Hok Hd. apply history_refines; [apply start_R; assumption | assumption]. Qed.

(** * Calibrated reads *)

Lemma mapM_ext : forall {A B} (f g : A -> res B) l, (forall x, f x = g x) -> mapM f l = mapM g l.
Proof. induction l as [|x l IH]; cbn [mapM]; intro H; [reflexivity|]. rewrite H, IH by assumption. reflexivity. Qed.

(** calibrated read = convert (poly (x - origin)) elementwise, in binary64, in the stated order *)
Theorem calibrated_read_spec : forall a dst off cnt stored,
  calibrated a = true -> conv_ok TDouble dst = true ->
  read_direct a TDouble off cnt = Ok stored ->
  io_read a dst off cnt =
  mapM (fun v => conv_val TDouble dst (VD (spec_poly (poly_coeffs a) (origin_or_zero a) (as_f64 v)))) stored.
Proof.
  intros a dst off cnt stored Hcal Hok Hrd. unfold io_read. rewrite Hcal, Hrd. cbn [bind].
  rewrite (conv_ok_not_string _ Hok), Hok. cbn [andb negb].
  apply mapM_ext. intro v. rewrite apply_poly_spec. reflexivity.
Qed.

(** without polynomial and origin a read is the plain converting read *)
Theorem uncalibrated_read : forall a dst off cnt,
  calibrated a = false -> io_read a dst off cnt = read_direct a dst off cnt.
Proof. intros a dst off cnt H. unfold io_read. rewrite H. reflexivity. Qed.

Definition is_cal_op (o : op) : bool := match o with OPoly _ | OOrigin _ => true | _ => false end.

(** setting / unsetting polynomial or origin changes no cell, no extent, and no raw read *)
Theorem raw_unaffected : forall s o, is_cal_op o = true ->
  a_ty (disk (fst (step s o))) = a_ty (disk s) /\
  a_shape (disk (fst (step s o))) = a_shape (disk s) /\
  a_cells (disk (fst (step s o))) = a_cells (disk s) /\
  forall dst off cnt, read_direct (view (fst (step s o))) dst off cnt = read_direct (view s) dst off cnt.
Proof.
  intros s o Ho. destruct o; try discriminate.
  - unfold step. destruct (sess s) as [m|]; destruct cs as [cs|]; try destruct (is_ro m); cbn [fst];
      repeat split; reflexivity.
  - unfold step. destruct (sess s) as [m|]; destruct o as [x|]; try destruct (is_ro m); cbn [fst];
      repeat split; reflexivity.
Qed.

(** * Close + reopen *)

Definition is_read_op (o : op) : bool :=
  match o with ORead _ _ _ _ | OReadVec | OShape | OCal => true | _ => false end.

(** close + reopen (in any mode) is the identity on the stored array - type, extent, cells,
    polynomial, origin - and every reading call answers as before *)
Theorem reopen_identity : forall s m,
  disk (fst (step (fst (step s OClose)) (OOpen m))) = disk s /\
  sess (fst (step (fst (step s OClose)) (OOpen m))) = Some m /\
  (sess s <> None ->
   forall o, is_read_op o = true ->
     snd (step (fst (step (fst (step s OClose)) (OOpen m))) o) = snd (step s o)).
Proof.
  intros s m. cbn [step fst disk sess]. split; [reflexivity|]. split; [reflexivity|].
  intros Hs o Ho. destruct (sess s) as [m0|] eqn:E; [|contradiction].
  destruct o; try discriminate; unfold step; rewrite E; cbn [sess snd]; unfold view; cbn [disk]; reflexivity.
Qed.

(** * No undefined behaviour in the slab selection *)

(** whatever the count / offset vectors are - shorter than the rank, longer, empty - the slab
    selection either yields a region or throws; it never reaches HDF5 with too few entries *)
Theorem slab_never_ub : forall sh off cnt, is_ub (slab_sel sh off cnt) = false.
Proof.
  intros sh off cnt. unfold slab_sel.
  destruct (negb (Nat.eqb (List.length off) 0) &&
            ((List.length off <? List.length sh)%nat ||
             (negb (Nat.eqb (List.length cnt) 0) && (List.length cnt <? List.length sh)%nat))); [reflexivity|].
  destruct ((32 <? List.length cnt)%nat || existsb (fun c => u64max <=? c) cnt); [reflexivity|].
  destruct off as [|o off]; [reflexivity|]. destruct cnt; reflexivity.
Qed.

(** a vector shorter than the rank is refused with InvalidRank *)
Theorem slab_short_is_invalid_rank : forall sh off cnt,
  off <> [] ->
  ((List.length off < List.length sh)%nat \/ (cnt <> [] /\ (List.length cnt < List.length sh)%nat)) ->
  slab_sel sh off cnt = Err "nix::InvalidRank"%string.
Proof.
  intros sh off cnt Ho H. unfold slab_sel.
  destruct off as [|o off]; [contradiction|]. cbn [List.length Nat.eqb negb andb].
  destruct H as [H | [Hc H]].
  - apply Nat.ltb_lt in H. cbn [List.length] in H. rewrite H. reflexivity.
  - destruct cnt as [|c cnt]; [contradiction|]. apply Nat.ltb_lt in H. cbn [List.length Nat.eqb negb andb] in *.
    rewrite H. rewrite orb_true_r. reflexivity.
Qed.

(** reads: the only UB outcome left is the C cast of NaN inside H5Tconvert; a read-only session and
    a calibrated read requested as String are plain refusals *)
Theorem calibrated_string_refused : forall a off cnt,
  calibrated a = true -> io_read a TString off cnt = Err h5error.
Proof. intros a off cnt H. unfold io_read. rewrite H. reflexivity. Qed.

(** * The pointwise specification, read as laws *)

(** the five equations that define the content of a cell from the history *)
Theorem spec_pointwise_laws : forall z h i,
  (forall sh, cell_after z (ECreate sh :: h) i = z) /\
  (forall off cnt vals, in_slab off cnt i = true ->
     cell_after z (EWrite off cnt vals :: h) i = nth (Z.to_nat (ravel cnt (vsub i off))) vals z) /\
  (forall off cnt vals, in_slab off cnt i = false -> cell_after z (EWrite off cnt vals :: h) i = cell_after z h i) /\
  (forall sh, in_box (shape_after h) i = true -> cell_after z (EExtent sh :: h) i = cell_after z h i) /\
  (forall sh, in_box (shape_after h) i = false -> cell_after z (EExtent sh :: h) i = z).
Proof.
  intros z h i. repeat split; intros; cbn [cell_after]; try reflexivity.
  - rewrite H. reflexivity.
  - rewrite H. reflexivity.
  - rewrite H. reflexivity.
  - rewrite H. reflexivity.
Qed.

(** a cell no write ever covered holds the type's zero / the empty string, whatever the extent did *)
Theorem spec_unwritten_is_zero : forall z h i,
  (forall off cnt vals, In (EWrite off cnt vals) h -> in_slab off cnt i = false) -> cell_after z h i = z.
Proof.
  induction h as [|e h IH]; intros i H; cbn [cell_after]; [reflexivity|].
  destruct e as [sh|off cnt vals|sh].
  - reflexivity.
  - rewrite (H off cnt vals) by (left; reflexivity). apply IH. intros off' cnt' vals' Hin. apply (H off' cnt' vals'). right. assumption.
  - destruct (in_box (shape_after h) i); [|reflexivity]. apply IH. intros off' cnt' vals' Hin. apply (H off' cnt' vals'). right. assumption.
Qed.

(** the model inherits it: in any state reached from [create], a cell never covered by a write reads
    zero - this is the statement the pinned implementation violates for String arrays *)
Corollary model_unwritten_is_zero : forall s h i,
  R s h -> in_box (a_shape (disk s)) i = true ->
  (forall off cnt vals, In (EWrite off cnt vals) (s_hist h) -> in_slab off cnt i = false) ->
  get (disk s) i = zero_of (a_ty (disk s)).
Proof.
  intros s h i ((Ht & Hsh & Hwf & Hc & _) & _) Hi Hn.
  rewrite Hc by assumption. unfold s_cell. rewrite Ht. apply spec_unwritten_is_zero. assumption.
Qed.

(** * Typed container routes *)

(** the shape a non-scalar container hands to the library is its extents, for every element type
    (the pinned multi_array traits cast each extent to the ELEMENT type instead) *)
Theorem route_shape_exact : forall r ext, r <> RScalar -> route_shape r ext = ext.
Proof. intros r ext H. destruct r; try reflexivity. contradiction. Qed.

(** whole-array set through any route, then a whole read: the values come back and the extent is
    the container's *)
Theorem write_all_read_back : forall a sh vals a',
  wf a -> shape_ok sh -> write_all false a sh vals = Ok (a', Ok tt) ->
  a_shape a' = sh /\ read_slab a' [] sh = Ok vals.
Proof.
  intros a sh vals a' Hwf Hok H. unfold write_all in H.
  destruct (set_extent false a sh) as [a1|e|w] eqn:He; cbn [bind] in H; try discriminate.
  destruct (write_slab false a1 [] sh vals) as [a2|e|w] eqn:Hw; try discriminate.
  inversion H; subst a2.
  destruct (set_extent_get _ _ _ Hok He) as (Hsh1 & _ & Hwf1 & _).
  destruct (write_slab_get _ _ _ _ _ Hwf1 Hw) as (Hsh2 & _).
  split; [congruence|]. apply (read_write_same a1); assumption.
Qed.

Corollary typed_whole_round_trip : forall r ext vals a a' o,
  r <> RScalar -> wf a -> shape_ok ext ->
  route_op r (a_shape a) (TSetAll ext vals) = Ok o ->
  o = OWriteAll ext vals /\
  (write_all false a ext vals = Ok (a', Ok tt) -> a_shape a' = ext /\ read_slab a' [] ext = Ok vals).
Proof.
  intros r ext vals a a' o Hr Hwf Hok H. cbn [route_op] in H. rewrite (route_shape_exact _ _ Hr) in H.
  inversion H. split; [reflexivity|]. intro Hw. eapply write_all_read_back; eassumption.
Qed.

(** * Create-and-fill, NDArray indices, type names *)

Lemma mapM_mapO : forall {A B} (f : A -> res B) l,
  match mapM f l with Ok ys => mapO (fun x => to_opt (f x)) l = Some ys | _ => mapO (fun x => to_opt (f x)) l = None end.
Proof.
  intros A B f l. rewrite <- to_opt_mapM. destruct (mapM f l); reflexivity.
Qed.

(** the template Block::createDataArray(name, type, data, data_type, compression): when it succeeds
    the new array abstracts to the specification's (container's extents, converted values); when it
    fails the specification has no array - and so has the model once the write failure rolls the
    creation back ([rollback = true]; today [create_fill_rolls_back = false]: the array stays behind) *)
Theorem create_fill_refines : forall b elem stored c r ext vals,
  shape_ok (route_shape r ext) ->
  match create_fill b elem stored c r ext vals with
  | (Some a, Ok _) => exists h, spec_create_fill elem stored r ext vals = Some h /\ R (mkSt a (Some RW)) h
  | (oa, _) => spec_create_fill elem stored r ext vals = None /\ (b = true -> oa = None)
  end.
Proof.
  intros b elem stored c r ext vals Hok. unfold create_fill, spec_create_fill.
  set (sh := route_shape r ext) in *.
  destruct (Nat.eqb (List.length sh) 0 || (32 <? List.length sh)%nat); [cbv beta iota; split; reflexivity|].
  unfold write_slab_as. cbn [create a_ty].
  destruct (conv_ok elem stored); cbn [negb].
  - pose proof (mapM_mapO (conv_val elem stored) vals) as Hm.
    destruct (mapM (conv_val elem stored) vals) as [vs|e|w]; cbn [bind]; rewrite Hm.
    + pose proof (start_R stored c sh Hok) as [HRA _]. cbn [start disk] in HRA.
      pose proof (write_agree _ _ (repeat 0 (List.length sh)) sh vs HRA) as Hw.
      replace (ro_mode (spec_start stored sh)) with false in Hw by reflexivity.
      destruct (write_slab false (create stored c sh) (repeat 0 (List.length sh)) sh vs) as [a1|e|w]; cbv beta iota.
      * destruct Hw as (h' & Hw & HR' & Hm'). exists h'. split; [assumption|]. split; [assumption|]. cbn [sess]. rewrite Hm'. reflexivity.
      * destruct b; cbv beta iota; (split; [assumption|]); intro Hb; (reflexivity || discriminate).
      * destruct b; cbv beta iota; (split; [assumption|]); intro Hb; (reflexivity || discriminate).
    + destruct b; cbv beta iota; (split; [reflexivity|]); intro Hb; (reflexivity || discriminate).
    + destruct b; cbv beta iota; (split; [reflexivity|]); intro Hb; (reflexivity || discriminate).
  - destruct (slab_sel (a_shape (create stored c sh)) (repeat 0 (List.length sh)) sh) as [p|e|w]; cbn [bind];
      destruct b; cbv beta iota; (split; [reflexivity|]); intro Hb; (reflexivity || discriminate).
Qed.

(** create-and-fill without a type override round-trips: the values read back are the container's *)
Theorem create_fill_round_trip : forall b t c r ext vals a,
  shape_ok (route_shape r ext) ->
  create_fill b t t c r ext vals = (Some a, Ok tt) ->
  a_shape a = route_shape r ext /\ (Forall (fun v => conv_val t t v = Ok v) vals) /\
  read_slab a (repeat 0 (List.length (route_shape r ext))) (route_shape r ext) = Ok vals.
Proof.
  intros b t c r ext vals a Hok H. unfold create_fill in H.
  set (sh := route_shape r ext) in *.
  destruct (Nat.eqb (List.length sh) 0 || (32 <? List.length sh)%nat); [discriminate|].
  unfold write_slab_as in H. cbn [create a_ty] in H.
  assert (Hc : conv_ok t t = true) by (unfold conv_ok; destruct t; reflexivity). rewrite Hc in H. cbn [negb] in H.
  assert (Hid : forall l, mapM (conv_val t t) l = Ok l).
  { induction l as [|x l IH]; cbn [mapM]; [reflexivity|].
    unfold conv_val at 1. replace (dtype_eqb t t) with true by (destruct t; reflexivity). cbn [bind]. rewrite IH. reflexivity. }
  rewrite Hid in H. cbn [bind] in H.
  destruct (write_slab false (create t c sh) (repeat 0 (List.length sh)) sh vals) as [a1|e|w] eqn:Hw;
    [|destruct b; discriminate|destruct b; discriminate].
  inversion H; subst a1.
  pose proof (create_wf t c sh Hok) as Hwf.
  destruct (write_slab_get _ _ _ _ _ Hwf Hw) as (Hsh & _).
  split; [exact Hsh|]. split.
  - apply Forall_forall. intros v _. unfold conv_val. replace (dtype_eqb t t) with true by (destruct t; reflexivity). reflexivity.
  - apply (read_write_same (create t c sh)); assumption.
Qed.

(** NDArray::get / set by NDSize: inside the box the position is the row-major one *)
Theorem nd_index_in_box : forall sh i, in_box sh i = true -> nd_index sh i = Ok (ravel sh i).
Proof.
  intros sh i H. unfold nd_index. rewrite (in_box_length _ _ H), Nat.eqb_refl. cbn [negb].
  pose proof (ravel_bounds _ _ H) as Hb.
  replace (0 <=? ravel sh i) with true by lia. replace (ravel sh i <? prod sh) with true by lia. reflexivity.
Qed.

(** string_to_data_type is a left inverse of data_type_to_string on every name the library prints *)
Theorem dtype_names_round_trip :
  forallb (fun n => match string_to_dtype_name n with Ok m => String.eqb m n | _ => false end) dtype_names = true.
Proof. vm_compute. reflexivity. Qed.
