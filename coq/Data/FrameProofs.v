(** C15 — proofs about the DataFrame model and its pointwise specification (Data/Frame.v). *)
From Coq Require Import ZArith Bool String Ascii List Lia PeanoNat.
From Flocq Require Import BinarySingleNaN.
Require Import NixV.Base.Prelude NixV.Base.F64 NixV.Data.Prop NixV.Data.PropProofs NixV.Data.Frame.
Import ListNotations.
Local Open Scope string_scope.

(** * Lists *)

Lemma upd_nth_length : forall A n (x : A) l, List.length (upd_nth n x l) = List.length l.
Proof. induction n; intros x [|a l]; cbn; auto. Qed.

Lemma nth_upd_nth_same : forall A n (x d : A) l, n < List.length l -> nth n (upd_nth n x l) d = x.
Proof. induction n; intros x d [|a l] H; cbn in *; try lia; auto. apply IHn. lia. Qed.

Lemma nth_upd_nth_other : forall A n m (x d : A) l, n <> m -> nth m (upd_nth n x l) d = nth m l d.
Proof.
  induction n; intros m x d [|a l] H; cbn; auto.
  - destruct m; [contradiction|reflexivity].
  - destruct m; [reflexivity|]. apply IHn. lia.
Qed.

Lemma nth_repeat_in : forall A (x d : A) n k, k < n -> nth k (repeat x n) d = x.
Proof. induction n; intros k H; [lia|]. destruct k; cbn; auto. apply IHn. lia. Qed.

Lemma firstn_incl : forall A n (l : list A) x, In x (firstn n l) -> In x l.
Proof.
  induction n; intros [|a l] x H; cbn in *; try contradiction. destruct H as [H|H]; [now left|right; now apply IHn].
Qed.

Lemma nth_resize_old : forall A n (d0 d : A) l r, r < n -> r < List.length l -> nth r (resize n d0 l) d = nth r l d.
Proof.
  intros A n d0 d l r Hn Hl. unfold resize. rewrite app_nth1 by (rewrite firstn_length; lia).
  revert l r Hn Hl. induction n; intros l r Hn Hl; [lia|]. destruct l; cbn in *; [lia|].
  destruct r; auto. apply IHn; lia.
Qed.

Lemma nth_resize_new : forall A n (d0 d : A) l r, r < n -> List.length l <= r -> nth r (resize n d0 l) d = d0.
Proof.
  intros A n d0 d l r Hn Hl. unfold resize.
  rewrite app_nth2 by (rewrite firstn_length; lia). rewrite firstn_length.
  apply nth_repeat_in. lia.
Qed.

Lemma list_is_map_nth : forall A (d : A) l, l = map (fun c => nth c l d) (seq 0 (List.length l)).
Proof.
  intros A d l. induction l as [|a l IH]; cbn; auto. f_equal.
  rewrite <- seq_shift, map_map. exact IH.
Qed.

(** * Rows *)

Definition shaped (n : nat) (rows : rowsT) : Prop := Forall (fun row => List.length row = n) rows.

Lemma shaped_nth : forall n rows r, shaped n rows -> r < List.length rows -> List.length (nth r rows []) = n.
Proof.
  intros n rows r Hs Hr. unfold shaped in Hs. rewrite Forall_forall in Hs. apply Hs. now apply nth_In.
Qed.

Lemma upd_nth_Forall : forall A (P : A -> Prop) n x l, Forall P l -> P x -> Forall P (upd_nth n x l).
Proof.
  induction n; intros x [|a l] Hl Hx; cbn; auto; inversion Hl; subst; constructor; auto.
Qed.

Lemma upd_nth_id : forall A n (d : A) l, upd_nth n (nth n l d) l = l.
Proof. induction n; intros d [|a l]; cbn; auto. f_equal. apply IHn. Qed.

Lemma upd_cell_length : forall rows r c v, List.length (upd_cell rows r c v) = List.length rows.
Proof. intros. unfold upd_cell. apply upd_nth_length. Qed.

Lemma upd_cell_shaped : forall n rows r c v, shaped n rows -> shaped n (upd_cell rows r c v).
Proof.
  intros n rows r c v Hs. unfold upd_cell.
  destruct (Nat.lt_ge_cases r (List.length rows)) as [Hr|Hr].
  - apply upd_nth_Forall; auto. rewrite upd_nth_length. now apply shaped_nth.
  - rewrite (nth_overflow rows [] Hr). cbn. destruct c; cbn.
    + replace (@nil value) with (nth r rows []) at 1 by (now apply nth_overflow). now rewrite upd_nth_id.
    + replace (@nil value) with (nth r rows []) at 1 by (now apply nth_overflow). now rewrite upd_nth_id.
Qed.

Lemma cell_upd_cell : forall rows r' c' v r c,
  r < List.length rows -> c < List.length (nth r rows []) ->
  cell (upd_cell rows r' c' v) r c = if Nat.eqb r' r && Nat.eqb c' c then v else cell rows r c.
Proof.
  intros rows r' c' v r c Hr Hc. unfold cell, upd_cell.
  destruct (Nat.eqb_spec r' r) as [->|Hne]; cbn [andb].
  - rewrite nth_upd_nth_same by assumption.
    destruct (Nat.eqb_spec c' c) as [->|Hnc].
    + now apply nth_upd_nth_same.
    + now apply nth_upd_nth_other.
  - now rewrite nth_upd_nth_other.
Qed.

Lemma apply_puts_cons : forall p puts rows,
  apply_puts (p :: puts) rows = apply_puts puts (let '(r, c, v) := p in upd_cell rows r c v).
Proof. reflexivity. Qed.

Lemma apply_puts_length : forall puts rows, List.length (apply_puts puts rows) = List.length rows.
Proof.
  induction puts as [|[[r c] v] puts IH]; intros rows; [reflexivity|].
  rewrite apply_puts_cons, IH. apply upd_cell_length.
Qed.

Lemma apply_puts_shaped : forall n puts rows, shaped n rows -> shaped n (apply_puts puts rows).
Proof.
  induction puts as [|[[r c] v] puts IH]; intros rows Hs; [exact Hs|].
  rewrite apply_puts_cons. apply IH. now apply upd_cell_shaped.
Qed.

(** the data path of every write, pointwise: the last assignment of the batch wins, other cells keep their value *)
Lemma cell_apply_puts : forall n puts rows r c,
  shaped n rows -> r < List.length rows -> c < n ->
  cell (apply_puts puts rows) r c = match find_put puts r c with Some v => v | None => cell rows r c end.
Proof.
  induction puts as [|[[r' c'] v] puts IH]; intros rows r c Hs Hr Hc; [reflexivity|].
  rewrite apply_puts_cons. rewrite (IH (upd_cell rows r' c' v) r c).
  - cbn [find_put]. destruct (find_put puts r c); [reflexivity|].
    rewrite cell_upd_cell; auto.
    + destruct (Nat.eqb r' r && Nat.eqb c' c); reflexivity.
    + now rewrite (shaped_nth n).
  - now apply upd_cell_shaped.
  - now rewrite upd_cell_length.
  - assumption.
Qed.

Lemma slice_column_zero : forall ci k rows, k <= List.length rows ->
  map (fun row => nth ci row VNone) (firstn k rows) = map (fun i => nth ci (nth i rows []) VNone) (seq 0 k).
Proof.
  induction k; intros rows H; [reflexivity|].
  destruct rows as [|row rows]; cbn in H; [lia|].
  cbn [firstn map seq]. f_equal. rewrite <- seq_shift, map_map. cbn [nth]. apply IHk. lia.
Qed.

Lemma slice_column_pointwise : forall rows ci off k, off + k <= List.length rows ->
  slice_column rows ci off k = map (fun i => cell rows (off + i) ci) (seq 0 k).
Proof.
  intros rows ci off k. unfold slice_column, cell. revert rows.
  induction off; intros rows H.
  - cbn [skipn]. now apply slice_column_zero.
  - destruct rows as [|row rows]; cbn in H; [lia|]. cbn [skipn]. rewrite IHoff by lia.
    apply map_ext. intros i. reflexivity.
Qed.

(** * Columns *)

Lemma find_col_lt : forall n cols c, find_col n cols = Some c -> c < List.length cols.
Proof.
  induction cols as [|x cols IH]; intros c H; cbn in *; [discriminate|].
  destruct (String.eqb n (c_name x)); [inversion H; lia|].
  destruct (find_col n cols) as [c0|]; cbn in H; [|discriminate]. inversion H. specialize (IH c0 eq_refl). lia.
Qed.

Lemma default_row_length : forall cols, List.length (default_row cols) = List.length cols.
Proof. intros. unfold default_row. apply map_length. Qed.

Lemma default_row_nth : forall cols c, c < List.length cols ->
  nth c (default_row cols) VNone = default_of (col_type cols c).
Proof.
  intros cols c H. unfold default_row, col_type.
  destruct (nth_error cols c) as [x|] eqn:E.
  - rewrite (nth_indep _ VNone (default_of (c_type x))) by (now rewrite map_length).
    rewrite (map_nth (fun c0 => default_of (c_type c0)) cols x c).
    now rewrite (nth_error_nth _ _ _ E).
  - apply nth_error_None in E. lia.
Qed.

(** * The log *)

Fixpoint log_wf (l : log) : Prop :=
  match l with
  | [] => True
  | ERows _ :: r => log_wf r
  | EPut puts :: r => (forall p, In p puts -> fst (fst p) < log_rows r) /\ log_wf r
  end.

Lemma find_put_none : forall puts r c, (forall p, In p puts -> fst (fst p) <> r) -> find_put puts r c = None.
Proof.
  induction puts as [|[[r' c'] v] puts IH]; intros r c H; [reflexivity|].
  cbn. rewrite IH by (intros p Hp; apply H; now right).
  destruct (Nat.eqb_spec r' r) as [->|]; auto. exfalso. apply (H (r, c', v)); [now left|reflexivity].
Qed.

(** a row that does not exist has no assignment: what was written to it before it disappeared is gone *)
Lemma lookup_beyond : forall l r c d, log_wf l -> log_rows l <= r -> lookup l r c d = d.
Proof.
  induction l as [|[n|puts] l IH]; intros r c d Hw Hr; cbn [lookup log_rows log_wf] in *; auto.
  - destruct (Nat.ltb_spec r n); [lia|reflexivity].
  - destruct Hw as [Hp Hw]. rewrite find_put_none; [now apply IH|].
    intros p Hin. specialize (Hp p Hin). lia.
Qed.

(** * What the planned assignments touch *)

Lemma cells_to_puts_rows : forall cols row named puts, cells_to_puts cols row named = Ok puts ->
  forall p, In p puts -> fst (fst p) = row.
Proof.
  induction named as [|[n v] named IH]; intros puts H p Hp; cbn in H.
  - inversion H; subst. contradiction.
  - destruct (find_col n cols) as [c|]; [|eauto].
    destruct (conv (col_type cols c) v) as [v'| |]; cbn in H; try discriminate.
    destruct (cells_to_puts cols row named) as [r'| |]; cbn in H; try discriminate.
    inversion H; subst. destruct Hp as [<-|Hp]; [reflexivity|]. eapply IH; eauto.
Qed.

Lemma plan_cells_rows : forall cols nr ro row cells puts, plan_cells cols nr ro row cells = Ok puts ->
  forall p, In p puts -> fst (fst p) < nr.
Proof.
  intros cols nr ro row cells puts H p Hp. unfold plan_cells in H.
  destruct (existsb _ cells); [discriminate|]. destruct (is_nil cells); [discriminate|].
  destruct (resolve_cells cols cells []) as [named| |]; cbn in H; try discriminate.
  destruct ro; [discriminate|]. destruct (in_range row nr) eqn:E; cbn in H; [|discriminate].
  rewrite (cells_to_puts_rows _ _ _ _ H p Hp).
  unfold in_range in E. apply andb_true_iff in E. destruct E as [E1 E2].
  apply Z.leb_le in E1. apply Z.ltb_lt in E2. lia.
Qed.

Lemma plan_row_rows : forall cols nr ro row vs puts, plan_row cols nr ro row vs = Ok puts ->
  forall p, In p puts -> fst (fst p) < nr.
Proof.
  intros cols nr ro row vs puts H. unfold plan_row in H.
  destruct (Nat.ltb _ _); [discriminate|]. eapply plan_cells_rows; eauto.
Qed.

Lemma col_puts_rows : forall c vs off p, In p (col_puts c off vs) -> off <= fst (fst p) < off + List.length vs.
Proof.
  induction vs as [|v vs IH]; intros off p H; cbn in *; [contradiction|].
  destruct H as [<-|H]; cbn; [lia|]. specialize (IH _ _ H). lia.
Qed.

Lemma conv_all_length : forall fl d vs vs', conv_all_gen fl d vs = Ok vs' -> List.length vs' = List.length vs.
Proof.
  induction vs as [|v vs IH]; intros vs' H; cbn [conv_all_gen] in H.
  - inversion H. reflexivity.
  - destruct (conv_gen fl d v); cbn in H; try discriminate. destruct (conv_all_gen fl d vs); cbn in H; try discriminate.
    inversion H. cbn. f_equal. now apply IH.
Qed.

Lemma plan_column_rows : forall cols nr ro c t off cnt vs puts, plan_column cols nr ro c t off cnt vs = Ok puts ->
  forall p, In p puts -> fst (fst p) < nr.
Proof.
  intros cols nr ro c t off cnt vs puts H p Hp. unfold plan_column in H.
  destruct (colarg_name cols c) as [name| |]; cbn in H; try discriminate.
  set (cnt' := if (cnt =? 0)%Z then zlen vs else cnt) in *.
  destruct (zlen vs <? cnt')%Z eqn:E0; [discriminate|].
  destruct (negb (elt_has_memtype t)); [discriminate|]. destruct ro; [discriminate|].
  destruct (find_col name cols) as [ci|].
  - destruct (negb (convertible (elt_carrier t) (col_type cols ci))); [discriminate|].
    destruct (cnt' =? 0)%Z; [inversion H; subst; contradiction|].
    destruct ((0 <=? off) && (off + cnt' <=? Z.of_nat nr))%Z eqn:E; cbn in H; [|discriminate].
    destruct (conv_all_gen _ _ _) as [vs'| |] eqn:Ec; cbn in H; try discriminate. inversion H; subst.
    apply col_puts_rows in Hp. apply conv_all_length in Ec. rewrite firstn_length in Ec.
    apply andb_true_iff in E. destruct E as [E1 E2]. apply Z.leb_le in E1. apply Z.leb_le in E2.
    apply Z.ltb_ge in E0. unfold zlen in E0. lia.
  - destruct ((cnt' =? 0)%Z || _); [inversion H; subst; contradiction|discriminate].
Qed.

Lemma name_cols_lt : forall cols names k x, In x (name_cols cols names k) -> snd x < List.length cols.
Proof.
  induction names as [|n names IH]; intros k x H; cbn in H; [contradiction|].
  destruct (find_col n cols) as [c|] eqn:E; [|eauto].
  destruct H as [<-|H]; [cbn; eapply find_col_lt; eauto|eauto].
Qed.

Lemma plan_read_cells_bounds : forall cols nr row names r cs, plan_read_cells cols nr row names = Ok (r, cs) ->
  r < nr /\ forall x, In x cs -> snd x < List.length cols.
Proof.
  intros cols nr row names r cs H. unfold plan_read_cells in H.
  destruct (negb (forallb _ names)); [discriminate|]. destruct (is_nil names); [discriminate|].
  destruct (has_dup names); [discriminate|]. destruct (in_range row nr) eqn:E; [|discriminate].
  inversion H; subst. split.
  - unfold in_range in E. apply andb_true_iff in E. destruct E as [E1 E2].
    apply Z.leb_le in E1. apply Z.ltb_lt in E2. lia.
  - intros x Hx. eapply name_cols_lt; eauto.
Qed.

Lemma plan_read_column_bounds : forall cols nr c t cnt rs off pre p,
  plan_read_column cols nr c t cnt rs off pre = Ok p ->
  rp_off p + rp_k p <= nr /\ forall ci, rp_src p = Some ci -> ci < List.length cols.
Proof.
  intros cols nr c t cnt rs off pre p H. unfold plan_read_column in H.
  destruct (colarg_name cols c) as [name| |]; cbn in H; try discriminate.
  destruct (match cnt with Some k => Ok k | None => _ end) as [k| |]; cbn in H; try discriminate.
  destruct (negb rs && (zlen pre <? k)%Z); [discriminate|].
  destruct (negb (elt_has_memtype t)); [discriminate|].
  destruct (find_col name cols) as [ci|] eqn:Ef.
  - destruct (negb (convertible _ _)); [discriminate|].
    destruct (k =? 0)%Z.
    + inversion H; subst; cbn. split; [lia|]. intros ? E; inversion E; subst. eapply find_col_lt; eauto.
    + destruct ((0 <=? off) && (0 <=? k) && (off + k <=? Z.of_nat nr))%Z eqn:E; cbn in H; [|discriminate].
      inversion H; subst; cbn. apply andb_true_iff in E. destruct E as [E1 E2].
      apply andb_true_iff in E1. destruct E1 as [E1 E3].
      apply Z.leb_le in E1. apply Z.leb_le in E2. apply Z.leb_le in E3. split; [lia|].
      intros ? E; inversion E; subst. eapply find_col_lt; eauto.
  - destruct (k =? 0)%Z.
    + inversion H; subst; cbn. split; [lia|]. discriminate.
    + destruct ((0 <=? off) && (0 <=? k) && (off + k <=? Z.of_nat nr))%Z eqn:E; discriminate.
Qed.

(** * The relation between the frame as rows and the frame as a log *)

Record frel (f : frame) (sf : sframe) : Prop := {
  fr_schema : fr_cols f = sf_cols sf;
  fr_count : nrows f = log_rows (sf_log sf);
  fr_shape : shaped (ncols f) (fr_rows f);
  fr_wf : log_wf (sf_log sf);
  fr_cells : forall r c, r < nrows f -> c < ncols f -> cell (fr_rows f) r c = spec_cell sf r c }.

Definition srel (s : dstate) (a : sstate) : Prop :=
  d_ro s = s_ro a /\
  match d_frame s, s_frame a with
  | Some f, Some sf => frel f sf
  | None, None => True
  | _, _ => False
  end.

Lemma srel_fresh : srel dfresh sfresh.
Proof. split; [reflexivity|exact I]. Qed.

(** every write: the planned batch applied to the rows / logged *)
Lemma write_refines : forall f sf (plan : res (list put)),
  frel f sf ->
  (forall puts, plan = Ok puts -> forall p, In p puts -> fst (fst p) < nrows f) ->
  match plan with
  | Ok puts => frel {| fr_cols := fr_cols f; fr_rows := apply_puts puts (fr_rows f) |}
                    {| sf_cols := sf_cols sf; sf_log := EPut puts :: sf_log sf |}
  | _ => True
  end.
Proof.
  intros f sf [puts| |] R Hrows; auto. destruct R as [R1 R2 R3 R4 R5].
  constructor; cbn [fr_cols fr_rows sf_cols sf_log].
  - exact R1.
  - unfold nrows in *. cbn [fr_rows log_rows]. now rewrite apply_puts_length.
  - unfold ncols in *. cbn [fr_rows fr_cols]. now apply apply_puts_shaped.
  - cbn [log_wf]. split; [|exact R4]. intros p Hp. rewrite <- R2. eapply Hrows; eauto.
  - unfold nrows, ncols in *. cbn [fr_rows fr_cols]. rewrite apply_puts_length. intros r c Hr Hc.
    rewrite (cell_apply_puts (List.length (fr_cols f))); auto.
    unfold spec_cell. cbn [sf_log sf_cols lookup]. destruct (find_put puts r c); [reflexivity|].
    apply (R5 r c); auto.
Qed.

(** one step of the model against one step of the specification *)
Lemma fstep_refines : forall o s a, srel s a ->
  srel (fst (fstep o s)) (fst (sstep o a)) /\ fmeets (snd (fstep o s)) (snd (sstep o a)).
Proof.
  intros o s a R. pose proof R as [Hro Hfr].
  destruct (d_frame s) as [f|] eqn:Hf; destruct (s_frame a) as [sf|] eqn:Ha; try contradiction.
  2:{ (* no frame on either side *)
    destruct o; cbn [fstep sstep]; unfold on_frame, supdate, ask_frame, sask; rewrite ?Hf, ?Ha; cbn [fst snd fmeets];
      try (split; [split; [exact Hro|now rewrite Hf, Ha]|auto; fail]).
    - destruct (plan_create cols); cbn; (split; [apply srel_fresh || (split; [reflexivity|])|auto]).
      constructor; cbn; auto. constructor. intros r c Hr. cbn in Hr. lia.
    - split; [split; [reflexivity|exact I]|reflexivity]. }
  pose proof Hfr as [R1 R2 R3 R4 R5].
  destruct o; cbn [fstep sstep].
  - (* FNew *)
    destruct (plan_create cols); cbn; (split; [apply srel_fresh || (split; [reflexivity|])|auto]).
    constructor; cbn; auto. constructor. intros r c Hr. cbn in Hr. lia.
  - (* FRows *)
    unfold on_frame, supdate. rewrite Hf, Ha, <- Hro.
    destruct (d_ro s) eqn:Er; cbn [fst snd fmeets].
    + split; [|exact I]. exact R.
    + split; [|reflexivity]. split; [cbn; exact Er|]. cbn [with_frame d_frame s_frame].
      constructor; cbn [fr_cols fr_rows sf_cols sf_log].
      * exact R1.
      * unfold nrows. cbn. apply resize_length.
      * unfold ncols, shaped. cbn. unfold resize. apply Forall_app. split.
        { apply Forall_forall. intros x Hx. apply firstn_incl in Hx. unfold shaped in R3. rewrite Forall_forall in R3. now apply R3. }
        { apply Forall_forall. intros x Hx. apply repeat_spec in Hx. subst. apply default_row_length. }
      * exact R4.
      * unfold nrows, ncols. cbn [fr_rows fr_cols]. rewrite resize_length. intros r c Hr Hc. unfold spec_cell. cbn [sf_log sf_cols lookup].
        destruct (Nat.ltb_spec r (Z.to_nat n)) as [_|]; [|lia].
        unfold cell. destruct (Nat.lt_ge_cases r (List.length (fr_rows f))) as [Hold|Hnew].
        { rewrite nth_resize_old by assumption. apply (R5 r c); assumption. }
        { rewrite nth_resize_new by assumption. rewrite default_row_nth by assumption.
          rewrite lookup_beyond; [now rewrite R1|exact R4|]. unfold nrows in R2. lia. }
  - (* FNRows *)
    cbn. rewrite Hf, Ha. split; [exact R|]. cbn. now rewrite R2.
  - (* FSchema *)
    cbn. rewrite Hf, Ha. split; [exact R|]. cbn. now rewrite R1.
  - (* FWRow *)
    unfold on_frame, supdate. rewrite Hf, Ha, <- R1, <- R2, <- Hro.
    pose proof (write_refines f sf (plan_row (fr_cols f) (nrows f) (d_ro s) row vs) Hfr
                  (fun puts Hp => plan_row_rows _ _ _ _ _ _ Hp)) as W.
    destruct (plan_row (fr_cols f) (nrows f) (d_ro s) row vs) as [puts|e|w]; cbn [bind fst snd fmeets].
    + split; [|reflexivity]. split; [cbn; try rewrite <- Hro; reflexivity|]. cbn [with_frame d_frame s_frame]. rewrite <- R1 in W. exact W.
    + split; [exact R|exact I].
    + split; [exact R|exact I].
  - (* FWCells *)
    unfold on_frame, supdate. rewrite Hf, Ha, <- R1, <- R2, <- Hro.
    pose proof (write_refines f sf (plan_cells (fr_cols f) (nrows f) (d_ro s) row cells) Hfr
                  (fun puts Hp => plan_cells_rows _ _ _ _ _ _ Hp)) as W.
    destruct (plan_cells (fr_cols f) (nrows f) (d_ro s) row cells) as [puts|e|w]; cbn [bind fst snd fmeets].
    + split; [|reflexivity]. split; [cbn; try rewrite <- Hro; reflexivity|]. cbn [with_frame d_frame s_frame]. rewrite <- R1 in W. exact W.
    + split; [exact R|exact I].
    + split; [exact R|exact I].
  - (* FWCol *)
    unfold on_frame, supdate. rewrite Hf, Ha, <- R1, <- R2, <- Hro.
    pose proof (write_refines f sf (plan_column (fr_cols f) (nrows f) (d_ro s) c t off cnt vs) Hfr
                  (fun puts Hp => plan_column_rows _ _ _ _ _ _ _ _ _ Hp)) as W.
    destruct (plan_column (fr_cols f) (nrows f) (d_ro s) c t off cnt vs) as [puts|e|w]; cbn [bind fst snd fmeets].
    + split; [|reflexivity]. split; [cbn; try rewrite <- Hro; reflexivity|]. cbn [with_frame d_frame s_frame]. rewrite <- R1 in W. exact W.
    + split; [exact R|exact I].
    + split; [exact R|exact I].
  - (* FRRow *)
    unfold ask_frame, sask. rewrite Hf, Ha. cbn [fst snd]. split; [exact R|].
    rewrite <- R2. unfold plan_read_row. destruct (in_range row (nrows f)) eqn:E; cbn; [|exact I].
    assert (Hr : Z.to_nat row < nrows f).
    { unfold in_range in E. apply andb_true_iff in E. destruct E as [E1 E2].
      apply Z.leb_le in E1. apply Z.ltb_lt in E2. lia. }
    f_equal. rewrite <- R1.
    rewrite (list_is_map_nth _ VNone (nth (Z.to_nat row) (fr_rows f) [])).
    rewrite (shaped_nth (ncols f)) by assumption. unfold ncols. symmetry.
    apply map_ext_in. intros c Hc. apply in_seq in Hc. change (nth c (nth (Z.to_nat row) (fr_rows f) []) VNone) with (cell (fr_rows f) (Z.to_nat row) c). apply (R5 (Z.to_nat row) c); [assumption|unfold ncols; lia].
  - (* FRCells *)
    unfold ask_frame, sask. rewrite Hf, Ha. cbn [fst snd]. split; [exact R|].
    rewrite <- R1, <- R2.
    destruct (plan_read_cells (fr_cols f) (nrows f) row names) as [[r cs]| |] eqn:E; cbn; auto.
    destruct (plan_read_cells_bounds _ _ _ _ _ _ E) as [Hr Hcs].
    f_equal. unfold answer_cells. apply map_ext_in. intros [[k n] c] Hx. f_equal.
    symmetry. apply R5; [assumption|]. apply (Hcs _ Hx).
  - (* FRCell *)
    unfold ask_frame, sask. rewrite Hf, Ha. cbn [fst snd]. split; [exact R|].
    rewrite <- R1, <- R2. unfold plan_read_cell.
    destruct (colarg_name (fr_cols f) c) as [name| |]; cbn; auto.
    destruct (plan_read_cells (fr_cols f) (nrows f) row [name]) as [[r cs]| |] eqn:E; cbn; auto.
    destruct (plan_read_cells_bounds _ _ _ _ _ _ E) as [Hr Hcs].
    f_equal. f_equal. unfold answer_cells. apply map_ext_in. intros [[k n] c0] Hx. f_equal.
    symmetry. apply R5; [assumption|]. apply (Hcs _ Hx).
  - (* FRCol *)
    unfold ask_frame, sask. rewrite Hf, Ha. cbn [fst snd]. split; [exact R|].
    rewrite <- R1, <- R2.
    destruct (plan_read_column (fr_cols f) (nrows f) c t cnt resize off pre) as [p| |] eqn:E; cbn [bind to_verdict fmeets]; auto.
    destruct (plan_read_column_bounds _ _ _ _ _ _ _ _ _ E) as [Hb Hc].
    assert (Es : match rp_src p with
                 | Some ci => slice_column (fr_rows f) ci (rp_off p) (rp_k p)
                 | None => [] end =
                 match rp_src p with
                 | Some ci => map (fun i => spec_cell sf (rp_off p + i) ci) (seq 0 (rp_k p))
                 | None => [] end).
    { destruct (rp_src p) as [ci|]; [|reflexivity].
      rewrite slice_column_pointwise by (unfold nrows in Hb; lia).
      apply map_ext_in. intros i Hi. apply in_seq in Hi. apply R5; [lia|]. unfold ncols. now apply Hc. }
    rewrite Es. destruct (finish_read t p _); cbn; auto.
  - (* FColIdx *)
    unfold ask_frame, sask. rewrite Hf, Ha. cbn [fst snd]. split; [exact R|]. rewrite <- R1.
    destruct (find_col s0 (fr_cols f)); cbn; auto.
  - (* FColName *)
    unfold ask_frame, sask. rewrite Hf, Ha. cbn [fst snd]. split; [exact R|]. rewrite <- R1.
    destruct (col_name (fr_cols f) i); cbn; auto.
  - (* FColIdxs *)
    unfold ask_frame, sask. rewrite Hf, Ha. cbn [fst snd]. split; [exact R|]. rewrite <- R1.
    destruct (col_indices (fr_cols f) names); cbn; auto.
  - (* FColNames *)
    unfold ask_frame, sask. rewrite Hf, Ha. cbn [fst snd]. split; [exact R|]. rewrite <- R1.
    destruct (col_names (fr_cols f) idxs); cbn; auto.
  - (* FReopen *)
    cbn. rewrite Hf, Ha. split; [|reflexivity]. split; [reflexivity|]. exact Hfr.
Qed.

(** history_refines: EVERY list of operations -- row-count changes, writes through the three paths,
    reads through the three paths, with and without resize, offsets, counts, out-of-range rows and
    columns, unknown names, foreign cell types, reopen in either mode -- is answered by the row-list
    model exactly as the pointwise specification demands *)
Theorem history_refines : forall ops s a, srel s a -> Forall2 fmeets (frun ops s) (srun ops a).
Proof.
  induction ops as [|o ops IH]; intros s a R; cbn [frun srun]; [constructor|].
  destruct (fstep_refines o s a R) as [R' M].
  destruct (fstep o s) as [s' r]. destruct (sstep o a) as [a' v]. cbn [fst snd] in *.
  constructor; [exact M|]. now apply IH.
Qed.

(** * Typing of the stored cells *)

Definition schema_ok (cols : list column) : Prop := forall c, c < List.length cols -> supported (col_type cols c) = true.

(** every cell has its column's type *)
Definition typed (cols : list column) (rows : rowsT) : Prop :=
  forall r c, r < List.length rows -> c < List.length cols -> type_of (cell rows r c) = col_type cols c.

Record wf_frame (f : frame) : Prop := {
  wf_schema : schema_ok (fr_cols f);
  wf_shape : shaped (ncols f) (fr_rows f);
  wf_typed : typed (fr_cols f) (fr_rows f) }.

Lemma type_of_mk_int : forall d z, is_int d = true -> type_of (mk_int d z) = d.
Proof. destruct d; cbn; intros; try discriminate; reflexivity. Qed.

Lemma conv_gen_same : forall fl v, conv_gen fl (type_of v) v = Ok v.
Proof. intros fl v. unfold conv_gen. now rewrite vtype_eqb_refl. Qed.

Lemma conv_same : forall v, conv (type_of v) v = Ok v.
Proof. exact (conv_gen_same false). Qed.

Lemma conv_gen_type : forall fl d v v', supported d = true -> conv_gen fl d v = Ok v' -> type_of v' = d.
Proof.
  intros fl d v v' Hs H. unfold conv_gen in H.
  destruct (vtype_eqb (type_of v) d) eqn:E.
  - inversion H; subst. now apply vtype_eqb_eq.
  - destruct (convertible (type_of v) d) eqn:Ec; cbn [negb] in H; [|discriminate].
    destruct (is_int d) eqn:Ei.
    + destruct v; cbn [int_of] in H;
        try (inversion H; subst; now apply type_of_mk_int); try discriminate.
      unfold d2i in H. destruct d0; try discriminate;
        repeat match type of H with context [if ?b then _ else _] => destruct b end;
        try discriminate; inversion H; subst; now apply type_of_mk_int.
    + unfold convertible in Ec. rewrite E in Ec. cbn [orb] in Ec.
      destruct d; cbn in *; try discriminate; rewrite ?andb_false_r in Ec; try discriminate.
      destruct (int_of v); inversion H; reflexivity.
Qed.

Lemma conv_type : forall d v v', supported d = true -> conv d v = Ok v' -> type_of v' = d.
Proof. exact (conv_gen_type false). Qed.

Lemma conv_all_gen_same : forall fl d vs, (forall v, In v vs -> type_of v = d) -> conv_all_gen fl d vs = Ok vs.
Proof.
  induction vs as [|v vs IH]; intros H; cbn [conv_all_gen]; auto.
  rewrite <- (H v (or_introl eq_refl)) at 1. rewrite conv_gen_same. cbn [bind].
  rewrite IH by (intros; apply H; now right). reflexivity.
Qed.

Lemma conv_all_same : forall d vs, (forall v, In v vs -> type_of v = d) -> conv_all d vs = Ok vs.
Proof. exact (conv_all_gen_same false). Qed.

Lemma conv_all_typed : forall fl d vs vs', supported d = true -> conv_all_gen fl d vs = Ok vs' ->
  forall v, In v vs' -> type_of v = d.
Proof.
  induction vs as [|v0 vs IH]; intros vs' Hs H v Hv; cbn [conv_all_gen] in H.
  - inversion H; subst. contradiction.
  - destruct (conv_gen fl d v0) eqn:E; cbn in H; try discriminate.
    destruct (conv_all_gen fl d vs) eqn:E2; cbn in H; try discriminate. inversion H; subst.
    destruct Hv as [<-|Hv]; [eapply conv_gen_type; eauto|eapply IH; eauto].
Qed.

(** for the seven member types the element conversion of a column read is the member conversion *)
Lemma conv_elt_supported : forall t v, supported t = true -> conv_elt t v = conv t v.
Proof. intros t v H. destruct t; try discriminate; reflexivity. Qed.

Lemma conv_elt_all_supported : forall t vs, supported t = true -> conv_elt_all t vs = conv_all t vs.
Proof.
  induction vs as [|v vs IH]; intros H; [reflexivity|].
  cbn [conv_elt_all]. rewrite conv_elt_supported, IH by assumption. reflexivity.
Qed.

Lemma elt_carrier_supported : forall t, supported t = true -> elt_carrier t = t.
Proof. destruct t; try discriminate; reflexivity. Qed.

(** a batch whose values have their column's type keeps the rows typed *)
Definition puts_typed (cols : list column) (puts : list put) : Prop :=
  forall p, In p puts -> snd (fst p) < List.length cols /\ type_of (snd p) = col_type cols (snd (fst p)).

Lemma find_put_in : forall puts r c v, find_put puts r c = Some v -> In (r, c, v) puts.
Proof.
  induction puts as [|[[r' c'] v'] puts IH]; intros r c v H; cbn in H; [discriminate|].
  destruct (find_put puts r c) eqn:E.
  - inversion H; subst. right. now apply IH.
  - destruct (Nat.eqb_spec r' r); cbn in H; [|discriminate].
    destruct (Nat.eqb_spec c' c); cbn in H; [|discriminate]. inversion H; subst. now left.
Qed.

Lemma apply_puts_typed : forall cols puts rows,
  shaped (List.length cols) rows -> typed cols rows -> puts_typed cols puts -> typed cols (apply_puts puts rows).
Proof.
  intros cols puts rows Hs Ht Hp r c Hr Hc. rewrite apply_puts_length in Hr.
  rewrite (cell_apply_puts (List.length cols)) by assumption.
  destruct (find_put puts r c) as [v|] eqn:E; [|now apply Ht].
  apply find_put_in in E. destruct (Hp _ E) as [_ H]. exact H.
Qed.

Lemma cells_to_puts_typed : forall cols row named puts, schema_ok cols ->
  cells_to_puts cols row named = Ok puts -> puts_typed cols puts.
Proof.
  induction named as [|[n v] named IH]; intros puts Hs H p Hp; cbn in H.
  - inversion H; subst. contradiction.
  - destruct (find_col n cols) as [c|] eqn:Ef; [|eapply IH; eauto].
    destruct (conv (col_type cols c) v) as [v'| |] eqn:Ec; cbn in H; try discriminate.
    destruct (cells_to_puts cols row named) as [r'| |] eqn:E2; cbn in H; try discriminate.
    inversion H; subst. destruct Hp as [<-|Hp]; [|eapply IH; eauto]. cbn.
    pose proof (find_col_lt _ _ _ Ef) as Hlt. split; [exact Hlt|]. eapply conv_type; eauto.
Qed.

Lemma plan_cells_typed : forall cols nr ro row cells puts, schema_ok cols ->
  plan_cells cols nr ro row cells = Ok puts -> puts_typed cols puts.
Proof.
  intros cols nr ro row cells puts Hs H. unfold plan_cells in H.
  destruct (existsb _ cells); [discriminate|]. destruct (is_nil cells); [discriminate|].
  destruct (resolve_cells cols cells []) as [named| |]; cbn in H; try discriminate.
  destruct ro; [discriminate|]. destruct (negb (in_range row nr)); [discriminate|].
  eapply cells_to_puts_typed; eauto.
Qed.

Lemma plan_row_typed : forall cols nr ro row vs puts, schema_ok cols ->
  plan_row cols nr ro row vs = Ok puts -> puts_typed cols puts.
Proof.
  intros cols nr ro row vs puts Hs H. unfold plan_row in H.
  destruct (Nat.ltb _ _); [discriminate|]. eapply plan_cells_typed; eauto.
Qed.

Lemma col_puts_in : forall c vs off p, In p (col_puts c off vs) -> snd (fst p) = c /\ In (snd p) vs.
Proof.
  induction vs as [|v vs IH]; intros off p H; cbn in *; [contradiction|].
  destruct H as [<-|H]; cbn; [auto|]. destruct (IH _ _ H). auto.
Qed.

Lemma plan_column_typed : forall cols nr ro c t off cnt vs puts, schema_ok cols ->
  plan_column cols nr ro c t off cnt vs = Ok puts -> puts_typed cols puts.
Proof.
  intros cols nr ro c t off cnt vs puts Hs H p Hp. unfold plan_column in H.
  destruct (colarg_name cols c) as [name| |]; cbn in H; try discriminate.
  set (cnt' := if (cnt =? 0)%Z then zlen vs else cnt) in *.
  destruct (zlen vs <? cnt')%Z; [discriminate|].
  destruct (negb (elt_has_memtype t)); [discriminate|]. destruct ro; [discriminate|].
  destruct (find_col name cols) as [ci|] eqn:Ef.
  - destruct (negb (convertible (elt_carrier t) (col_type cols ci))); [discriminate|].
    destruct (cnt' =? 0)%Z; [inversion H; subst; contradiction|].
    destruct (negb _); [discriminate|].
    destruct (conv_all_gen _ _ _) as [vs'| |] eqn:Ec; cbn in H; try discriminate. inversion H; subst.
    apply col_puts_in in Hp. destruct Hp as [-> Hin]. pose proof (find_col_lt _ _ _ Ef) as Hlt.
    split; [exact Hlt|]. eapply conv_all_typed; eauto.
  - destruct ((cnt' =? 0)%Z || _); [inversion H; subst; contradiction|discriminate].
Qed.

Lemma check_cols_ok : forall cols seen, check_cols cols seen = Ok tt ->
  forall c, In c cols -> supported (c_type c) = true.
Proof.
  induction cols as [|x cols IH]; intros seen H c Hc; [contradiction|]. cbn in H.
  destruct (is_empty (c_name x)); [discriminate|].
  destruct (supported (c_type x)) eqn:E; cbn in H; [|discriminate].
  destruct (existsb _ seen); [discriminate|].
  destruct Hc as [<-|Hc]; [exact E|eapply IH; eauto].
Qed.

Lemma plan_create_schema : forall cols, plan_create cols = Ok tt -> schema_ok cols.
Proof.
  intros cols H c Hc. unfold plan_create in H.
  destruct (is_nil cols); [discriminate|].
  destruct (check_cols cols []) as [[]| |] eqn:E; cbn in H; try discriminate.
  unfold col_type.
  destruct (nth_error cols c) as [x|] eqn:En; [|apply nth_error_None in En; lia].
  eapply check_cols_ok; eauto. eapply nth_error_In; eauto.
Qed.

(** every step keeps the frame well formed *)
Lemma fstep_wf : forall o s,
  (forall f, d_frame s = Some f -> wf_frame f) ->
  forall f', d_frame (fst (fstep o s)) = Some f' -> wf_frame f'.
Proof.
  intros o s Hwf f' H.
  assert (W : forall (plan : frame -> res (list put)),
            (forall f puts, plan f = Ok puts -> wf_frame f -> puts_typed (fr_cols f) puts) ->
            d_frame (fst (on_frame s (fun f => bind (plan f) (fun puts => Ok (apply_puts puts (fr_rows f)))))) = Some f' ->
            wf_frame f').
  { intros plan Hp H0. unfold on_frame in H0. destruct (d_frame s) as [f|] eqn:Hf; [|cbn in H0; now rewrite Hf in H0].
    specialize (Hwf f eq_refl). destruct (plan f) as [puts| |] eqn:Ep; cbn in H0; try (rewrite Hf in H0; inversion H0; now subst).
    inversion H0; subst. destruct Hwf as [W1 W2 W3]. constructor; cbn.
    - exact W1.
    - unfold ncols. cbn. now apply apply_puts_shaped.
    - apply apply_puts_typed; auto. eapply Hp; eauto. constructor; auto. }
  destruct o; cbn [fstep] in H;
    try (unfold ask_frame in H; destruct (d_frame s) eqn:Hf; cbn in H; rewrite ?Hf in H; inversion H; subst; now apply Hwf);
    try (cbn in H; now apply Hwf).
  - (* FNew *)
    destruct (plan_create cols) as [[]| |] eqn:E; cbn in H; try discriminate. inversion H; subst.
    constructor; cbn.
    + now apply plan_create_schema.
    + constructor.
    + intros r c Hr. cbn in Hr. lia.
  - (* FRows *)
    unfold on_frame in H. destruct (d_frame s) as [f|] eqn:Hf; [|cbn in H; now rewrite Hf in H].
    specialize (Hwf f eq_refl). destruct (d_ro s); cbn in H; [rewrite Hf in H; inversion H; now subst|].
    inversion H; subst. destruct Hwf as [W1 W2 W3]. constructor; cbn.
    + exact W1.
    + unfold ncols, shaped. cbn. unfold resize. apply Forall_app. split.
      * apply Forall_forall. intros x Hx. apply firstn_incl in Hx. unfold shaped in W2. rewrite Forall_forall in W2. now apply W2.
      * apply Forall_forall. intros x Hx. apply repeat_spec in Hx. subst. apply default_row_length.
    + intros r c Hr Hc. rewrite resize_length in Hr. unfold cell.
      destruct (Nat.lt_ge_cases r (List.length (fr_rows f))) as [Hold|Hnew].
      * rewrite nth_resize_old by assumption. now apply W3.
      * rewrite nth_resize_new by assumption. rewrite default_row_nth by assumption.
        specialize (W1 c Hc). destruct (col_type (fr_cols f) c); cbn in *; try discriminate; reflexivity.
  - (* FWRow *) apply (W (fun f => plan_row (fr_cols f) (nrows f) (d_ro s) row vs)); auto.
    intros f puts Hp [W1 _ _]. eapply plan_row_typed; eauto.
  - (* FWCells *) apply (W (fun f => plan_cells (fr_cols f) (nrows f) (d_ro s) row cells)); auto.
    intros f puts Hp [W1 _ _]. eapply plan_cells_typed; eauto.
  - (* FWCol *) apply (W (fun f => plan_column (fr_cols f) (nrows f) (d_ro s) c t off cnt vs)); auto.
    intros f puts Hp [W1 _ _]. eapply plan_column_typed; eauto.
Qed.

Theorem history_wf : forall ops f, d_frame (ffinal ops dfresh) = Some f -> wf_frame f.
Proof.
  assert (G : forall ops s, (forall f, d_frame s = Some f -> wf_frame f) ->
                            forall f, d_frame (ffinal ops s) = Some f -> wf_frame f).
  { induction ops as [|o ops IH]; intros s Hs f H; cbn in H; [now apply Hs|].
    eapply IH; [|exact H]. intros f0 H0. eapply fstep_wf; eauto. }
  intros ops f H. eapply G; [|exact H]. intros f0 H0. discriminate.
Qed.

(** * The three read paths return the cells *)

Lemma in_range_spec : forall z n, in_range z n = true <-> (0 <= z)%Z /\ Z.to_nat z < n.
Proof.
  intros z n. unfold in_range. rewrite andb_true_iff, Z.leb_le, Z.ltb_lt. split; intros [H1 H2]; split; lia.
Qed.

Lemma col_name_ok : forall cols c, c < List.length cols ->
  col_name cols (Z.of_nat c) = Ok (c_name (nth c cols {| c_name := ""; c_unit := ""; c_type := TBool |})).
Proof.
  intros cols c H. unfold col_name.
  assert (E : in_range (Z.of_nat c) (List.length cols) = true) by (apply in_range_spec; lia).
  rewrite E, Nat2Z.id. destruct (nth_error cols c) as [x|] eqn:En.
  - now rewrite (nth_error_nth _ _ _ En).
  - apply nth_error_None in En. lia.
Qed.

(** column names are unique, so a column is found under its own name *)
Definition names_unique (cols : list column) : Prop :=
  forall c, c < List.length cols -> find_col (c_name (nth c cols {| c_name := ""; c_unit := ""; c_type := TBool |})) cols = Some c.

(** readRow(r): the r-th row, cell by cell *)
Theorem read_row_cells : forall s f r, d_frame s = Some f -> wf_frame f -> r < nrows f ->
  exists vs, snd (fstep (FRRow (Z.of_nat r)) s) = Ok (FVals vs) /\ List.length vs = ncols f /\
             forall c, c < ncols f -> nth c vs VNone = cell (fr_rows f) r c.
Proof.
  intros s f r Hf [W1 W2 W3] Hr. cbn [fstep]. unfold ask_frame. rewrite Hf. cbn [snd]. unfold plan_read_row.
  assert (E : in_range (Z.of_nat r) (nrows f) = true) by (apply in_range_spec; lia).
  rewrite E. cbn. rewrite Nat2Z.id. eexists. split; [reflexivity|]. split; [now apply shaped_nth|]. reflexivity.
Qed.

(** readCell(r, c) and readCells(r, {name}): that cell *)
Theorem read_cell_value : forall s f r c, d_frame s = Some f -> wf_frame f -> names_unique (fr_cols f) ->
  r < nrows f -> c < ncols f ->
  let name := c_name (nth c (fr_cols f) {| c_name := ""; c_unit := ""; c_type := TBool |}) in
  snd (fstep (FRCell (Z.of_nat r) (ByIdx (Z.of_nat c))) s) = Ok (FCell (0%Z, name, cell (fr_rows f) r c)) /\
  snd (fstep (FRCell (Z.of_nat r) (ByName name)) s) = Ok (FCell (0%Z, name, cell (fr_rows f) r c)) /\
  snd (fstep (FRCells (Z.of_nat r) [name]) s) = Ok (FCells [(0%Z, name, cell (fr_rows f) r c)]).
Proof.
  intros s f r c Hf Hw Hu Hr Hc name. cbn [fstep]. unfold ask_frame. rewrite Hf. cbn [snd].
  assert (E : in_range (Z.of_nat r) (nrows f) = true) by (apply in_range_spec; lia).
  assert (P : plan_read_cells (fr_cols f) (nrows f) (Z.of_nat r) [name] = Ok (r, [(0%Z, name, c)])).
  { unfold plan_read_cells. cbn [forallb is_nil has_dup existsb orb name_cols]. subst name. rewrite (Hu c Hc). cbn.
    now rewrite E, Nat2Z.id. }
  unfold plan_read_cell, colarg_name. rewrite (col_name_ok _ _ Hc). cbn [bind]. fold name. rewrite P. cbn. auto.
Qed.

(** readColumn<T = the column's type>(c, vals, resize = true, offset): rows offset.. of that column *)
Theorem read_column_cells : forall s f c off, d_frame s = Some f -> wf_frame f -> names_unique (fr_cols f) ->
  c < ncols f -> off <= nrows f ->
  forall pre,
  snd (fstep (FRCol (ByIdx (Z.of_nat c)) (col_type (fr_cols f) c) None true (Z.of_nat off) pre) s) =
  Ok (FVals (map (fun i => cell (fr_rows f) (off + i) c) (seq 0 (nrows f - off)))).
Proof.
  intros s f c off Hf [W1 W2 W3] Hu Hc Hoff pre. cbn [fstep]. unfold ask_frame. rewrite Hf. cbn [snd].
  unfold plan_read_column, colarg_name. rewrite (col_name_ok _ _ Hc). cbn [bind].
  destruct (Z.of_nat (nrows f) <? Z.of_nat off)%Z eqn:E1; [apply Z.ltb_lt in E1; lia|]. cbn [bind negb andb].
  pose proof (W1 c Hc) as Hsup. unfold elt_has_memtype. rewrite (elt_carrier_supported _ Hsup), Hsup. cbn [negb].
  rewrite (Hu c Hc). unfold convertible. rewrite vtype_eqb_refl. cbn [orb negb].
  set (k := (Z.of_nat (nrows f) - Z.of_nat off)%Z).
  assert (Kn : Z.to_nat k = nrows f - off) by (subst k; lia).
  assert (T : forall v, In v (slice_column (fr_rows f) c off (nrows f - off)) -> type_of v = col_type (fr_cols f) c).
  { intros v Hv. rewrite slice_column_pointwise in Hv by (unfold nrows in *; lia).
    apply in_map_iff in Hv. destruct Hv as (i & <- & Hi). apply in_seq in Hi. apply W3; unfold nrows, ncols in *; lia. }
  destruct (k =? 0)%Z eqn:E2.
  - apply Z.eqb_eq in E2. assert (nrows f - off = 0) by lia. rewrite H. cbn.
    unfold finish_read. cbn. unfold overlay, resize. rewrite Kn, H. cbn. reflexivity.
  - assert (E3 : ((0 <=? Z.of_nat off) && (0 <=? k) && (Z.of_nat off + k <=? Z.of_nat (nrows f)))%Z = true).
    { rewrite !andb_true_iff, !Z.leb_le. subst k. lia. }
    rewrite E3. cbn [negb bind rp_src rp_k rp_off rp_pre]. unfold finish_read. cbn [rp_src rp_k rp_off rp_pre].
    rewrite Kn, Nat2Z.id. rewrite (conv_elt_all_supported _ _ Hsup), (conv_all_same _ _ T). cbn [bind].
    rewrite slice_column_pointwise by (unfold nrows in *; lia).
    unfold overlay. rewrite map_length, seq_length.
    assert (L : List.length (resize (nrows f - off) (default_of (col_type (fr_cols f) c)) pre) = nrows f - off) by apply resize_length.
    rewrite skipn_all2 by lia. now rewrite app_nil_r.
Qed.

(** * The three write paths assign exactly their cells *)

(** the state after an accepted write: the planned cells, everything else as before *)
Lemma write_effect : forall s f (k : frame -> res (list put)) puts,
  d_frame s = Some f -> wf_frame f -> k f = Ok puts ->
  let m := on_frame s (fun f0 => bind (k f0) (fun puts => Ok (apply_puts puts (fr_rows f0)))) in
  exists f', d_frame (fst m) = Some f' /\ snd m = Ok FDone /\ fr_cols f' = fr_cols f /\ nrows f' = nrows f /\
    forall r c, r < nrows f -> c < ncols f ->
      cell (fr_rows f') r c = match find_put puts r c with Some v => v | None => cell (fr_rows f) r c end.
Proof.
  intros s f k puts Hf [W1 W2 W3] Hk m. subst m. unfold on_frame. rewrite Hf, Hk. cbn.
  eexists. split; [reflexivity|]. split; [reflexivity|]. split; [reflexivity|]. split.
  - unfold nrows. cbn. apply apply_puts_length.
  - intros r c Hr Hc. cbn. now apply (cell_apply_puts (ncols f)).
Qed.

Lemma find_put_single : forall r c v r' c',
  find_put [(r, c, v)] r' c' = if Nat.eqb r r' && Nat.eqb c c' then Some v else None.
Proof. reflexivity. Qed.

(** writeCell(row, col, v) / writeCells by index or by name, one cell of the column's type *)
Theorem write_cell_effect : forall s f r c v byname, d_frame s = Some f -> d_ro s = false -> wf_frame f ->
  names_unique (fr_cols f) -> r < nrows f -> c < ncols f -> type_of v = col_type (fr_cols f) c ->
  let name := c_name (nth c (fr_cols f) {| c_name := ""; c_unit := ""; c_type := TBool |}) in
  name <> "" ->
  let o := FWCells (Z.of_nat r) [(if byname : bool then ByName name else ByIdx (Z.of_nat c), v)] in
  exists f', d_frame (fst (fstep o s)) = Some f' /\ snd (fstep o s) = Ok FDone /\
    fr_cols f' = fr_cols f /\ nrows f' = nrows f /\
    forall r' c', r' < nrows f -> c' < ncols f ->
      cell (fr_rows f') r' c' = if Nat.eqb r r' && Nat.eqb c c' then v else cell (fr_rows f) r' c'.
Proof.
  intros s f r c v byname Hf Hro Hw Hu Hr Hc Ht name Hne o. pose proof Hw as [W1 W2 W3].
  assert (P : plan_cells (fr_cols f) (nrows f) false (Z.of_nat r)
                [(if byname then ByName name else ByIdx (Z.of_nat c), v)] = Ok [(r, c, v)]).
  { unfold plan_cells. cbn [existsb snd orb is_nil].
    assert (Nv : is_none v = false).
    { specialize (W1 c Hc). rewrite <- Ht in W1. destruct v; cbn in *; auto; discriminate. }
    rewrite Nv. cbn [resolve_cells].
    assert (Cn : cref_name (fr_cols f) (if byname then ByName name else ByIdx (Z.of_nat c)) = Ok name).
    { destruct byname; cbn [cref_name].
      - destruct name eqn:En; [contradiction|reflexivity].
      - now apply col_name_ok. }
    rewrite Cn. cbn [bind existsb].
    assert (E : in_range (Z.of_nat r) (nrows f) = true) by (apply in_range_spec; lia).
    rewrite E. cbn [negb cells_to_puts]. subst name. rewrite (Hu c Hc). rewrite <- Ht, conv_same. cbn. now rewrite Nat2Z.id. }
  subst o. cbn [fstep]. rewrite Hro.
  destruct (write_effect s f (fun f0 => plan_cells (fr_cols f0) (nrows f0) false (Z.of_nat r)
              [(if byname then ByName name else ByIdx (Z.of_nat c), v)]) _ Hf Hw P) as (f' & H1 & H2 & H3 & H4 & H5).
  exists f'. repeat split; auto. intros r' c' Hr' Hc'. rewrite (H5 r' c' Hr' Hc'), find_put_single.
  destruct (Nat.eqb r r' && Nat.eqb c c'); reflexivity.
Qed.

(** writeColumn<T = the column's type>(c, vals, offset) (count 0 = all of vals) *)
Ltac bool_cases :=
  repeat match goal with
         | |- context [Nat.eqb ?a ?b] => destruct (Nat.eqb_spec a b)
         | |- context [Nat.leb ?a ?b] => destruct (Nat.leb_spec a b)
         | |- context [Nat.ltb ?a ?b] => destruct (Nat.ltb_spec a b)
         end.

Lemma find_put_col : forall c vs off r c',
  find_put (col_puts c off vs) r c' =
  if Nat.eqb c c' && Nat.leb off r && Nat.ltb r (off + List.length vs) then Some (nth (r - off) vs VNone) else None.
Proof.
  induction vs as [|v vs IH]; intros off r c'; cbn [col_puts find_put List.length].
  - bool_cases; cbn [andb]; try reflexivity; lia.
  - rewrite IH. bool_cases; cbn [andb]; try reflexivity; try lia.
    all: try (replace (r - off) with (S (r - S off)) by lia; reflexivity).
    all: try (subst; rewrite Nat.sub_diag; reflexivity).
    all: idtac.
Qed.

Theorem write_column_effect : forall s f c off vs, d_frame s = Some f -> d_ro s = false -> wf_frame f ->
  names_unique (fr_cols f) -> c < ncols f -> vs <> [] -> off + List.length vs <= nrows f ->
  (forall v, In v vs -> type_of v = col_type (fr_cols f) c) ->
  let o := FWCol (ByIdx (Z.of_nat c)) (col_type (fr_cols f) c) (Z.of_nat off) 0 vs in
  exists f', d_frame (fst (fstep o s)) = Some f' /\ snd (fstep o s) = Ok FDone /\
    fr_cols f' = fr_cols f /\ nrows f' = nrows f /\
    forall r' c', r' < nrows f -> c' < ncols f ->
      cell (fr_rows f') r' c' =
      if Nat.eqb c c' && Nat.leb off r' && Nat.ltb r' (off + List.length vs) then nth (r' - off) vs VNone
      else cell (fr_rows f) r' c'.
Proof.
  intros s f c off vs Hf Hro Hw Hu Hc Hne Hlen Ht o. pose proof Hw as [W1 W2 W3].
  assert (P : plan_column (fr_cols f) (nrows f) false (ByIdx (Z.of_nat c)) (col_type (fr_cols f) c) (Z.of_nat off) 0 vs
              = Ok (col_puts c off vs)).
  { unfold plan_column, colarg_name. rewrite (col_name_ok _ _ Hc). cbn [bind Z.eqb].
    rewrite Z.ltb_irrefl. pose proof (W1 c Hc) as Hsup.
    unfold elt_has_memtype. rewrite (elt_carrier_supported _ Hsup), Hsup. cbn [negb].
    assert (Fl : is_float_elt (col_type (fr_cols f) c) = false) by (destruct (col_type (fr_cols f) c); try discriminate; reflexivity).
    rewrite Fl.
    rewrite (Hu c Hc). unfold convertible. rewrite vtype_eqb_refl. cbn [orb negb].
    assert (Z0 : (zlen vs =? 0)%Z = false).
    { apply Z.eqb_neq. unfold zlen. destruct vs; [contradiction|cbn; lia]. }
    rewrite Z0.
    assert (E : ((0 <=? Z.of_nat off) && (Z.of_nat off + zlen vs <=? Z.of_nat (nrows f)))%Z = true).
    { rewrite andb_true_iff, !Z.leb_le. unfold zlen. lia. }
    rewrite E. cbn [negb]. unfold zlen. rewrite Nat2Z.id, firstn_all, (conv_all_gen_same false _ _ Ht). cbn. now rewrite Nat2Z.id. }
  subst o. cbn [fstep]. rewrite Hro.
  destruct (write_effect s f (fun f0 => plan_column (fr_cols f0) (nrows f0) false (ByIdx (Z.of_nat c))
              (col_type (fr_cols f) c) (Z.of_nat off) 0 vs) _ Hf Hw P) as (f' & H1 & H2 & H3 & H4 & H5).
  exists f'. repeat split; auto. intros r' c' Hr' Hc'. rewrite (H5 r' c' Hr' Hc'), find_put_col.
  destruct (Nat.eqb c c' && Nat.leb off r' && Nat.ltb r' (off + List.length vs)); reflexivity.
Qed.

(** * rows(n), the schema, rows out of range *)

(** resize_keeps_surviving_rows: rows(n) keeps the cells of the surviving rows; new rows are zero / "" *)
Theorem resize_keeps_surviving_rows : forall s f n, d_frame s = Some f -> d_ro s = false -> wf_frame f ->
  exists f', fstep (FRows (Z.of_nat n)) s = (with_frame s f', Ok FDone) /\
    fr_cols f' = fr_cols f /\ nrows f' = n /\
    (forall r c, r < n -> r < nrows f -> cell (fr_rows f') r c = cell (fr_rows f) r c) /\
    (forall r c, r < n -> nrows f <= r -> c < ncols f -> cell (fr_rows f') r c = default_of (col_type (fr_cols f) c)).
Proof.
  intros s f n Hf Hro Hw. cbn [fstep]. unfold on_frame. rewrite Hf, Hro, Nat2Z.id.
  eexists. split; [reflexivity|]. cbn. split; [reflexivity|]. split; [unfold nrows; cbn; apply resize_length|]. split.
  - intros r c Hr Hold. unfold cell. now rewrite nth_resize_old.
  - intros r c Hr Hnew Hc. unfold cell. rewrite nth_resize_new by assumption. now apply default_row_nth.
Qed.

(** unwritten_zero, in the specification's own words: a cell with no assignment since its row last
    (re)appeared reads as zero / "" *)
Fixpoint unwritten (l : log) (r c : nat) : Prop :=
  match l with
  | [] => True
  | ERows n :: rest => n <= r \/ unwritten rest r c
  | EPut puts :: rest => find_put puts r c = None /\ unwritten rest r c
  end.

Theorem unwritten_zero : forall l r c d, unwritten l r c -> lookup l r c d = d.
Proof.
  induction l as [|[n|puts] l IH]; intros r c d H; cbn [lookup unwritten] in *; auto.
  - destruct (Nat.ltb_spec r n); [|reflexivity]. destruct H as [H|H]; [lia|now apply IH].
  - destruct H as [H1 H2]. rewrite H1. now apply IH.
Qed.

(** cell_last_write_wins, in the specification's own words *)
Theorem spec_last_write_wins : forall l puts r c v d,
  find_put puts r c = Some v -> lookup (EPut puts :: l) r c d = v.
Proof. intros. cbn. now rewrite H. Qed.

Theorem spec_other_cells_kept : forall l puts r c d,
  find_put puts r c = None -> lookup (EPut puts :: l) r c d = lookup l r c d.
Proof. intros. cbn. now rewrite H. Qed.

Theorem spec_resize : forall l n r c d, log_wf l ->
  lookup (ERows n :: l) r c d = if Nat.ltb r n then (if Nat.ltb r (log_rows l) then lookup l r c d else d) else d.
Proof.
  intros l n r c d Hw. cbn [lookup]. destruct (Nat.ltb r n); [|reflexivity].
  destruct (Nat.ltb_spec r (log_rows l)); [reflexivity|]. now apply lookup_beyond.
Qed.

(** schema_constant: no operation on a frame changes names, units, types or order of its columns *)
Theorem schema_constant : forall ops s f,
  d_frame s = Some f -> forallb (fun o => match o with FNew _ => false | _ => true end) ops = true ->
  exists f', d_frame (ffinal ops s) = Some f' /\ fr_cols f' = fr_cols f.
Proof.
  induction ops as [|o ops IH]; intros s f Hf Hn; cbn [ffinal].
  - exists f. auto.
  - cbn [forallb] in Hn. apply andb_true_iff in Hn. destruct Hn as [Ho Hn].
    assert (S1 : exists f1, d_frame (fst (fstep o s)) = Some f1 /\ fr_cols f1 = fr_cols f).
    { destruct o; try discriminate; cbn [fstep]; unfold on_frame, ask_frame; rewrite ?Hf; cbn [fst];
        try (exists f; split; [assumption|reflexivity]);
        try (exists f; split; [cbn; assumption|reflexivity]).
      - destruct (if d_ro s then _ else _); cbn; eauto.
      - destruct (bind _ _); cbn; eauto.
      - destruct (bind _ _); cbn; eauto.
      - destruct (bind _ _); cbn; eauto.
      - exists f. split; reflexivity. }
    destruct S1 as (f1 & H1 & E1). destruct (IH _ f1 H1 Hn) as (f' & H2 & E2).
    exists f'. split; [exact H2|]. now rewrite E2.
Qed.

Lemma col_name_no_ub : forall cols i w, col_name cols i <> UB w.
Proof. intros cols i w. unfold col_name. destruct (in_range _ _); [destruct (nth_error _ _)|]; discriminate. Qed.

Lemma cref_name_no_ub : forall cols c w, cref_name cols c <> UB w.
Proof. intros cols [s|i] w; cbn; [destruct (is_empty s)|]; try apply col_name_no_ub; discriminate. Qed.

Lemma colarg_name_no_ub : forall cols c w, colarg_name cols c <> UB w.
Proof. intros cols [s|i] w; cbn; [discriminate|apply col_name_no_ub]. Qed.

Lemma resolve_cells_no_ub : forall cols cells seen w, resolve_cells cols cells seen <> UB w.
Proof.
  induction cells as [|[c v] cells IH]; intros seen w H; cbn in H; [discriminate|].
  destruct (cref_name cols c) as [n|e|w0] eqn:Ec; cbn in H; try discriminate.
  - destruct (existsb _ seen); [discriminate|].
    destruct (resolve_cells cols cells (n :: seen)) eqn:E2; cbn in H; try discriminate. eapply IH; eauto.
  - eapply cref_name_no_ub; eauto.
Qed.

(** row_oob_rejected: a row at or beyond the row count is refused by every row and cell access, and a
    column slab that reaches beyond it by both column calls -- without a trace *)
Theorem row_oob_rejected : forall s f row, d_frame s = Some f -> (Z.of_nat (nrows f) <= row)%Z ->
  (forall vs, fst (fstep (FWRow row vs) s) = s /\ exists e, snd (fstep (FWRow row vs) s) = Err e) /\
  (forall cells, fst (fstep (FWCells row cells) s) = s /\ exists e, snd (fstep (FWCells row cells) s) = Err e) /\
  (exists e, snd (fstep (FRRow row) s) = Err e) /\
  (forall names, exists e, snd (fstep (FRCells row names) s) = Err e) /\
  (forall c, exists e, snd (fstep (FRCell row c) s) = Err e).
Proof.
  intros s f row Hf Hrow.
  assert (E : in_range row (nrows f) = false).
  { unfold in_range. apply andb_false_iff. right. apply Z.ltb_ge. exact Hrow. }
  assert (PC : forall cells, exists e, plan_cells (fr_cols f) (nrows f) (d_ro s) row cells = Err e).
  { intros cells. unfold plan_cells. destruct (existsb _ cells); [eexists; reflexivity|].
    destruct (is_nil cells); [eexists; reflexivity|].
    destruct (resolve_cells _ _ _) as [named|e|w] eqn:Er; cbn [bind].
    - destruct (d_ro s); [eexists; reflexivity|]. rewrite E. eexists; reflexivity.
    - eexists; reflexivity.
    - exfalso. eapply resolve_cells_no_ub; eauto. }
  repeat split.
  - cbn [fstep]. unfold on_frame. rewrite Hf. unfold plan_row. destruct (Nat.ltb _ _); cbn; [reflexivity|].
    destruct (PC (number_cells 0 vs)) as [e He]. rewrite He. reflexivity.
  - cbn [fstep]. unfold on_frame. rewrite Hf. unfold plan_row. destruct (Nat.ltb _ _); cbn; [eexists; reflexivity|].
    destruct (PC (number_cells 0 vs)) as [e He]. rewrite He. eexists; reflexivity.
  - cbn [fstep]. unfold on_frame. rewrite Hf. destruct (PC cells) as [e He]. rewrite He. reflexivity.
  - cbn [fstep]. unfold on_frame. rewrite Hf. destruct (PC cells) as [e He]. rewrite He. eexists; reflexivity.
  - cbn [fstep]. unfold ask_frame. rewrite Hf. unfold plan_read_row. rewrite E. eexists; reflexivity.
  - intros names. cbn [fstep]. unfold ask_frame. rewrite Hf. unfold plan_read_cells.
    destruct (negb _); [eexists; reflexivity|]. destruct (is_nil names); [eexists; reflexivity|].
    destruct (has_dup names); [eexists; reflexivity|]. rewrite E. eexists; reflexivity.
  - intros c. cbn [fstep]. unfold ask_frame. rewrite Hf. unfold plan_read_cell.
    destruct (colarg_name (fr_cols f) c) as [name|e|w] eqn:Ec; cbn [bind snd].
    + unfold plan_read_cells. destruct (negb _); [eexists; reflexivity|]. cbn [is_nil has_dup existsb orb].
      rewrite E. eexists; reflexivity.
    + eexists; reflexivity.
    + exfalso. eapply colarg_name_no_ub; eauto.
Qed.

(** a column slab that reaches beyond the last row is refused as well *)
Theorem column_oob_rejected : forall s f c t off cnt vs, d_frame s = Some f ->
  (0 < cnt)%Z -> (Z.of_nat (nrows f) < off + cnt)%Z ->
  fst (fstep (FWCol c t off cnt vs) s) = s /\ exists e, snd (fstep (FWCol c t off cnt vs) s) = Err e.
Proof.
  intros s f c t off cnt vs Hf Hc Hb. cbn [fstep]. unfold on_frame. rewrite Hf.
  assert (P : exists e, plan_column (fr_cols f) (nrows f) (d_ro s) c t off cnt vs = Err e).
  { unfold plan_column. destruct (colarg_name (fr_cols f) c) as [name|e|w] eqn:Ec; cbn [bind].
    - assert (Z0 : (cnt =? 0)%Z = false) by (apply Z.eqb_neq; lia). rewrite Z0.
      destruct (zlen vs <? cnt)%Z; [eexists; reflexivity|]. destruct (negb (elt_has_memtype t)); [eexists; reflexivity|].
      destruct (d_ro s); [eexists; reflexivity|].
      assert (B : (off + cnt <=? Z.of_nat (nrows f))%Z = false) by (apply Z.leb_gt; lia).
      destruct (find_col name (fr_cols f)).
      + destruct (negb (convertible _ _)); [eexists; reflexivity|]. rewrite Z0, B, andb_false_r. eexists; reflexivity.
      + rewrite Z0, B. eexists; reflexivity.
    - eexists; reflexivity.
    - exfalso. eapply colarg_name_no_ub; eauto. }
  destruct P as [e He]. rewrite He. cbn. split; [reflexivity|eexists; reflexivity].
Qed.

(** * Non-vacuity *)

Definition ex_cols : list column :=
  [ {| c_name := "a"; c_unit := "mV"; c_type := TInt32 |}; {| c_name := "s"; c_unit := ""; c_type := TString |} ].

Example frame_example :
  frun [FNew ex_cols; FRows 3; FWRow 1 [VInt32 7; VString "x"]; FWCol (ByIdx 0) TInt32 1 0 [VInt32 8; VInt32 9];
        FRRow 1; FRRow 0; FRows 2; FRows 3; FRRow 2; FRRow 3;
        FRCol (ByName "a") TInt64 None true 1 []] dfresh
  = [Ok FDone; Ok FDone; Ok FDone; Ok FDone;
     Ok (FVals [VInt32 8; VString "x"]); Ok (FVals [VInt32 0; VString ""]); Ok FDone; Ok FDone;
     Ok (FVals [VInt32 0; VString ""]); Err H5ERR;
     Ok (FVals [VInt64 8; VInt64 0])].
Proof. reflexivity. Qed.

Example spec_example :
  srun [FNew ex_cols; FRows 3; FWRow 1 [VInt32 7; VString "x"]; FRows 1; FRows 3; FRRow 1; FRRow 5] sfresh
  = [Must FDone; Must FDone; Must FDone; Must FDone; Must FDone; Must (FVals [VInt32 0; VString ""]); Reject].
Proof. reflexivity. Qed.

(** * Further routes: vector overloads of colIndex / colName, narrow element types of the column templates *)

(** colIndex(vector<string>) is colIndex(string) element by element *)
Theorem col_indices_spec : forall cols names,
  (forall l, col_indices cols names = Ok l -> Forall2 (fun n i => find_col n cols = Some (Z.to_nat i) /\ (0 <= i)%Z) names l) /\
  ((exists n, In n names /\ find_col n cols = None) -> col_indices cols names = Err H5EXC).
Proof.
  intros cols names. split.
  - induction names as [|n names IH]; intros l H; cbn in H.
    + inversion H. constructor.
    + destruct (find_col n cols) as [c|] eqn:E; [|discriminate].
      destruct (col_indices cols names) as [l0| |]; cbn in H; try discriminate. inversion H; subst.
      constructor; [|now apply IH]. rewrite Nat2Z.id. split; [exact E|lia].
  - induction names as [|n names IH]; intros (x & Hin & Hx); [contradiction|]. cbn.
    destruct (find_col n cols) as [c|] eqn:E; [|reflexivity].
    destruct Hin as [->|Hin]; [congruence|]. rewrite IH by eauto. reflexivity.
Qed.

(** colName(vector<unsigned>) is colName(unsigned) element by element *)
Theorem col_names_spec : forall cols idxs l,
  col_names cols idxs = Ok l -> Forall2 (fun i n => col_name cols i = Ok n) idxs l.
Proof.
  induction idxs as [|i idxs IH]; intros l H; cbn in H.
  - inversion H. constructor.
  - destruct (col_name cols i) as [n| |] eqn:E; cbn in H; try discriminate.
    destruct (col_names cols idxs) as [l0| |]; cbn in H; try discriminate. inversion H; subst.
    constructor; auto.
Qed.

(** writeColumn<T> with a narrow integer T is writeColumn with the 32-bit integer of the same signedness *)
Theorem write_narrow_is_carrier : forall cols nr ro c t off cnt vs lohi,
  small_range t = Some lohi ->
  plan_column cols nr ro c t off cnt vs = plan_column cols nr ro c (elt_carrier t) off cnt vs.
Proof.
  intros cols nr ro c t off cnt vs [lo hi] H. unfold plan_column.
  assert (C : elt_carrier (elt_carrier t) = elt_carrier t).
  { unfold elt_carrier at 2 3. rewrite H. destruct (lo <? 0)%Z; reflexivity. }
  assert (F : is_float_elt t = false).
  { destruct t; cbn in *; try discriminate.
    destruct (String.eqb name "Float") eqn:E; [|reflexivity]. apply String.eqb_eq in E. subst. discriminate. }
  assert (F2 : is_float_elt (elt_carrier t) = false).
  { unfold elt_carrier. rewrite H. destruct (lo <? 0)%Z; reflexivity. }
  unfold elt_has_memtype. now rewrite C, F, F2.
Qed.

(** a narrow integer read back through readColumn<T> from a column that holds it is itself; whatever
    is read lies in T's range *)
Theorem conv_elt_narrow_range : forall t lo hi v v',
  small_range t = Some (lo, hi) -> (lo <= hi)%Z -> conv_elt t v = Ok v' ->
  exists z, v' = mk_int (elt_carrier t) z /\ (lo <= z <= hi)%Z.
Proof.
  intros t lo hi v v' H Hle Hc. unfold conv_elt in Hc. rewrite H in Hc.
  destruct (conv (elt_carrier t) v) as [w| |]; cbn in Hc; try discriminate.
  destruct (int_of w) as [z|]; [|discriminate]. inversion Hc; subst. eexists. split; [reflexivity|].
  destruct (Z.ltb_spec z lo); [lia|]. destruct (Z.ltb_spec hi z); lia.
Qed.

Theorem conv_elt_narrow_id : forall t lo hi z,
  small_range t = Some (lo, hi) -> (lo <= z <= hi)%Z ->
  conv_elt t (mk_int (elt_carrier t) z) = Ok (mk_int (elt_carrier t) z).
Proof.
  intros t lo hi z H Hz. unfold conv_elt. rewrite H.
  assert (C : elt_carrier t = TInt32 \/ elt_carrier t = TUInt32).
  { unfold elt_carrier. rewrite H. destruct (lo <? 0)%Z; auto. }
  destruct C as [C|C]; rewrite C; cbn [mk_int]; unfold conv, conv_gen; cbn [type_of vtype_eqb bind int_of mk_int];
    destruct (Z.ltb_spec z lo); try lia; destruct (Z.ltb_spec hi z); try lia; reflexivity.
Qed.
