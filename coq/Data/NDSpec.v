(** C01 pointwise specification (definitions only; proofs in NDProofs.v).

    Independent of any storage layout: the state is the *history* of effective primitive
    events, and the content of cell [i] is read off the history backwards:

      the value of the last write whose box contained [i], issued after the last extent
      change that excluded [i]; otherwise the type's zero / the empty string.

    The only use of row-major order is the API contract for the caller's buffer: element k of
    the buffer belongs to index [offset + unravel count k].  Type conversions are HDF5's
    (NDArr.conv_val); the calibration polynomial is evaluated in binary64 as
    sum_k c_k * x^k with x = stored - origin, powers by repeated multiplication, summed in
    increasing degree starting from 0.0. *)
From Coq Require Import List ZArith Bool String Lia.
From Flocq Require Import Core BinarySingleNaN.
Require Import NixV.Base.Prelude NixV.Base.F64 NixV.Data.NDIndex NixV.Data.NDArr.
Import ListNotations.
Local Open Scope Z_scope.

(** effective events, newest first *)
Inductive eff :=
| ECreate (sh : list Z)
| EWrite (off cnt : list Z) (vals : list V)      (* box [off, off+cnt), values in row-major order of the box *)
| EExtent (sh : list Z).

Fixpoint shape_after (h : list eff) : list Z :=
  match h with
  | [] => []
  | ECreate sh :: _ => sh
  | EExtent sh :: _ => sh
  | EWrite _ _ _ :: r => shape_after r
  end.

(** content of cell [i] (an index inside the current extent) after history [h] *)
Fixpoint cell_after (z : V) (h : list eff) (i : list Z) : V :=
  match h with
  | [] => z
  | ECreate _ :: _ => z
  | EWrite off cnt vals :: r =>
      if in_slab off cnt i then nth (Z.to_nat (ravel cnt (vsub i off))) vals z else cell_after z r i
  | EExtent _ :: r =>
      if in_box (shape_after r) i then cell_after z r i else z
  end.

Record sst := mkSst {
  s_ty : dtype;
  s_hist : list eff;
  s_poly : option (list F64);
  s_origin : option F64;
  s_mode : option mode
}.

Definition s_shape (s : sst) : list Z := shape_after (s_hist s).
Definition s_cell (s : sst) (i : list Z) : V := cell_after (zero_of (s_ty s)) (s_hist s) i.

Definition spec_start (t : dtype) (sh : list Z) : sst := mkSst t [ECreate sh] None None (Some RW).

Definition is_nil {A} (l : list A) : bool := match l with [] => true | _ => false end.

(** which region of the array an (offset, count) argument pair designates *)
Definition spec_sel (sh off cnt : list Z) : option (list Z * list Z) :=
  let rank := List.length sh in
  if (32 <? List.length cnt)%nat then None                           (* more dimensions than HDF5 has *)
  else if existsb (fun c => u64max <=? c) cnt then None              (* not a size *)
  else if is_nil off then Some (repeat 0 rank, sh)                   (* no offset: the whole array *)
  else if (List.length off <? rank)%nat then None                    (* too few entries: refused *)
  else if is_nil cnt then Some (firstn rank off, repeat 1 rank)      (* no count: one element *)
  else if (List.length cnt <? rank)%nat then None
  else Some (firstn rank off, firstn rank cnt).                      (* surplus entries are ignored ... *)

Definition spec_region (sh off cnt : list Z) : option (list Z * list Z) :=
  match spec_sel sh off cnt with
  | None => None
  | Some (foff, fcnt) =>
      (* ... but the buffer must hold exactly the region; an empty region is always legal *)
      if (prod cnt =? prod fcnt) && ((prod fcnt =? 0) || fits sh foff fcnt) then Some (foff, fcnt) else None
  end.

Definition ro_mode (s : sst) : bool := match s_mode s with Some RO => true | _ => false end.

Definition push (s : sst) (e : eff) : sst :=
  mkSst (s_ty s) (e :: s_hist s) (s_poly s) (s_origin s) (s_mode s).

(** the polynomial, one element *)
Fixpoint poly_eval (cs : list F64) (x value term : F64) : F64 :=
  match cs with
  | [] => value
  | c :: r => poly_eval r x (fadd value (fmul c term)) (fmul term x)
  end.

Definition spec_poly (cs : list F64) (origin input : F64) : F64 :=
  match cs with
  | [] => fsub input origin
  | _ => poly_eval cs (fsub input origin) f64_zero f64_one
  end.

Fixpoint mapO {A B} (f : A -> option B) (l : list A) : option (list B) :=
  match l with
  | [] => Some []
  | x :: r => match f x, mapO f r with Some y, Some ys => Some (y :: ys) | _, _ => None end
  end.

Definition to_opt {A} (r : res A) : option A := match r with Ok a => Some a | _ => None end.

Definition s_coeffs (s : sst) : list F64 := match s_poly s with Some c => c | None => [] end.
Definition s_calibrated (s : sst) : bool := negb (is_nil (s_coeffs s)) || opt_is_some (s_origin s).

(** the stored values of a region, in buffer order *)
Definition spec_region_vals (s : sst) (foff fcnt : list Z) : list V :=
  tab fcnt (fun r => s_cell s (vadd foff r)).

(** what a read of the region returns as type [dst] *)
Definition spec_read_vals (s : sst) (direct : bool) (dst : dtype) (stored : list V) : option (list V) :=
  if direct || negb (s_calibrated s) then
    if conv_ok (s_ty s) dst then mapO (fun v => to_opt (conv_val (s_ty s) dst v)) stored else None
  else
    if conv_ok (s_ty s) TDouble && conv_ok TDouble dst then
      mapO (fun v => match to_opt (conv_val (s_ty s) TDouble v) with
                     | Some d => to_opt (conv_val TDouble dst
                                   (VD (spec_poly (s_coeffs s) (match s_origin s with Some o => o | None => f64_zero end) (as_f64 d))))
                     | None => None
                     end) stored
    else None.

Definition spec_read_list (s : sst) (direct : bool) (dst : dtype) (off cnt : list Z) : option (list V) :=
  match spec_region (s_shape s) off cnt with
  | None => None
  | Some (foff, fcnt) => spec_read_vals s direct dst (spec_region_vals s foff fcnt)
  end.

Definition spec_read (s : sst) (direct : bool) (dst : dtype) (off cnt : list Z) : option obs :=
  match spec_read_list s direct dst off cnt with
  | Some vs => Some (ObsVals vs)
  | None => None
  end.

Definition spec_extent (s : sst) (sh : list Z) : option sst :=
  if negb (Nat.eqb (List.length sh) (List.length (s_shape s))) then None
  else if ro_mode s then None
  else if existsb (fun e => u64max <=? e) sh then None
  else Some (push s (EExtent sh)).

Definition spec_write (s : sst) (off cnt : list Z) (vals : list V) : option sst :=
  if negb (zlen vals =? prod cnt) then None
  else if ro_mode s then None
  else match spec_region (s_shape s) off cnt with
       | None => None
       | Some (foff, fcnt) => Some (push s (EWrite foff fcnt vals))
       end.

(** std::vector reads: at most one dimension larger than 1 *)
Definition spec_vector_size (dims : list Z) : option Z :=
  match filter (fun d => 1 <? d) dims with
  | [] => Some (nth 0 dims 0)
  | [d] => Some d
  | _ => None
  end.

(** One API call.  [None] = the call is refused.  An append / whole-array write is a resize
    followed by a write: when the resize is accepted and the write is not, the resize stays
    (whether a refused call may leave a trace is the subject of property C08, not of C01). *)
Definition spec_step (s : sst) (o : op) : sst * option obs :=
  match o with
  | OClose => (mkSst (s_ty s) (s_hist s) (s_poly s) (s_origin s) None, Some ObsUnit)
  | OOpen m => (mkSst (s_ty s) (s_hist s) (s_poly s) (s_origin s) (Some m), Some ObsUnit)
  | _ =>
    match s_mode s with
    | None => (s, None)
    | Some _ =>
      match o with
      | OWrite off cnt vals =>
          match spec_write s off cnt vals with Some s' => (s', Some ObsUnit) | None => (s, None) end
      | OWriteAll sh vals =>
          match spec_extent s sh with
          | None => (s, None)
          | Some s1 => match spec_write s1 [] sh vals with Some s2 => (s2, Some ObsUnit) | None => (s1, None) end
          end
      | OAppend axis cnt vals =>
          let ext := s_shape s in
          let ax := Z.to_nat axis in
          if (axis <? 0) || (zlen ext <=? axis) then (s, None)
          else if negb (Nat.eqb (List.length ext) (List.length cnt)) then (s, None)
          else if negb (forallb (fun j => Nat.eqb j ax || (nth j ext 0 =? nth j cnt 0)) (seq 0 (List.length cnt))) then (s, None)
          else if two64 <=? nth ax ext 0 + nth ax cnt 0 then (s, None)
          else
            match spec_extent s (set_nth ext ax (nth ax ext 0 + nth ax cnt 0)) with
            | None => (s, None)
            | Some s1 =>
                match spec_write s1 (set_nth (repeat 0 (List.length ext)) ax (nth ax ext 0)) cnt vals with
                | Some s2 => (s2, Some ObsUnit)
                | None => (s1, None)
                end
            end
      | OExtent sh =>
          match spec_extent s sh with Some s' => (s', Some ObsUnit) | None => (s, None) end
      | OShape => (s, Some (ObsShape (s_shape s)))
      | ORead direct dst off cnt =>
          (s, spec_read s direct (match dst with Some t => t | None => s_ty s end) off cnt)
      | OReadVec =>
          (s, match spec_vector_size (s_shape s) with
              | None => None
              | Some n => spec_read s false (s_ty s) [] [n]
              end)
      | OPoly p =>
          if ro_mode s then (s, None)
          else (mkSst (s_ty s) (s_hist s) p (s_origin s) (s_mode s), Some ObsUnit)
      | OOrigin x =>
          if ro_mode s then (s, None)
          else (mkSst (s_ty s) (s_hist s) (s_poly s) x (s_mode s), Some ObsUnit)
      | OCal => (s, Some (ObsCal (s_coeffs s) (s_origin s)))
      | OClose | OOpen _ => (s, None)
      end
    end
  end.

Fixpoint spec_run (s : sst) (ops : list op) : sst * list (option obs) :=
  match ops with
  | [] => (s, [])
  | o :: r => let (s1, x) := spec_step s o in let (s2, xs) := spec_run s1 r in (s2, x :: xs)
  end.

(** * Create-and-fill: a new array holding the container's values converted to the stored type, with
    exactly the container's extents - or no array at all *)
Definition spec_create_fill (elem stored : dtype) (r : route) (ext : list Z) (vals : list V) : option sst :=
  let sh := route_shape r ext in
  if Nat.eqb (List.length sh) 0 || (32 <? List.length sh)%nat then None
  else if negb (conv_ok elem stored) then None
  else match mapO (fun v => to_opt (conv_val elem stored v)) vals with
       | None => None
       | Some vs => spec_write (spec_start stored sh) (repeat 0 (List.length sh)) sh vs
       end.
