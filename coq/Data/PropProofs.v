(** C14 — proofs about the Property model (Data/Prop.v). *)
From Coq Require Import ZArith Bool String Ascii List Lia.
From Flocq Require Import BinarySingleNaN.
Require Import NixV.Base.Prelude NixV.Base.F64 NixV.Data.Prop.
Import ListNotations.
Local Open Scope string_scope.

(** * Storage-layer facts *)

Lemma vtype_eqb_refl : forall t, vtype_eqb t t = true.
Proof. destruct t; cbn; auto using String.eqb_refl. Qed.

Lemma vtype_eqb_eq : forall a b, vtype_eqb a b = true <-> a = b.
Proof.
  intros a b; split.
  - destruct a, b; cbn; intros H; try discriminate; auto; apply String.eqb_eq in H; now subst.
  - intros ->; apply vtype_eqb_refl.
Qed.

Lemma resize_length : forall A n (d : A) l, List.length (resize n d l) = n.
Proof.
  intros A n d l. unfold resize. rewrite app_length, firstn_length, repeat_length. lia.
Qed.

Lemma resize_same : forall A (d : A) l, resize (List.length l) d l = l.
Proof.
  intros A d l. unfold resize. rewrite firstn_all, Nat.sub_diag. cbn. apply app_nil_r.
Qed.

Lemma overwrite_all : forall cells vs, List.length vs = List.length cells -> overwrite cells vs = vs.
Proof.
  induction cells as [|c cells IH]; intros [|v vs] H; cbn in *; try discriminate; auto.
  f_equal. apply IH. lia.
Qed.

Lemma homogeneous_forall : forall t vs, homogeneous t vs = true <-> (forall v, In v vs -> type_of v = t).
Proof.
  intros t vs. unfold homogeneous. rewrite forallb_forall. split; intros H v Hv.
  - apply vtype_eqb_eq. auto.
  - apply vtype_eqb_eq. auto.
Qed.

Lemma homogeneous_false : forall t vs, (exists v, In v vs /\ type_of v <> t) -> homogeneous t vs = false.
Proof.
  intros t vs (v & Hin & Hne). destruct (homogeneous t vs) eqn:E; auto.
  exfalso. apply Hne. eapply homogeneous_forall; eauto.
Qed.

Lemma homogeneous_repeat : forall t n, supported t = true -> homogeneous t (repeat (default_of t) n) = true.
Proof.
  intros t n Hs. apply homogeneous_forall. intros v Hv. apply repeat_spec in Hv. subst v.
  destruct t; cbn in *; try discriminate; reflexivity.
Qed.

Lemma attr_get_set_same : forall k v a, attr_get k (attr_set k v a) = Some v.
Proof.
  intros k v a. induction a as [|[k' v'] a IH]; cbn.
  - now rewrite String.eqb_refl.
  - destruct (String.eqb k k') eqn:E; cbn; rewrite ?String.eqb_refl; auto. now rewrite E.
Qed.

Lemma attr_get_set_other : forall k k' v a, k <> k' -> attr_get k (attr_set k' v a) = attr_get k a.
Proof.
  intros k k' v a Hne. induction a as [|[k2 v2] a IH]; cbn.
  - destruct (String.eqb k k') eqn:E; auto. apply String.eqb_eq in E. contradiction.
  - destruct (String.eqb k' k2) eqn:E; cbn.
    + apply String.eqb_eq in E. subst k2.
      destruct (String.eqb k k') eqn:E2; auto. apply String.eqb_eq in E2. contradiction.
    + destruct (String.eqb k k2); auto.
Qed.

Lemma attr_get_remove_same : forall k a, attr_get k (attr_remove k a) = None.
Proof.
  intros k a. induction a as [|[k' v'] a IH]; cbn; auto.
  destruct (String.eqb k k') eqn:E; cbn; auto. now rewrite E.
Qed.

Lemma attr_get_remove_other : forall k k' a, k <> k' -> attr_get k (attr_remove k' a) = attr_get k a.
Proof.
  intros k k' a Hne. induction a as [|[k2 v2] a IH]; cbn; auto.
  destruct (String.eqb k' k2) eqn:E; cbn.
  - apply String.eqb_eq in E. subst k2.
    destruct (String.eqb k k') eqn:E2; auto. apply String.eqb_eq in E2. contradiction.
  - destruct (String.eqb k k2); auto.
Qed.

Lemma deblank_no_blank : forall s c, In c (list_ascii_of_string (deblank s)) -> is_blank c = false.
Proof.
  induction s as [|a s IH]; cbn; intros c H; [contradiction|].
  destruct (is_blank a) eqn:E; cbn in H; auto. destruct H as [<-|H]; auto.
Qed.

Lemma deblank_idem : forall s, deblank (deblank s) = deblank s.
Proof.
  induction s as [|a s IH]; cbn; auto.
  destruct (is_blank a) eqn:E; cbn; auto. now rewrite E, IH.
Qed.

(** * Abstraction to the specification state *)

Definition abs_p (ps : pstore) : aprop :=
  {| a_type := ds_type (ps_ds ps); a_vals := ds_cells (ps_ds ps);
     a_unit := get_str "unit" ps; a_unc := get_dbl "uncertainty" ps; a_def := get_str "definition" ps |}.

Definition abs (s : fstate) : astate :=
  {| a_prop := option_map abs_p (f_prop s); a_ro := f_ro s |}.

(** every stored property has one of the seven value types *)
Definition inv (s : fstate) : Prop :=
  f_leak s = None /\
  match f_prop s with Some ps => supported (ds_type (ps_ds ps)) = true | None => True end.

Lemma observe_abs : forall ps, supported (ds_type (ps_ds ps)) = true -> observe ps = aobserve (abs_p ps).
Proof.
  intros ps Hs. unfold observe, aobserve, abs_p, prop_values, prop_value_count. cbn. now rewrite Hs.
Qed.

(** a vector whose elements all have the type of its first element *)
Definition uniform (vs : list value) : bool :=
  match vs with [] => true | v0 :: _ => homogeneous (type_of v0) vs end.

(** an operation that stays inside the domain the property text describes: value vectors of one
    type, value types out of the seven *)
Definition clean_op (o : op) : bool :=
  match o with
  | NewT t => supported t
  | NewVs vs => uniform vs
  | SetVals vs => uniform vs
  | _ => true
  end.

Lemma uniform_first : forall v0 vs t, uniform (v0 :: vs) = true -> type_of v0 = t -> homogeneous t (v0 :: vs) = true.
Proof. intros v0 vs t Hu <-. exact Hu. Qed.

(** on clean operations the defect switches do not matter *)
Lemma set_values_clean : forall q ro ps vs, uniform vs = true ->
  prop_set_values q ro ps vs = prop_set_values repaired ro ps vs.
Proof.
  intros q ro ps [|v0 vs] Hu; [reflexivity|].
  unfold prop_set_values.
  destruct (vtype_eqb (type_of v0) (ds_type (ps_ds ps))) eqn:E; cbn [negb]; [|reflexivity].
  apply vtype_eqb_eq in E. rewrite (uniform_first _ _ _ Hu E). cbn [negb].
  rewrite !andb_false_r. reflexivity.
Qed.

Lemma clean_step_eq : forall q o s,
  (q_ro_unc_leak q = false \/ match o with SetUnc _ => f_ro s = false | _ => True end) ->
  clean_op o = true -> step q o s = step repaired o s.
Proof.
  intros q o s Hq Hc. destruct o; cbn in Hc; try reflexivity.
  - (* NewT *) unfold step, create_t. rewrite Hc. cbn [negb]. rewrite !andb_false_r. reflexivity.
  - (* NewV *) unfold step, create_v. destruct (create_dataset _ _); auto.
    rewrite (set_values_clean q). reflexivity. cbn. now rewrite vtype_eqb_refl.
  - (* NewVs *) unfold step, create_vs. destruct vs as [|v0 vs]; auto.
    change (homogeneous (type_of v0) (v0 :: vs)) with (uniform (v0 :: vs)). rewrite Hc. cbn [negb].
    rewrite !andb_false_r. destruct (create_dataset _ _); auto.
    now rewrite (set_values_clean q).
  - (* SetVals *) unfold step, on_prop. destruct (f_prop s); auto. now rewrite (set_values_clean q).
  - (* SetUnc *) unfold step. cbn [q_ro_unc_leak repaired]. rewrite !andb_false_r.
    destruct Hq as [Hq|Hq]; rewrite Hq; rewrite ?andb_false_r; reflexivity.
Qed.

(** the mode the file is open in after an operation *)
Definition next_ro (o : op) (ro : bool) : bool :=
  match o with NewT _ | NewV _ | NewVs _ => false | Reopen x => x | _ => ro end.

Lemma lift_ro : forall s r, f_ro (fst (lift s r)) = f_ro s.
Proof. reflexivity. Qed.

Lemma step_ro : forall q o s, f_ro (fst (step q o s)) = next_ro o (f_ro s).
Proof.
  intros q o s. destruct o; cbn [step next_ro]; try reflexivity;
    try (unfold on_prop; destruct (f_prop s); reflexivity).
  - unfold create_t. destruct (negb _ && negb _); [reflexivity|]. destruct (create_dataset _ _); reflexivity.
  - unfold create_v. destruct (create_dataset _ _); reflexivity.
  - unfold create_vs. destruct vs as [|v0 vs]; [reflexivity|]. destruct (negb _ && negb _); [reflexivity|].
    destruct (create_dataset _ _); reflexivity.
  - destruct (f_prop s) eqn:Hp; [|unfold on_prop; rewrite Hp; reflexivity].
    destruct (f_ro s && _ && _); [reflexivity|]. unfold on_prop. rewrite Hp. reflexivity.
Qed.

(** a history of clean operations that does not try to set the uncertainty while read-only *)
Fixpoint clean_hist (ro : bool) (ops : list op) : bool :=
  match ops with
  | [] => true
  | o :: r => clean_op o && (match o with SetUnc _ => negb ro | _ => true end) && clean_hist (next_ro o ro) r
  end.

(** * The single-call theorems *)

(** the outcome of [values(vs)] on a writable property whose type all of [vs] share *)
Lemma set_values_ok : forall q ps vs,
  homogeneous (ds_type (ps_ds ps)) vs = true ->
  prop_set_values q false ps vs =
  (with_ds ps {| ds_type := ds_type (ps_ds ps); ds_cells := vs |}, Ok tt).
Proof.
  intros q ps [|v0 vs] Hh.
  - reflexivity.
  - unfold prop_set_values.
    assert (E : vtype_eqb (type_of v0) (ds_type (ps_ds ps)) = true).
    { apply vtype_eqb_eq. eapply homogeneous_forall; eauto. now left. }
    rewrite E, Hh. cbn [negb]. rewrite andb_false_r.
    unfold ds_set_extent, ds_write_all. cbn [ds_cells ds_type].
    rewrite resize_length, Nat.eqb_refl, overwrite_all; [reflexivity|].
    now rewrite resize_length.
Qed.

(** values_roundtrip: every vector (any length, also empty) of the property's type is returned
    exactly, with its count, and type / unit / uncertainty / definition are untouched *)
Theorem values_roundtrip : forall q s ps vs,
  f_prop s = Some ps -> f_ro s = false ->
  supported (ds_type (ps_ds ps)) = true ->
  homogeneous (ds_type (ps_ds ps)) vs = true ->
  exists ps',
    step q (SetVals vs) s = (with_prop s ps', Ok ADone) /\
    observe ps' = {| o_type := o_type (observe ps); o_count := zlen vs; o_vals := vs;
                     o_unit := o_unit (observe ps); o_unc := o_unc (observe ps); o_def := o_def (observe ps) |}.
Proof.
  intros q s ps vs Hp Hro Hs Hh.
  eexists. split.
  - unfold step, on_prop. rewrite Hp, Hro, (set_values_ok q ps vs Hh). reflexivity.
  - unfold observe, prop_values, prop_value_count. cbn. now rewrite Hs.
Qed.

(** count_is_length: valueCount() is the length of values() for every property of a supported type *)
Theorem count_is_length : forall ps, supported (ds_type (ps_ds ps)) = true ->
  o_count (observe ps) = zlen (o_vals (observe ps)).
Proof. intros ps Hs. unfold observe, prop_values, prop_value_count. cbn. now rewrite Hs. Qed.

(** replace_shorter_longer: a second assignment of any length replaces the first completely *)
Theorem replace_shorter_longer : forall q s ps vs1 vs2,
  f_prop s = Some ps -> f_ro s = false ->
  supported (ds_type (ps_ds ps)) = true ->
  homogeneous (ds_type (ps_ds ps)) vs1 = true -> homogeneous (ds_type (ps_ds ps)) vs2 = true ->
  exists ps2,
    f_prop (final q [SetVals vs1; SetVals vs2] s) = Some ps2 /\
    o_vals (observe ps2) = vs2 /\ o_count (observe ps2) = zlen vs2.
Proof.
  intros q s ps vs1 vs2 Hp Hro Hs H1 H2.
  destruct (values_roundtrip q s ps vs1 Hp Hro Hs H1) as (ps1 & E1 & O1).
  assert (T1 : ds_type (ps_ds ps1) = ds_type (ps_ds ps)).
  { change (o_type (observe ps1) = o_type (observe ps)). now rewrite O1. }
  destruct (values_roundtrip q (with_prop s ps1) ps1 vs2 eq_refl Hro) as (ps2 & E2 & O2).
  - now rewrite T1.
  - now rewrite T1.
  - exists ps2. cbn [final]. rewrite E1. cbn [fst]. rewrite E2. cbn [fst with_prop f_prop]. rewrite O2. auto.
Qed.

(** clear: deleteValues(), values(none) and values({}) leave no value, keep type and attributes *)
Theorem clear_empties : forall q s ps o,
  f_prop s = Some ps -> f_ro s = false -> o = Clear \/ o = ClearNone \/ o = SetVals [] ->
  exists ps',
    step q o s = (with_prop s ps', Ok ADone) /\
    ds_cells (ps_ds ps') = [] /\ prop_value_count ps' = 0%Z /\ prop_values ps' = [] /\
    ds_type (ps_ds ps') = ds_type (ps_ds ps) /\ ps_attrs ps' = ps_attrs ps.
Proof.
  intros q s ps o Hp Hro Ho.
  exists (with_ds ps {| ds_type := ds_type (ps_ds ps); ds_cells := [] |}).
  split.
  - destruct Ho as [->|[->| ->]]; unfold step, on_prop; rewrite Hp, Hro; reflexivity.
  - unfold prop_value_count, prop_values. cbn. repeat split; auto. now destruct (supported _).
Qed.

(** type_mismatch_rejected: a vector with a value of another type at ANY position is refused *)
Theorem type_mismatch_rejected : forall q s ps vs,
  f_prop s = Some ps ->
  (exists v, In v vs /\ type_of v <> ds_type (ps_ds ps)) ->
  exists e, snd (step q (SetVals vs) s) = Err e.
Proof.
  intros q s ps vs Hp Hex.
  pose proof (homogeneous_false _ _ Hex) as Hh.
  unfold step, on_prop. rewrite Hp.
  destruct vs as [|v0 vs]; [destruct Hex as (v & [] & _)|].
  unfold prop_set_values.
  destruct (vtype_eqb (type_of v0) (ds_type (ps_ds ps))); cbn [negb]; [|eexists; reflexivity].
  rewrite Hh. cbn [negb]. destruct (q_resize_first q); cbn [negb andb]; [|eexists; reflexivity].
  unfold ds_set_extent. destruct (f_ro s); eexists; reflexivity.
Qed.

Lemma with_prop_same : forall s ps, f_prop s = Some ps -> with_prop s ps = s.
Proof. intros [p r l] ps H. cbn in H. subst p. reflexivity. Qed.

Lemma with_ds_same : forall ps, with_ds ps (ps_ds ps) = ps.
Proof. intros [d a]. reflexivity. Qed.

(** ... and, with the repaired order of checks, leaves no trace *)
Theorem type_mismatch_no_trace_repaired : forall s ps vs,
  f_prop s = Some ps ->
  (exists v, In v vs /\ type_of v <> ds_type (ps_ds ps)) ->
  fst (step repaired (SetVals vs) s) = s.
Proof.
  intros s ps vs Hp Hex.
  pose proof (homogeneous_false _ _ Hex) as Hh.
  unfold step, on_prop. rewrite Hp.
  destruct vs as [|v0 vs]; [destruct Hex as (v & [] & _)|].
  unfold prop_set_values. cbn [q_resize_first repaired negb andb].
  destruct (vtype_eqb (type_of v0) (ds_type (ps_ds ps))); cbn [negb]; rewrite ?Hh; cbn [negb];
    unfold lift; cbn [fst]; now apply with_prop_same.
Qed.

(** the pinned order of statements (resize, then check) does leave a trace ... *)
Theorem type_mismatch_no_trace_refuted :
  exists s vs ps, f_prop s = Some ps /\ (exists v, In v vs /\ type_of v <> ds_type (ps_ds ps)) /\
    fst (step pinned (SetVals vs) s) <> s /\
    (forall ps', f_prop (fst (step pinned (SetVals vs) s)) = Some ps' -> prop_value_count ps' <> prop_value_count ps).
Proof.
  exists (fst (step pinned (NewVs [VInt32 1; VInt32 2]) fresh)), [VInt32 5; VInt32 6; VInt32 7; VBool true].
  eexists. split; [reflexivity|]. split.
  - exists (VBool true). split; [cbn; auto|discriminate].
  - split; [discriminate|]. intros ps' H. inversion H. discriminate.
Qed.

(** ... except where the first value already has the wrong type, or the length does not change *)
Theorem type_mismatch_no_trace_partial : forall q s ps vs,
  f_prop s = Some ps ->
  (exists v, In v vs /\ type_of v <> ds_type (ps_ds ps)) ->
  (type_of (hd VNone vs) <> ds_type (ps_ds ps) \/ List.length vs = List.length (ds_cells (ps_ds ps))) ->
  fst (step q (SetVals vs) s) = s.
Proof.
  intros q s ps vs Hp Hex Hor.
  pose proof (homogeneous_false _ _ Hex) as Hh.
  unfold step, on_prop. rewrite Hp.
  destruct vs as [|v0 vs]; [destruct Hex as (v & [] & _)|].
  unfold prop_set_values. cbn [hd] in Hor.
  destruct (vtype_eqb (type_of v0) (ds_type (ps_ds ps))) eqn:E; cbn [negb].
  - rewrite Hh. cbn [negb]. destruct (q_resize_first q); cbn [negb andb].
    + destruct Hor as [Hne|Hlen]; [apply vtype_eqb_eq in E; contradiction|].
      unfold ds_set_extent. destruct (f_ro s); unfold lift; cbn [fst]; [now apply with_prop_same|].
      rewrite Hlen, resize_same.
      replace {| ds_type := ds_type (ps_ds ps); ds_cells := ds_cells (ps_ds ps) |} with (ps_ds ps)
        by (now destruct (ps_ds ps)).
      rewrite with_ds_same. now apply with_prop_same.
    + unfold lift; cbn [fst]; now apply with_prop_same.
  - unfold lift; cbn [fst]; now apply with_prop_same.
Qed.

(** attrs_roundtrip: unit (deblanked; blank-only means none), uncertainty, definition *)
Lemma get_str_set : forall ps k u, get_str k (with_attrs ps (attr_set k (AStr u) (ps_attrs ps))) = Some u.
Proof. intros. unfold get_str. cbn. now rewrite attr_get_set_same. Qed.

Theorem attrs_roundtrip : forall q s ps, f_prop s = Some ps -> f_ro s = false ->
  (forall u, exists ps', step q (SetUnit u) s = (with_prop s ps', Ok ADone) /\
     observe ps' = {| o_type := o_type (observe ps); o_count := o_count (observe ps); o_vals := o_vals (observe ps);
                      o_unit := if is_empty (deblank u) then None else Some (deblank u);
                      o_unc := o_unc (observe ps); o_def := o_def (observe ps) |}) /\
  (forall d, exists ps', step q (SetUnc d) s = (with_prop s ps', Ok ADone) /\
     observe ps' = {| o_type := o_type (observe ps); o_count := o_count (observe ps); o_vals := o_vals (observe ps);
                      o_unit := o_unit (observe ps); o_unc := Some d; o_def := o_def (observe ps) |}) /\
  (forall d, d <> "" -> exists ps', step q (SetDef d) s = (with_prop s ps', Ok ADone) /\
     observe ps' = {| o_type := o_type (observe ps); o_count := o_count (observe ps); o_vals := o_vals (observe ps);
                      o_unit := o_unit (observe ps); o_unc := o_unc (observe ps); o_def := Some d |}) /\
  (fst (step q (SetDef "") s) = s /\ snd (step q (SetDef "") s) = Err "nix::EmptyString") /\
  (exists ps', step q UnitNone s = (with_prop s ps', Ok ADone) /\ o_unit (observe ps') = None) /\
  (exists ps', step q UncNone s = (with_prop s ps', Ok ADone) /\ o_unc (observe ps') = None) /\
  (exists ps', step q DefNone s = (with_prop s ps', Ok ADone) /\ o_def (observe ps') = None).
Proof.
  intros q s ps Hp Hro. unfold step, on_prop. rewrite Hp, Hro.
  repeat split.
  - intros u. unfold prop_set_unit. destruct (is_empty (deblank u)) eqn:E; eexists; (split; [reflexivity|]);
      unfold observe, prop_values, prop_value_count, get_str, get_dbl; cbn;
      rewrite ?attr_get_remove_same, ?attr_get_set_same, ?attr_get_remove_other, ?attr_get_set_other by discriminate;
      reflexivity.
  - intros d. eexists; (split; [reflexivity|]).
    unfold observe, prop_values, prop_value_count, get_str, get_dbl; cbn;
      rewrite ?attr_get_set_same, ?attr_get_set_other by discriminate; reflexivity.
  - intros d Hd. unfold prop_set_definition. destruct d; [contradiction|]. cbn [is_empty].
    eexists; (split; [reflexivity|]).
    unfold observe, prop_values, prop_value_count, get_str, get_dbl; cbn [attr_write with_attrs ps_attrs ps_ds fst snd];
      rewrite ?attr_get_set_same, ?attr_get_set_other by discriminate; reflexivity.
  - cbn. now apply with_prop_same.
  - eexists; split; [reflexivity|]. unfold observe, get_str; cbn. now rewrite attr_get_remove_same.
  - eexists; split; [reflexivity|]. unfold observe, get_dbl; cbn. now rewrite attr_get_remove_same.
  - eexists; split; [reflexivity|]. unfold observe, get_str; cbn. now rewrite attr_get_remove_same.
Qed.

(** reopen_identity: closing and reopening (either mode) changes nothing that can be observed *)
Theorem reopen_identity : forall q s ro, f_leak s = None ->
  f_prop (fst (step q (Reopen ro) s)) = f_prop s /\
  snd (step q Obs (fst (step q (Reopen ro) s))) = snd (step q Obs s) /\
  snd (step q Count (fst (step q (Reopen ro) s))) = snd (step q Count s).
Proof.
  intros q s ro Hl. cbn. repeat split. unfold observe_in. cbn [f_leak]. now rewrite Hl.
Qed.

(** a read-only file refuses every mutator and keeps its content *)
Theorem readonly_rejects : forall q s o,
  f_ro s = true ->
  match o with NewT _ | NewV _ | NewVs _ | Reopen _ | Obs | Count
             | VEq _ _ | VGet _ _ | VGetNoneT _ | VShow _ | VSup _ | VSwap _ _ | PShow => False
             | SetUnc _ => q_ro_unc_leak q = false | _ => True end ->
  fst (step q o s) = s /\ exists e, snd (step q o s) = Err e.
Proof.
  intros q s o Hro Ho.
  destruct o; try contradiction; unfold step, on_prop;
    destruct (f_prop s) as [ps|] eqn:Hp; try (split; [reflexivity|eexists; reflexivity]); rewrite Hro.
  - (* SetVals *)
    destruct vs as [|v0 vs]; unfold prop_set_values, prop_delete_values, ds_set_extent, lift; cbn [fst snd].
    + split; [now apply with_prop_same|eexists; reflexivity].
    + destruct (negb (vtype_eqb _ _)); cbn [fst snd bind]; [split; [now apply with_prop_same|eexists; reflexivity]|].
      destruct (negb (q_resize_first q) && _); cbn [fst snd bind]; split; try (now apply with_prop_same); eexists; reflexivity.
  - split; [now apply with_prop_same|eexists; reflexivity].
  - split; [now apply with_prop_same|eexists; reflexivity].
  - unfold prop_set_unit. destruct (is_empty _); cbn; split; try (now apply with_prop_same); eexists; reflexivity.
  - cbn; split; try (now apply with_prop_same); eexists; reflexivity.
  - rewrite Ho. cbn; split; try (now apply with_prop_same); eexists; reflexivity.
  - cbn; split; try (now apply with_prop_same); eexists; reflexivity.
  - unfold prop_set_definition. destruct (is_empty _); cbn; split; try (now apply with_prop_same); eexists; reflexivity.
  - cbn; split; try (now apply with_prop_same); eexists; reflexivity.
  - (* Cmp *) split; [reflexivity|eexists; reflexivity].
Qed.

(** ... except that on the pinned tree a refused [uncertainty(d)] shows through until the file is closed *)
Theorem readonly_uncertainty_leak_refuted :
  exists ops d d', d <> d' /\
    nth 4 (run pinned ops fresh) (UB "") = Err H5ERR /\
    (exists o, nth 5 (run pinned ops fresh) (UB "") = Ok (AObs o) /\ o_unc o = Some d') /\
    (exists o, nth 7 (run pinned ops fresh) (UB "") = Ok (AObs o) /\ o_unc o = Some d).
Proof.
  exists [NewV (VBool true); SetUnc (B754_zero false); Reopen true; Obs; SetUnc (B754_infinity false); Obs; Reopen true; Obs].
  exists (B754_zero false), (B754_infinity false).
  split; [discriminate|]. cbn. repeat split; eexists; split; reflexivity.
Qed.

(** * Refinement of the specification by every history *)

Lemma abs_with_prop : forall s ps, abs (with_prop s ps) = {| a_prop := Some (abs_p ps); a_ro := f_ro s |}.
Proof. reflexivity. Qed.

Lemma abs_some : forall s ps, f_prop s = Some ps -> abs s = {| a_prop := Some (abs_p ps); a_ro := f_ro s |}.
Proof. intros s ps H. unfold abs. now rewrite H. Qed.

Lemma abs_none : forall s, f_prop s = None -> abs s = {| a_prop := None; a_ro := f_ro s |}.
Proof. intros s H. unfold abs. now rewrite H. Qed.

Lemma abs_attr_write : forall s ps (f : attrs -> attrs) (g : aprop -> aprop),
  f_prop s = Some ps -> inv s ->
  abs_p (with_attrs ps (f (ps_attrs ps))) = g (abs_p ps) ->
  inv (fst (lift s (attr_write (f_ro s) ps f))) /\
  abs (fst (lift s (attr_write (f_ro s) ps f))) = fst (aupdate (abs s) (fun p => Some (g p))) /\
  meets (snd (lift s (attr_write (f_ro s) ps f))) (snd (aupdate (abs s) (fun p => Some (g p)))).
Proof.
  intros s ps f g Hp Hi Hg. rewrite (abs_some s ps Hp). unfold aupdate, attr_write. cbn [a_prop a_ro].
  unfold inv in *. rewrite Hp in Hi.
  destruct (f_ro s) eqn:Hro; cbn [lift fst snd bind meets].
  - rewrite (with_prop_same s ps Hp). rewrite Hp, (abs_some s ps Hp), Hro. auto.
  - cbn [with_prop f_prop]. rewrite abs_with_prop, Hg, Hro. auto.
Qed.

Ltac attr_simpl :=
  unfold abs_p, get_str, get_dbl, set_unit, set_unc, set_def; cbn;
  rewrite ?attr_get_remove_same, ?attr_get_set_same, ?attr_get_remove_other, ?attr_get_set_other by discriminate;
  reflexivity.

Lemma set_values_refines : forall s ps vs, f_prop s = Some ps -> inv s ->
  let r := lift s (prop_set_values repaired (f_ro s) ps vs) in
  let x := aupdate (abs s) (fun p => if homogeneous (a_type p) vs then Some (set_vals p vs) else None) in
  inv (fst r) /\ abs (fst r) = fst x /\ meets (snd r) (snd x).
Proof.
  intros s ps vs Hp Hi. cbn zeta.
  rewrite (abs_some s ps Hp). unfold aupdate. cbn [a_prop a_ro abs_p a_type].
  pose proof Hi as Hi'. unfold inv in Hi'. rewrite Hp in Hi'.
  destruct (f_ro s) eqn:Hro.
  - (* read-only: everything is refused *)
    assert (R : fst (lift s (prop_set_values repaired true ps vs)) = s /\
                exists e, snd (lift s (prop_set_values repaired true ps vs)) = Err e).
    { pose proof (readonly_rejects repaired s (SetVals vs) Hro I) as H.
      unfold step, on_prop in H. now rewrite Hp, Hro in H. }
    destruct R as (R1 & e & R2). rewrite R1, R2. cbn [fst snd meets].
    rewrite (abs_some s ps Hp), Hro. auto.
  - destruct (homogeneous (ds_type (ps_ds ps)) vs) eqn:Hh.
    + rewrite (set_values_ok repaired ps vs Hh). cbn [lift fst snd bind meets].
      unfold inv. cbn [with_prop f_prop with_ds ps_ds ds_type]. split; [assumption|]. split; [|reflexivity].
      rewrite abs_with_prop, Hro. reflexivity.
    + destruct vs as [|v0 vs]; [discriminate|].
      unfold prop_set_values. cbn [q_resize_first repaired negb andb]. rewrite Hh. cbn [negb].
      destruct (negb (vtype_eqb (type_of v0) (ds_type (ps_ds ps)))); cbn [lift fst snd bind meets];
        rewrite (with_prop_same s ps Hp), (abs_some s ps Hp), Hro; auto.
Qed.

Lemma create_refines_ok : forall t vs cells, supported t = true -> homogeneous t vs = true ->
  let r := lift fresh (prop_set_values repaired false {| ps_ds := {| ds_type := t; ds_cells := cells |}; ps_attrs := [] |} vs) in
  inv (fst r) /\ abs (fst r) = anew t vs /\ meets (snd r) (Some ADone).
Proof.
  intros t vs cells Hs Hh. cbn zeta.
  rewrite (set_values_ok repaired {| ps_ds := {| ds_type := t; ds_cells := cells |}; ps_attrs := [] |} vs Hh).
  cbn. unfold inv. cbn. auto.
Qed.

(** one step of the repaired model against one step of the specification *)
Lemma step_refines : forall o s, inv s ->
  inv (fst (step repaired o s)) /\
  abs (fst (step repaired o s)) = fst (spec_step o (abs s)) /\
  meets (snd (step repaired o s)) (snd (spec_step o (abs s))).
Proof.
  intros o s Hi.
  destruct o; cbn [step spec_step].
  - (* NewT *)
    unfold create_t. cbn [q_accept_unholdable repaired negb andb].
    destruct (supported t) eqn:Hs; cbn [negb fst snd]; [|unfold inv; cbn; auto].
    unfold create_dataset. assert (St : storable t = true) by (destruct t; auto; discriminate). rewrite St.
    cbn. unfold inv. cbn. auto.
  - (* NewV *)
    unfold create_v, create_dataset.
    destruct (supported (type_of v)) eqn:Hs.
    + assert (St : storable (type_of v) = true) by (destruct v; auto; discriminate). rewrite St.
      apply create_refines_ok; auto. cbn. now rewrite vtype_eqb_refl.
    + destruct v; try discriminate. cbn. unfold inv. cbn. auto.
  - (* NewVs *)
    unfold create_vs. destruct vs as [|v0 vs]; [unfold inv; cbn; auto|].
    cbn [q_create_late_check repaired negb andb].
    destruct (homogeneous (type_of v0) (v0 :: vs)) eqn:Hh; cbn [negb];
      [|rewrite andb_false_r; unfold inv; cbn; auto].
    destruct (supported (type_of v0)) eqn:Hs; cbn [andb].
    + unfold create_dataset.
      assert (St : storable (type_of v0) = true) by (destruct v0; auto; discriminate). rewrite St.
      apply create_refines_ok; auto.
    + destruct v0; try discriminate. cbn. unfold inv. cbn. auto.
  - (* SetVals *)
    unfold on_prop. destruct (f_prop s) as [ps|] eqn:Hp.
    + now apply set_values_refines.
    + unfold aupdate, abs. rewrite Hp. cbn. rewrite Hp. auto.
  - (* Clear *)
    unfold on_prop. destruct (f_prop s) as [ps|] eqn:Hp.
    + pose proof (set_values_refines s ps [] Hp Hi) as H. cbn zeta in H.
      unfold prop_set_values in H. cbn [homogeneous forallb] in H. exact H.
    + unfold aupdate, abs. rewrite Hp. cbn. rewrite Hp. auto.
  - (* ClearNone *)
    unfold on_prop. destruct (f_prop s) as [ps|] eqn:Hp.
    + pose proof (set_values_refines s ps [] Hp Hi) as H. cbn zeta in H.
      unfold prop_set_values in H. cbn [homogeneous forallb] in H. exact H.
    + unfold aupdate, abs. rewrite Hp. cbn. rewrite Hp. auto.
  - (* SetUnit *)
    unfold on_prop. destruct (f_prop s) as [ps|] eqn:Hp.
    + unfold prop_set_unit. destruct (is_empty (deblank s0)) eqn:E.
      * apply (abs_attr_write s ps _ (fun p => set_unit p None)); auto. attr_simpl.
      * apply (abs_attr_write s ps _ (fun p => set_unit p (Some (deblank s0)))); auto. attr_simpl.
    + unfold aupdate, abs. rewrite Hp. cbn. rewrite Hp. auto.
  - (* UnitNone *)
    unfold on_prop. destruct (f_prop s) as [ps|] eqn:Hp.
    + apply (abs_attr_write s ps _ (fun p => set_unit p None)); auto. attr_simpl.
    + unfold aupdate, abs. rewrite Hp. cbn. rewrite Hp. auto.
  - (* SetUnc *)
    cbn [q_ro_unc_leak repaired]. rewrite andb_false_r. cbn [andb].
    destruct (f_prop s) as [ps|] eqn:Hp; unfold on_prop; rewrite Hp.
    + apply (abs_attr_write s ps _ (fun p => set_unc p (Some d))); auto. attr_simpl.
    + unfold aupdate, abs. rewrite Hp. cbn. rewrite Hp. auto.
  - (* UncNone *)
    unfold on_prop. destruct (f_prop s) as [ps|] eqn:Hp.
    + apply (abs_attr_write s ps _ (fun p => set_unc p None)); auto. attr_simpl.
    + unfold aupdate, abs. rewrite Hp. cbn. rewrite Hp. auto.
  - (* SetDef *)
    unfold on_prop. destruct (f_prop s) as [ps|] eqn:Hp.
    + unfold prop_set_definition. destruct (is_empty s0) eqn:E.
      * rewrite (abs_some s ps Hp). unfold aupdate. cbn [a_prop a_ro lift fst snd bind].
        rewrite (with_prop_same s ps Hp), (abs_some s ps Hp). destruct (f_ro s) eqn:Hro; cbn; auto.
      * apply (abs_attr_write s ps _ (fun p => set_def p (Some s0))); auto. attr_simpl.
    + unfold aupdate, abs. rewrite Hp. cbn. rewrite Hp. destruct (is_empty s0); auto.
  - (* DefNone *)
    unfold on_prop. destruct (f_prop s) as [ps|] eqn:Hp.
    + apply (abs_attr_write s ps _ (fun p => set_def p None)); auto. attr_simpl.
    + unfold aupdate, abs. rewrite Hp. cbn. rewrite Hp. auto.
  - (* Reopen *)
    cbn [fst snd]. destruct Hi as [Hl Hs]. split; [split; [reflexivity|exact Hs]|]. split; [reflexivity|].
    unfold abs. cbn. destruct (f_prop s); reflexivity.
  - (* Obs *)
    cbn [fst snd]. split; [assumption|]. split; [reflexivity|].
    destruct Hi as [Hl Hs]. unfold abs. destruct (f_prop s) as [ps|]; cbn; auto.
    unfold observe_in. rewrite Hl. now rewrite observe_abs.
  - (* Count *)
    cbn [fst snd]. split; [assumption|]. split; [reflexivity|].
    unfold abs in *. destruct (f_prop s) as [ps|]; cbn; auto.
  - (* VEq *) cbn. auto.
  - (* VGet *) cbn [fst snd]. split; [assumption|]. split; [reflexivity|].
    unfold variant_get. destruct (vtype_eqb (type_of v) t); cbn; auto.
  - (* VGetNoneT *) cbn. auto.
  - (* VShow *) cbn [fst snd pure_answer meets]. auto.
  - (* VSup *) cbn. auto.
  - (* VSwap *) cbn. auto.
  - (* Cmp *) cbn [fst snd]. split; [assumption|]. split; [reflexivity|].
    unfold abs. destruct (f_prop s); cbn; auto. destruct (f_ro s); cbn; auto.
  - (* PShow *) cbn [fst snd]. split; [assumption|]. split; [reflexivity|].
    unfold abs. destruct (f_prop s); cbn; auto.
Qed.

(** history_refines: for EVERY list of operations (creations, assignments, replacements, clears,
    attribute changes, reopen in either mode, also the malformed ones) the repaired model answers
    every line as the specification demands *)
Theorem history_refines : forall ops s, inv s ->
  Forall2 meets (run repaired ops s) (spec_run ops (abs s)).
Proof.
  induction ops as [|o ops IH]; intros s Hi; cbn [run spec_run]; [constructor|].
  destruct (step_refines o s Hi) as (Hi' & Ha & Hm).
  destruct (step repaired o s) as [s' r]. destruct (spec_step o (abs s)) as [a' x].
  cbn [fst snd] in *. constructor; [exact Hm|]. rewrite <- Ha. now apply IH.
Qed.

(** with the pinned order of statements the same holds for every history of clean operations
    (vectors of one type, value types out of the seven), whatever the switches *)
Theorem history_refines_partial : forall q ops s, inv s -> clean_hist (f_ro s) ops = true ->
  Forall2 meets (run q ops s) (spec_run ops (abs s)).
Proof.
  intros q ops s Hi Hc.
  assert (E : forall ops s, clean_hist (f_ro s) ops = true -> run q ops s = run repaired ops s).
  { clear. induction ops as [|o ops IH]; intros s Hc; cbn [clean_hist run] in *; auto.
    apply andb_true_iff in Hc. destruct Hc as [H12 H3]. apply andb_true_iff in H12. destruct H12 as [H1 H2].
    assert (Es : step q o s = step repaired o s).
    { apply clean_step_eq; auto. right. destruct o; auto. now destruct (f_ro s). }
    rewrite Es. pose proof (step_ro repaired o s) as Hr.
    destruct (step repaired o s) as [s' r]. cbn [fst] in Hr. rewrite IH; [reflexivity|]. now rewrite Hr. }
  rewrite E by assumption. now apply history_refines.
Qed.

(** ... and fails without that restriction: the witness history *)
Theorem history_refines_refuted :
  exists ops, ~ Forall2 meets (run pinned ops fresh) (spec_run ops (abs fresh)).
Proof.
  exists [NewVs [VInt32 1; VInt32 2]; SetVals [VInt32 5; VInt32 6; VInt32 7; VBool true]; Count].
  intros H. cbn in H.
  inversion H as [|? ? ? ? _ H1]; subst. inversion H1 as [|? ? ? ? _ H2]; subst.
  inversion H2 as [|? ? ? ? H3 _]; subst. cbn in H3. discriminate.
Qed.

(** * The specification says "last assigned" *)

Fixpoint spec_final (ops : list op) (a : astate) : astate :=
  match ops with
  | [] => a
  | o :: r => spec_final r (fst (spec_step o a))
  end.

(** an operation that assigns no values and creates nothing *)
Definition keeps_values (o : op) : bool :=
  match o with NewT _ | NewV _ | NewVs _ | SetVals _ | Clear | ClearNone => false | _ => true end.

Lemma spec_keeps_values : forall o a, keeps_values o = true ->
  option_map a_vals (a_prop (fst (spec_step o a))) = option_map a_vals (a_prop a) /\
  option_map a_type (a_prop (fst (spec_step o a))) = option_map a_type (a_prop a).
Proof.
  intros o a Hk. destruct o; try discriminate; cbn [spec_step]; auto;
    unfold aupdate; destruct (a_prop a) as [p|] eqn:Hp; cbn; rewrite ?Hp; auto;
    destruct (a_ro a); cbn; rewrite ?Hp; auto.
  destruct (is_empty s); cbn; rewrite ?Hp; auto.
Qed.

(** after an accepted assignment, whatever non-assigning operations follow (attribute changes,
    rejected calls, reopen in any mode, reads), the specification's values are exactly that vector *)
Theorem spec_last_assigned : forall vs ops a p,
  a_prop a = Some p -> a_ro a = false -> homogeneous (a_type p) vs = true ->
  forallb keeps_values ops = true ->
  option_map a_vals (a_prop (spec_final (SetVals vs :: ops) a)) = Some vs.
Proof.
  intros vs ops a p Hp Hro Hh Hk. cbn [spec_final spec_step]. unfold aupdate. rewrite Hp, Hro, Hh. cbn [fst].
  set (a1 := {| a_prop := Some (set_vals p vs); a_ro := false |}).
  assert (G : forall ops a, forallb keeps_values ops = true ->
              option_map a_vals (a_prop (spec_final ops a)) = option_map a_vals (a_prop a)).
  { clear. induction ops as [|o ops IH]; intros a Hk; cbn in *; auto.
    apply andb_true_iff in Hk. destruct Hk as [H1 H2]. rewrite IH by assumption.
    now apply spec_keeps_values. }
  rewrite G by assumption. reflexivity.
Qed.

(** * Non-vacuity *)

Example roundtrip_example :
  run pinned [NewT TInt64; SetVals [VInt64 (-9223372036854775808); VInt64 9223372036854775807]; SetUnit " m V "; Reopen true; Count; SetVals []; Count] fresh
  = [Ok ADone; Ok ADone; Ok ADone; Ok ADone; Ok (ACount 2); Err H5ERR; Ok (ACount 2)].
Proof. reflexivity. Qed.

Example unit_example :
  exists ps, f_prop (final pinned [NewV (VString "x"); SetUnit " m V "] fresh) = Some ps /\ o_unit (observe ps) = Some "mV".
Proof. eexists. split; reflexivity. Qed.

(** * Further routes: the Variant value class and Property::compare *)

Theorem variant_eqb_type : forall a b, variant_eqb a b = true -> type_of a = type_of b.
Proof.
  intros a b. destruct a as [x|x|x|x|x|x|x|], b as [y|y|y|y|y|y|y|]; cbn [variant_eqb type_of]; intros; try discriminate; reflexivity.
Qed.

(** apart from doubles (NaN <> NaN, -0.0 == 0.0 as in C++) == is equality of the carried value *)
Theorem variant_eqb_eq : forall a b, (forall d, a <> VDouble d) -> (variant_eqb a b = true <-> a = b).
Proof.
  intros a b Hd. split.
  - destruct a as [x|x|x|x|x|x|x|], b as [y|y|y|y|y|y|y|]; cbn [variant_eqb]; intros H; try discriminate; try reflexivity.
    + apply Bool.eqb_prop in H. now subst.
    + apply Z.eqb_eq in H. now subst.
    + apply Z.eqb_eq in H. now subst.
    + apply Z.eqb_eq in H. now subst.
    + apply Z.eqb_eq in H. now subst.
    + exfalso. now apply (Hd x).
    + apply String.eqb_eq in H. now subst.
  - intros <-. destruct a as [x|x|x|x|x|x|x|]; cbn [variant_eqb]; auto using Bool.eqb_reflx, Z.eqb_refl, String.eqb_refl.
    exfalso. now apply (Hd x).
Qed.

(** get<T>() returns the carried value exactly when T is its type *)
Theorem variant_get_spec : forall t v,
  (type_of v = t -> variant_get t v = Ok v) /\ (type_of v <> t -> variant_get t v = Err INVARG).
Proof.
  intros t v. unfold variant_get. split; intros H.
  - rewrite H, vtype_eqb_refl. reflexivity.
  - destruct (vtype_eqb (type_of v) t) eqn:E; [apply vtype_eqb_eq in E; contradiction|reflexivity].
Qed.

Lemma N_compare_antisym_sign : forall x y,
  match N.compare x y with Lt => (-1)%Z | Gt => 1%Z | Eq => 0%Z end =
  (- match N.compare y x with Lt => (-1)%Z | Gt => 1%Z | Eq => 0%Z end)%Z.
Proof. intros x y. rewrite (N.compare_antisym x y). destruct (N.compare x y); reflexivity. Qed.

(** compare() is antisymmetric in its sign and 0 exactly for equal names *)
Theorem str_cmp_antisym : forall a b, str_cmp a b = (- str_cmp b a)%Z.
Proof.
  induction a as [|x a IH]; intros [|y b]; cbn; try reflexivity.
  rewrite (N.compare_antisym (N_of_ascii y) (N_of_ascii x)).
  destruct (N.compare (N_of_ascii y) (N_of_ascii x)); cbn; auto.
Qed.

Theorem str_cmp_zero : forall a b, str_cmp a b = 0%Z <-> a = b.
Proof.
  induction a as [|x a IH]; intros [|y b]; cbn; split; intros H; try discriminate; try reflexivity.
  - destruct (N.compare (N_of_ascii x) (N_of_ascii y)) eqn:E; try discriminate.
    apply N.compare_eq in E. apply (f_equal ascii_of_N) in E. rewrite !ascii_N_embedding in E. subst.
    f_equal. now apply IH.
  - inversion H; subst. rewrite N.compare_refl. now apply IH.
Qed.
