// Shared helpers for the correspondence drivers (harness/drv_*.cpp).
// Case-file syntax (DESIGN.md appendix A.1): one record per line, fields separated by one
// space; strings as s:<hex bytes>, doubles as d:<16 hex digits>, integers decimal or 0x-hex.
#ifndef NIXV_COMMON_HPP
#define NIXV_COMMON_HPP

#include <nix.hpp>
#include <hdf5/h5x/H5Exception.hpp>
#include <cstdint>
#include <cstring>
#include <cstdio>
#include <string>
#include <vector>
#include <sstream>
#include <iostream>
#include <fstream>
#include <functional>
#include <stdexcept>

namespace nixv {

inline std::vector<std::string> split(const std::string &line) {
    std::vector<std::string> out;
    std::string cur;
    for (char c : line) {
        if (c == ' ') { if (!cur.empty()) { out.push_back(cur); cur.clear(); } }
        else cur.push_back(c);
    }
    if (!cur.empty()) out.push_back(cur);
    return out;
}

inline int hexval(char c) {
    if (c >= '0' && c <= '9') return c - '0';
    if (c >= 'a' && c <= 'f') return c - 'a' + 10;
    if (c >= 'A' && c <= 'F') return c - 'A' + 10;
    throw std::logic_error("bad hex digit in case file");
}

// s:<hex>  -> bytes
inline std::string dec_str(const std::string &tok) {
    if (tok.size() < 2 || tok[0] != 's' || tok[1] != ':') throw std::logic_error("expected s:<hex> got " + tok);
    std::string out;
    for (size_t i = 2; i + 1 < tok.size(); i += 2)
        out.push_back(static_cast<char>(hexval(tok[i]) * 16 + hexval(tok[i + 1])));
    return out;
}

inline std::string enc_str(const std::string &s) {
    static const char *hx = "0123456789abcdef";
    std::string out = "s:";
    for (unsigned char c : s) { out.push_back(hx[c >> 4]); out.push_back(hx[c & 15]); }
    return out;
}

// d:<16 hex> -> double (bit pattern)
inline double dec_dbl(const std::string &tok) {
    if (tok.size() != 18 || tok[0] != 'd' || tok[1] != ':') throw std::logic_error("expected d:<16hex> got " + tok);
    uint64_t bits = 0;
    for (size_t i = 2; i < 18; i++) bits = (bits << 4) | static_cast<uint64_t>(hexval(tok[i]));
    double d;
    std::memcpy(&d, &bits, 8);
    return d;
}

inline std::string enc_dbl(double d) {
    uint64_t bits;
    std::memcpy(&bits, &d, 8);
    if (d != d) bits = 0x7ff8000000000000ULL;   // one NaN
    char buf[32];
    std::snprintf(buf, sizeof buf, "d:%016llx", static_cast<unsigned long long>(bits));
    return buf;
}

inline long long dec_int(const std::string &tok) {
    return std::stoll(tok, nullptr, 0);
}

inline unsigned long long dec_u64(const std::string &tok) {
    return std::stoull(tok, nullptr, 0);
}

// integers are printed in decimal below 2^62 and as 0x-hex from there on (both drivers agree)
inline std::string enc_u64(unsigned long long v) {
    char buf[40];
    if (v < (1ULL << 62)) std::snprintf(buf, sizeof buf, "%llu", v);
    else std::snprintf(buf, sizeof buf, "0x%llx", v);
    return buf;
}

// Map the active exception to its (most derived known) class name.
inline std::string classify() {
    try { throw; }
    catch (const nix::OutOfBounds &) { return "nix::OutOfBounds"; }
    catch (const nix::InvalidRank &) { return "nix::InvalidRank"; }
    catch (const nix::UninitializedEntity &) { return "nix::UninitializedEntity"; }
    catch (const nix::EmptyString &) { return "nix::EmptyString"; }
    catch (const nix::DuplicateName &) { return "nix::DuplicateName"; }
    catch (const nix::InvalidName &) { return "nix::InvalidName"; }
    catch (const nix::InvalidFile &) { return "nix::InvalidFile"; }
    catch (const nix::UnsortedTicks &) { return "nix::UnsortedTicks"; }
    catch (const nix::InvalidUnit &) { return "nix::InvalidUnit"; }
    catch (const nix::IncompatibleDimensions &) { return "nix::IncompatibleDimensions"; }
    catch (const nix::InvalidDimension &) { return "nix::InvalidDimension"; }
    catch (const nix::ConsistencyError &) { return "nix::ConsistencyError"; }
    catch (const nix::MissingAttr &) { return "nix::MissingAttr"; }
    catch (const nix::hdf5::H5Error &) { return "nix::hdf5::H5Error"; }
    catch (const nix::hdf5::H5Exception &) { return "nix::hdf5::H5Exception"; }
    catch (const std::out_of_range &) { return "std::out_of_range"; }
    catch (const std::invalid_argument &) { return "std::invalid_argument"; }
    catch (const std::length_error &) { return "std::length_error"; }
    catch (const std::logic_error &) { return "std::logic_error"; }
    catch (const std::runtime_error &) { return "std::runtime_error"; }
    catch (const std::bad_alloc &) { return "std::bad_alloc"; }
    catch (const std::exception &) { return "std::exception"; }
    catch (...) { return "unknown"; }
}

// Run every line of the case file through `handle`; print "<lineno> OK ..." / "<lineno> ERR class".
// Output is flushed per line so that a sanitizer abort leaves the prefix behind.
inline int run_file(const char *path, const std::function<std::string(const std::vector<std::string> &)> &handle) {
    std::ifstream in(path);
    if (!in) { std::cerr << "cannot open " << path << std::endl; return 2; }
    std::string line;
    long n = 0;
    while (std::getline(in, line)) {
        n++;
        if (line.empty() || line[0] == '#') continue;
        std::vector<std::string> t = split(line);
        if (t.empty()) continue;
        std::string out;
        try {
            out = "OK " + handle(t);
        } catch (const std::logic_error &e) {
            // driver-level parse errors are logic_error("bad ...") thrown by the helpers above;
            // library exceptions derived from logic_error are classified normally
            std::string cls = classify();
            out = "ERR " + cls;
        } catch (...) {
            out = "ERR " + classify();
        }
        std::cout << n << " " << out << "\n" << std::flush;
    }
    return 0;
}

} // namespace nixv
#endif
