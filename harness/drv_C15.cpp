// C15 correspondence driver: DataFrame row / cell / column access over the public API.
// A case is a history on a fresh file (block "b", data frame "df"); its first line is `new`.
//   new <k> (<name s:hex> <unit s:hex> <Type>)*k      Block::createDataFrame("df", "t", columns)
//   rows <n> | nrows | schema
//   wrow <row> <n> <value>*n                           writeRow(row, values)
//   wcells_n <row> <k> (<name s:hex> <value>)*k        writeCells(row, {Cell(name, v)...})
//   wcells_i <row> <k> (<col> <value>)*k               writeCells(row, {Cell(col, v)...})
//        both may carry a route suffix, e.g. wcells_i:presized -- how the std::vector<Cell> is put together:
//        brace | assign | presized | reverse | rotate | swap | erase | insert | copy | move  (same request, see build_cells)
//   wcell <row> <col> <value>                          writeCell(row, col, v)
//   wcol_n <name s:hex> <T> <offset> <count> <n> <value>*n     writeColumn<T>(name, vals, offset, count)
//   wcol_i <col> <T> <offset> <count> <n> <value>*n            writeColumn<T>(col, vals, offset, count)
//   rrow <row>                                         -> [ values ]
//   rcells <row> <k> <name s:hex>*k                    -> [ (col name value)* ]
//   rcell_n <row> <name s:hex> | rcell_i <row> <col>   -> col name value
//   rcol_n <name> <T> <resize 0|1> <offset> <presize>  readColumn<T>(name, vals(presize), resize, offset)  -> [ values ]
//   rcol_i <col> <T> <resize> <offset> <presize>
//   rcolc_n <name> <T> <count> <resize> <offset> <presize>   the overload with an explicit count
//   rcolc_i <col> <T> <count> <resize> <offset> <presize>
//   colidx <name s:hex> | colname <col> | colidxs <k> <name>*k | colnames <k> <col>*k      (scalar and vector overloads)
//   reopen ro|rw
// value tokens: b:0|1  i32:<dec>  u32:<dec>  i64:<dec>  u64:<dec>  d:<16 hex>  s:<hex>  none
// T: Int32 UInt32 Int64 UInt64 Double String, and the further element types Hydra accepts: Int8 Int16 UInt8 UInt16 Float
// Char (std::vector<bool> has no contiguous storage, the template does not compile for it).  Mutating lines answer "done".
#include "common.hpp"
#include <hdf5.h>
#include <algorithm>

using namespace nixv;

static std::string workdir;
static nix::File file;
static nix::Block block;
static nix::DataFrame df;            // the handle the current line goes through (see select_handle)
// HANDLE ROUTES: the one frame is reached through several LIVE handles; a line may start with @<h>:
//   @c  the handle createDataFrame returned (after a reopen: the first one fetched)          [default]
//   @k  a second handle fetched by name right after creation / reopen and kept
//   @i  a kept handle fetched by id            @g  a kept handle fetched through a nix::Group that references the frame
//   @f  a fresh handle by name for this line   @x  a fresh handle by index       @y  a fresh handle through the Group
// Every kept handle has answered rows() once when it was fetched ("peeked"), so a handle that remembers anything
// about the frame shows it as soon as another handle changes the frame.  The model has one frame.
static nix::DataFrame h_main, h_kept, h_id, h_group;
static nix::Group grp;
static int fileno_ = 0;
static std::string path;

static nix::DataType dec_type(const std::string &t) {
    if (t == "Bool") return nix::DataType::Bool;
    if (t == "Int32") return nix::DataType::Int32;
    if (t == "UInt32") return nix::DataType::UInt32;
    if (t == "Int64") return nix::DataType::Int64;
    if (t == "UInt64") return nix::DataType::UInt64;
    if (t == "Double") return nix::DataType::Double;
    if (t == "String") return nix::DataType::String;
    if (t == "Int8") return nix::DataType::Int8;
    if (t == "Int16") return nix::DataType::Int16;
    if (t == "UInt8") return nix::DataType::UInt8;
    if (t == "UInt16") return nix::DataType::UInt16;
    if (t == "Float") return nix::DataType::Float;
    if (t == "Char") return nix::DataType::Char;
    if (t == "Nothing") return nix::DataType::Nothing;
    if (t == "Opaque") return nix::DataType::Opaque;
    throw std::logic_error("bad type " + t);
}

static std::string enc_type(nix::DataType t) {
    switch (t) {
    case nix::DataType::Bool: return "Bool";
    case nix::DataType::Int32: return "Int32";
    case nix::DataType::UInt32: return "UInt32";
    case nix::DataType::Int64: return "Int64";
    case nix::DataType::UInt64: return "UInt64";
    case nix::DataType::Double: return "Double";
    case nix::DataType::String: return "String";
    case nix::DataType::Int8: return "Int8";
    case nix::DataType::Int16: return "Int16";
    case nix::DataType::UInt8: return "UInt8";
    case nix::DataType::UInt16: return "UInt16";
    case nix::DataType::Float: return "Float";
    case nix::DataType::Char: return "Char";
    case nix::DataType::Nothing: return "Nothing";
    case nix::DataType::Opaque: return "Opaque";
    }
    return "?";
}

static nix::Variant dec_val(const std::string &t) {
    if (t == "none") return nix::Variant();
    size_t c = t.find(':');
    if (c == std::string::npos) throw std::logic_error("bad value " + t);
    std::string k = t.substr(0, c), r = t.substr(c + 1);
    if (k == "b") return nix::Variant(r == "1");
    if (k == "i32") return nix::Variant(static_cast<int32_t>(std::stoll(r)));
    if (k == "u32") return nix::Variant(static_cast<uint32_t>(std::stoull(r)));
    if (k == "i64") return nix::Variant(static_cast<int64_t>(std::stoll(r)));
    if (k == "u64") return nix::Variant(static_cast<uint64_t>(std::stoull(r)));
    if (k == "d") return nix::Variant(dec_dbl(t));
    if (k == "s") return nix::Variant(dec_str(t));
    throw std::logic_error("bad value " + t);
}

static std::string enc_val(const nix::Variant &v) {
    switch (v.type()) {
    case nix::DataType::Bool: return std::string("b:") + (v.get<bool>() ? "1" : "0");
    case nix::DataType::Int32: return "i32:" + std::to_string(v.get<int32_t>());
    case nix::DataType::UInt32: return "u32:" + std::to_string(v.get<uint32_t>());
    case nix::DataType::Int64: return "i64:" + std::to_string(v.get<int64_t>());
    case nix::DataType::UInt64: return "u64:" + std::to_string(v.get<uint64_t>());
    case nix::DataType::Double: return enc_dbl(v.get<double>());
    case nix::DataType::String: return enc_str(v.get<std::string>());
    case nix::DataType::Nothing: return "none";
    default: return "?";
    }
}

// element codecs of the column templates: one value token <-> one element of type T.  Besides the six element types a
// Variant can hold, the templates accept every type Hydra knows: int8/int16/uint8/uint16 (tokens i8: i16: u8: u16:),
// float (f:<8 hex>, bit pattern) and char (c:<dec>).
static std::string tok_body(const std::string &t, const char *pfx) {
    size_t n = std::strlen(pfx);
    if (t.compare(0, n, pfx) != 0) throw std::logic_error(std::string("bad element token, expected ") + pfx + " got " + t);
    return t.substr(n);
}
template<typename T> struct elt;
template<> struct elt<int32_t> { static int32_t dec(const std::string &t) { return static_cast<int32_t>(std::stoll(tok_body(t, "i32:"))); }
                                 static std::string enc(int32_t x) { return "i32:" + std::to_string(x); } };
template<> struct elt<uint32_t> { static uint32_t dec(const std::string &t) { return static_cast<uint32_t>(std::stoull(tok_body(t, "u32:"))); }
                                  static std::string enc(uint32_t x) { return "u32:" + std::to_string(x); } };
template<> struct elt<int64_t> { static int64_t dec(const std::string &t) { return static_cast<int64_t>(std::stoll(tok_body(t, "i64:"))); }
                                 static std::string enc(int64_t x) { return "i64:" + std::to_string(x); } };
template<> struct elt<uint64_t> { static uint64_t dec(const std::string &t) { return static_cast<uint64_t>(std::stoull(tok_body(t, "u64:"))); }
                                  static std::string enc(uint64_t x) { return "u64:" + std::to_string(x); } };
template<> struct elt<double> { static double dec(const std::string &t) { return dec_dbl(t); }
                                static std::string enc(double x) { return enc_dbl(x); } };
template<> struct elt<std::string> { static std::string dec(const std::string &t) { return dec_str(t); }
                                     static std::string enc(const std::string &x) { return enc_str(x); } };
template<> struct elt<int8_t> { static int8_t dec(const std::string &t) { return static_cast<int8_t>(std::stoll(tok_body(t, "i8:"))); }
                                static std::string enc(int8_t x) { return "i8:" + std::to_string(static_cast<int>(x)); } };
template<> struct elt<int16_t> { static int16_t dec(const std::string &t) { return static_cast<int16_t>(std::stoll(tok_body(t, "i16:"))); }
                                 static std::string enc(int16_t x) { return "i16:" + std::to_string(x); } };
template<> struct elt<uint8_t> { static uint8_t dec(const std::string &t) { return static_cast<uint8_t>(std::stoull(tok_body(t, "u8:"))); }
                                 static std::string enc(uint8_t x) { return "u8:" + std::to_string(static_cast<unsigned>(x)); } };
template<> struct elt<uint16_t> { static uint16_t dec(const std::string &t) { return static_cast<uint16_t>(std::stoull(tok_body(t, "u16:"))); }
                                  static std::string enc(uint16_t x) { return "u16:" + std::to_string(x); } };
template<> struct elt<char> { static char dec(const std::string &t) { return static_cast<char>(std::stoll(tok_body(t, "c:"))); }
                              static std::string enc(char x) { return "c:" + std::to_string(static_cast<int>(x)); } };
template<> struct elt<float> {
    static float dec(const std::string &t) {
        std::string h = tok_body(t, "f:");
        if (h.size() != 8) throw std::logic_error("expected f:<8hex> got " + t);
        uint32_t bits = static_cast<uint32_t>(std::stoul(h, nullptr, 16));
        float f; std::memcpy(&f, &bits, 4); return f;
    }
    static std::string enc(float x) {
        uint32_t bits; std::memcpy(&bits, &x, 4);
        if (x != x) bits = 0x7fc00000u;            // one NaN
        char buf[16]; std::snprintf(buf, sizeof buf, "f:%08x", bits); return buf;
    }
};

// the vector the caller hands in: values of type T, given as value tokens of exactly that type
template<typename T>
static std::vector<T> dec_vec(const std::vector<std::string> &t, size_t at) {
    size_t n = static_cast<size_t>(dec_u64(t.at(at)));
    if (t.size() != at + 1 + n) throw std::logic_error("bad value count");
    std::vector<T> out;
    for (size_t i = 0; i < n; i++) out.push_back(elt<T>::dec(t[at + 1 + i]));
    return out;
}

template<typename T>
static std::string enc_vec(const std::vector<T> &v) {
    std::string o = "[";
    for (const T &x : v) o += " " + elt<T>::enc(x);
    return o + " ]";
}

// prefill value of the caller's vector for reads (so that untouched elements are visible)
template<typename T> static T prefill() { return static_cast<T>(77); }
template<> std::string prefill<std::string>() { return "~"; }

template<typename T>
static std::string wcol(bool byname, const std::vector<std::string> &t) {
    std::vector<T> vals = dec_vec<T>(t, 5);
    nix::ndsize_t off = dec_u64(t.at(3)), cnt = dec_u64(t.at(4));
    if (byname) df.writeColumn(dec_str(t.at(1)), vals, off, cnt);
    else df.writeColumn(static_cast<unsigned>(dec_u64(t.at(1))), vals, off, cnt);
    return "done";
}

template<typename T>
static std::string rcol(bool byname, bool withcount, const std::vector<std::string> &t) {
    size_t a = 3;
    size_t count = 0;
    if (withcount) { count = static_cast<size_t>(dec_u64(t.at(a))); a++; }
    bool resize = t.at(a) == "1";
    nix::ndsize_t off = dec_u64(t.at(a + 1));
    size_t presize = static_cast<size_t>(dec_u64(t.at(a + 2)));
    std::vector<T> vals(presize, prefill<T>());
    if (byname) {
        std::string name = dec_str(t.at(1));
        if (withcount) df.readColumn(name, vals, count, resize, off); else df.readColumn(name, vals, resize, off);
    } else {
        unsigned col = static_cast<unsigned>(dec_u64(t.at(1)));
        if (withcount) df.readColumn(col, vals, count, resize, off); else df.readColumn(col, vals, resize, off);
    }
    return enc_vec(vals);
}

#define DISPATCH(T, CALL) \
    (T == "Int32" ? CALL(int32_t) : T == "UInt32" ? CALL(uint32_t) : T == "Int64" ? CALL(int64_t) : \
     T == "UInt64" ? CALL(uint64_t) : T == "Double" ? CALL(double) : T == "String" ? CALL(std::string) : \
     T == "Int8" ? CALL(int8_t) : T == "Int16" ? CALL(int16_t) : T == "UInt8" ? CALL(uint8_t) : \
     T == "UInt16" ? CALL(uint16_t) : T == "Float" ? CALL(float) : T == "Char" ? CALL(char) : \
     throw std::logic_error("bad element type " + T))

static std::string enc_cell(const nix::Cell &c) {
    return std::to_string(c.col) + " " + enc_str(c.name) + " " + enc_val(c);
}

// Cell(name, const char*) / Cell(name, const T&) / Cell(int col, const T&): the value-constructing constructors
template<typename K>
static nix::Cell typed_cell(const K &key, const nix::Variant &v) {
    switch (v.type()) {
    case nix::DataType::Bool: return nix::Cell(key, v.get<bool>());
    case nix::DataType::Int32: return nix::Cell(key, v.get<int32_t>());
    case nix::DataType::UInt32: return nix::Cell(key, v.get<uint32_t>());
    case nix::DataType::Int64: return nix::Cell(key, v.get<int64_t>());
    case nix::DataType::UInt64: return nix::Cell(key, v.get<uint64_t>());
    case nix::DataType::Double: return nix::Cell(key, v.get<double>());
    case nix::DataType::String: return nix::Cell(key, v.get<std::string>());
    default: throw std::logic_error("typed cell of an empty Variant");
    }
}
// a string cell by name through the const char* overload
static nix::Cell typed_cell(const std::string &name, const nix::Variant &v) {
    if (v.type() == nix::DataType::String) { std::string s = v.get<std::string>(); return nix::Cell(name, s.c_str()); }
    return typed_cell<std::string>(name, v);
}

// The same writeCells request -- the list of (column or name, value) in `want` -- handed over through different
// C++ construction routes: what arrives at writeCells must not depend on how the caller put its vector together.
static std::vector<nix::Cell> build_cells(const std::vector<nix::Cell> &want, const std::string &route) {
    const size_t k = want.size();
    if (route == "brace") return want;                                   // fresh elements, copy-constructed vector
    if (route == "assign") {                                             // one re-used Cell variable, assigned each time
        std::vector<nix::Cell> out;
        nix::Cell c;
        for (size_t i = 0; i < k; i++) { c = want[i]; out.push_back(c); }
        return out;
    }
    if (route == "presized") {                                           // pre-sized vector filled by assignment
        std::vector<nix::Cell> out(k);
        for (size_t i = 0; i < k; i++) out[i] = nix::Cell(want[i]);
        return out;
    }
    if (route == "reverse") {                                            // built backwards, then std::reverse
        std::vector<nix::Cell> out(want.rbegin(), want.rend());
        std::reverse(out.begin(), out.end());
        return out;
    }
    if (route == "rotate") {                                             // built rotated by one, then rotated back
        std::vector<nix::Cell> out;
        for (size_t i = 0; i < k; i++) out.push_back(want[(i + 1) % (k ? k : 1)]);
        if (k > 1) std::rotate(out.begin(), out.begin() + (k - 1), out.end());
        return out;
    }
    if (route == "swap") {                                               // neighbours exchanged, then std::swap'ped back
        std::vector<nix::Cell> out(want);
        for (size_t i = 0; i + 1 < k; i += 2) { nix::Cell tmp(out[i]); out[i] = out[i + 1]; out[i + 1] = tmp; }
        for (size_t i = 0; i + 1 < k; i += 2) std::swap(out[i], out[i + 1]);
        return out;
    }
    if (route == "erase") {                                              // a leading dummy element erased again
        std::vector<nix::Cell> out;
        out.push_back(nix::Cell(7u, nix::Variant(int32_t(-1))));
        for (size_t i = 0; i < k; i++) out.push_back(want[i]);
        out.erase(out.begin());
        return out;
    }
    if (route == "insert") {                                             // the first element inserted last, at the front
        std::vector<nix::Cell> out;
        for (size_t i = 1; i < k; i++) out.push_back(want[i]);
        if (k) out.insert(out.begin(), want[0]);
        return out;
    }
    if (route == "copy") {                                               // copy constructors, then vector copy-assignment
        std::vector<nix::Cell> tmp;
        for (size_t i = 0; i < k; i++) { nix::Cell c(want[i]); tmp.push_back(c); }
        std::vector<nix::Cell> out(k);
        out = tmp;
        return out;
    }
    if (route == "move") {                                               // move constructors and move assignment
        std::vector<nix::Cell> tmp(want);
        std::vector<nix::Cell> out;
        for (size_t i = 0; i < k; i++) { nix::Cell c(std::move(tmp[i])); out.emplace_back(std::move(c)); }
        std::vector<nix::Cell> out2(k);
        for (size_t i = 0; i < k; i++) out2[i] = std::move(out[i]);
        return out2;
    }
    throw std::logic_error("bad route " + route);
}

static void drop_handles() {
    df = nix::DataFrame(); h_main = nix::DataFrame(); h_kept = nix::DataFrame(); h_id = nix::DataFrame(); h_group = nix::DataFrame();
    grp = nix::none;
}

// fetch the kept handles and let each of them look at the frame once
static void fetch_handles(bool writable) {
    h_kept = nix::DataFrame(); h_id = nix::DataFrame(); h_group = nix::DataFrame(); grp = nix::none;
    if (!h_main) return;
    try {
        h_kept = block.getDataFrame("df");
        h_id = block.getDataFrame(h_main.id());
        if (block.hasGroup("g")) grp = block.getGroup("g");
        else if (writable) { grp = block.createGroup("g", "t"); grp.addDataFrame(h_main); }
        if (grp) h_group = grp.getDataFrame("df");
        if (h_kept) (void) h_kept.rows();
        if (h_id) (void) h_id.rows();
        if (h_group) (void) h_group.rows();
    } catch (...) { }
}

static nix::DataFrame select_handle(const std::string &h) {
    if (!h_main) return nix::DataFrame();
    if (h == "c") return h_main;
    if (h == "k") return h_kept ? h_kept : h_main;
    if (h == "i") return h_id ? h_id : h_main;
    if (h == "g") return h_group ? h_group : h_main;
    if (h == "f") return block.getDataFrame("df");
    if (h == "x") return block.getDataFrame(static_cast<nix::ndsize_t>(0));
    if (h == "y") return grp ? grp.getDataFrame("df") : block.getDataFrame("df");
    throw std::logic_error("bad handle @" + h);
}

static std::string handle_cmd(const std::vector<std::string> &t);

static std::string handle(const std::vector<std::string> &t0) {
    std::vector<std::string> t(t0);
    std::string h = "c";
    if (!t.empty() && t[0].size() >= 2 && t[0][0] == '@') { h = t[0].substr(1); t.erase(t.begin()); }
    if (t.empty()) throw std::logic_error("empty command");
    if (t[0] != "new" && t[0] != "reopen") df = select_handle(h);
    std::string r = handle_cmd(t);
    return r;
}

static std::string handle_cmd(const std::vector<std::string> &t) {
    std::ostringstream o;
    const std::string &c = t[0];
    if (c == "new") {
        drop_handles(); block = nix::none;
        if (file) { try { file.close(); } catch (...) {} }
        file = nix::none;
        path = workdir + "/c15-" + std::to_string(fileno_++ % 4) + ".nix";
        file = nix::File::open(path, nix::FileMode::Overwrite);
        block = file.createBlock("b", "t");
        size_t k = static_cast<size_t>(dec_u64(t.at(1)));
        if (t.size() != 2 + 3 * k) throw std::logic_error("bad column count");
        std::vector<nix::Column> cols;
        for (size_t i = 0; i < k; i++) {
            nix::Column col;
            col.name = dec_str(t[2 + 3 * i]); col.unit = dec_str(t[3 + 3 * i]); col.dtype = dec_type(t[4 + 3 * i]);
            cols.push_back(col);
        }
        try {
            h_main = block.createDataFrame("df", "t", cols);
        } catch (...) {
            try { if (block.hasDataFrame("df")) h_main = block.getDataFrame("df"); } catch (...) {}
            df = h_main;
            throw;
        }
        df = h_main;
        fetch_handles(true);
        return "done";
    }
    if (c == "reopen") {
        drop_handles(); block = nix::none;
        if (file) file.close();
        file = nix::none;
        file = nix::File::open(path, t.at(1) == "ro" ? nix::FileMode::ReadOnly : nix::FileMode::ReadWrite);
        block = file.getBlock("b");
        if (block && block.hasDataFrame("df")) h_main = block.getDataFrame("df");
        df = h_main;
        fetch_handles(t.at(1) != "ro");
        return df ? "done" : "noframe";
    }
    if (!df) {
        if (c == "nrows" || c == "schema") return "absent";
        throw nix::UninitializedEntity();
    }
    if (c == "rows") { df.rows(dec_u64(t.at(1))); return "done"; }
    if (c == "nrows") { o << df.rows(); return o.str(); }
    if (c == "schema") {
        std::vector<nix::Column> cols = df.columns();
        o << cols.size();
        for (const nix::Column &col : cols) o << " " << enc_str(col.name) << " " << enc_str(col.unit) << " " << enc_type(col.dtype);
        return o.str();
    }
    if (c == "colidx") { o << df.colIndex(dec_str(t.at(1))); return o.str(); }
    if (c == "colidxs") {           // colIndex(vector<string>)
        size_t k = static_cast<size_t>(dec_u64(t.at(1)));
        if (t.size() != 2 + k) throw std::logic_error("bad name count");
        std::vector<std::string> names;
        for (size_t i = 0; i < k; i++) names.push_back(dec_str(t[2 + i]));
        std::vector<unsigned> r = df.colIndex(names);
        o << "[";
        for (unsigned x : r) o << " " << x;
        o << " ]";
        return o.str();
    }
    if (c == "colnames") {          // colName(vector<unsigned>)
        size_t k = static_cast<size_t>(dec_u64(t.at(1)));
        if (t.size() != 2 + k) throw std::logic_error("bad index count");
        std::vector<unsigned> idx;
        for (size_t i = 0; i < k; i++) idx.push_back(static_cast<unsigned>(dec_u64(t[2 + i])));
        std::vector<std::string> r = df.colName(idx);
        o << "[";
        for (const std::string &x : r) o << " " << enc_str(x);
        o << " ]";
        return o.str();
    }
    if (c == "colname") { return enc_str(df.colName(static_cast<unsigned>(dec_u64(t.at(1))))); }
    if (c == "wrow") {
        size_t n = static_cast<size_t>(dec_u64(t.at(2)));
        if (t.size() != 3 + n) throw std::logic_error("bad value count");
        std::vector<nix::Variant> vs;
        for (size_t i = 0; i < n; i++) vs.push_back(dec_val(t[3 + i]));
        df.writeRow(dec_u64(t.at(1)), vs);
        return "done";
    }
    if (c.compare(0, 8, "wcells_n") == 0 || c.compare(0, 8, "wcells_i") == 0) {
        bool byname = c[7] == 'n';
        std::string route = c.size() > 9 && c[8] == ':' ? c.substr(9) : "brace";
        // "<route>/typed": the Cells are built by the value-constructing constructors Cell(name, const char*),
        // Cell(name, const T&), Cell(int col, const T&) instead of Cell(name | unsigned, Variant)
        bool typed = false;
        size_t sl = route.find('/');
        if (sl != std::string::npos) { typed = route.substr(sl + 1) == "typed"; route = route.substr(0, sl); }
        size_t k = static_cast<size_t>(dec_u64(t.at(2)));
        if (t.size() != 3 + 2 * k) throw std::logic_error("bad cell count");
        std::vector<nix::Cell> want;               // the request, every element freshly constructed
        for (size_t i = 0; i < k; i++) {
            nix::Variant v = dec_val(t[4 + 2 * i]);
            if (typed && v.type() != nix::DataType::Nothing) {
                if (byname) want.push_back(typed_cell(dec_str(t[3 + 2 * i]), v));
                else want.push_back(typed_cell(static_cast<int>(dec_u64(t[3 + 2 * i])), v));
            }
            else if (byname) want.push_back(nix::Cell(dec_str(t[3 + 2 * i]), v));
            else want.push_back(nix::Cell(static_cast<unsigned>(dec_u64(t[3 + 2 * i])), v));
        }
        df.writeCells(dec_u64(t.at(1)), build_cells(want, route));
        return "done";
    }
    if (c == "wcell") { df.writeCell(dec_u64(t.at(1)), static_cast<unsigned>(dec_u64(t.at(2))), dec_val(t.at(3))); return "done"; }
    if (c == "wcol_n" || c == "wcol_i") {
        const std::string &T = t.at(2);
        bool byname = c == "wcol_n";
#define WC(X) wcol<X>(byname, t)
        return DISPATCH(T, WC);
    }
    if (c == "rrow") {
        std::vector<nix::Variant> vs = df.readRow(dec_u64(t.at(1)));
        o << "[";
        for (const nix::Variant &v : vs) o << " " << enc_val(v);
        o << " ]";
        return o.str();
    }
    if (c == "rcells") {
        size_t k = static_cast<size_t>(dec_u64(t.at(2)));
        if (t.size() != 3 + k) throw std::logic_error("bad name count");
        std::vector<std::string> names;
        for (size_t i = 0; i < k; i++) names.push_back(dec_str(t[3 + i]));
        std::vector<nix::Cell> got = df.readCells(dec_u64(t.at(1)), names);
        // what the caller sees must survive copying, moving and assigning the returned cells
        std::vector<nix::Cell> cells(got.size());
        for (size_t i = 0; i < got.size(); i++) {
            nix::Cell a(got[i]);
            nix::Cell b(std::move(a));
            if (i % 2) cells[i] = b; else cells[i] = std::move(b);
        }
        o << "[";
        for (const nix::Cell &cell : cells) o << " " << enc_cell(cell);
        o << " ]";
        return o.str();
    }
    if (c == "rcell_n") return enc_cell(df.readCell(dec_u64(t.at(1)), dec_str(t.at(2))));
    if (c == "rcell_i") return enc_cell(df.readCell(dec_u64(t.at(1)), static_cast<unsigned>(dec_u64(t.at(2)))));
    if (c == "rcol_n" || c == "rcol_i" || c == "rcolc_n" || c == "rcolc_i") {
        const std::string &T = t.at(2);
        bool byname = c == "rcol_n" || c == "rcolc_n";
        bool withcount = c == "rcolc_n" || c == "rcolc_i";
#define RC(X) rcol<X>(byname, withcount, t)
        return DISPATCH(T, RC);
    }
    throw std::logic_error("bad command " + c);
}

int main(int argc, char **argv) {
    if (argc < 3) { std::cerr << "usage: drv_C15 <casefile> <workdir>\n"; return 2; }
    workdir = argv[2];
    H5Eset_auto2(H5E_DEFAULT, nullptr, nullptr);
    return run_file(argv[1], handle);
}
