// C08 implementation driver: the script interpreter of hist_common.hpp (see there for the language).
#include "hist_common.hpp"
int main(int argc, char **argv) {
    if (argc < 3) { std::cerr << "usage: drv_C08 <casefile> <workdir>\n"; return 2; }
    return nixv::hist::run(argv[1], argv[2]);
}
