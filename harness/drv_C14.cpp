// C14 correspondence driver: metadata Property values / unit / uncertainty / definition over the public API.
// A case is a history on a fresh file (section "s", property "p"); the first line of a case is one of the new_* lines.
//   new_t <type>                 createProperty("p", DataType)         type: Bool Int32 UInt32 Int64 UInt64 Double String
//                                                                      (+ Int8 Int16 UInt8 UInt16 Float Char Nothing Opaque: malformed stream)
//   new_v <value>                createProperty("p", Variant)
//   new_vs <n> <value>*n         createProperty("p", vector<Variant>)
//   set <n> <value>*n            p.values(vector)
//   clear | clear_none           p.deleteValues() | p.values(none)
//   unit s:<hex> | unit_none     p.unit(..)
//   unc d:<hex>  | unc_none      p.uncertainty(..)
//   def s:<hex>  | def_none      p.definition(..)
//   reopen ro|rw                 close the file, open it again, look section and property up again
//   obs                          -> dt=<type> n=<valueCount> v=[ <value>* ] u=<-|s:hex> e=<-|d:hex> d=<-|s:hex>
//   set / new_v / new_vs may carry a route suffix, e.g. set:retype -- how every Variant of the request is put together:
//        direct | cstr | charptr | literal | setlive | setc | retype | copy | assign | move | swap | value   (see via_route)
//   obs:alt                      the same observation through get(T&) / get<const char*>
//   veq <v1> <v2>                -> [ a==b a!=b ]            (also through nix::Value; first operand through the route)
//   vget|vgeto <v> <T>           -> [ value ]                get<T>() | get(T&); T also CStr (get<const char*>), None, NoneT
//   vstr <v>                     -> s:<hex of operator<<>    (decimal rendering of a double replaced by ?)
//   vsup <Type>                  -> [ supports_type ]
//   vswap <v1> <v2>              -> [ a b a' b' ]            after a.swap(b), after nix::swap(a, b)
//   cmp <name s:hex>             -> sign(p.compare(q)) sign(q.compare(p)) sign(p.compare(p)), or "ids" for equal names
//   pstr                         -> operator<<(Property)
//   count                        -> valueCount()          (both: "absent" when the section has no property)
// value tokens: b:0|1  i32:<dec>  u32:<dec>  i64:<dec>  u64:<dec>  d:<16 hex>  s:<hex>  none (an empty Variant)
// Mutating lines answer "done".
#include "common.hpp"
#include <hdf5.h>
#include <nix/Value.hpp>
#include <sstream>

using namespace nixv;

static std::string workdir;
static nix::File file;
static nix::Section sec;
static nix::Property prop;           // the handle the current line goes through (see select_handle)
// HANDLE ROUTES: the one property is reached through several LIVE handles; a line may start with @<h>:
//   @c  the handle createProperty returned (after a reopen: the first one fetched)   [default]
//   @k  a second handle fetched by name right after creation / reopen and kept        @i  a kept handle fetched by id
//   @f  a fresh handle by name      @x  a fresh handle by index      @l  a fresh handle out of Section::properties()
//   @s  a fresh handle through a freshly fetched Section handle
// Every kept handle has answered valueCount() / dataType() once when it was fetched.  The model has one property.
static nix::Property h_main, h_kept, h_id;
static int fileno_ = 0;
static std::string path;

static nix::DataType dec_type(const std::string &t) {
    if (t == "Bool") return nix::DataType::Bool;
    if (t == "Int32") return nix::DataType::Int32;
    if (t == "UInt32") return nix::DataType::UInt32;
    if (t == "Int64") return nix::DataType::Int64;
    if (t == "UInt64") return nix::DataType::UInt64;
    if (t == "Double") return nix::DataType::Double;
    if (t == "String") return nix::DataType::String;
    if (t == "Int8") return nix::DataType::Int8;
    if (t == "Int16") return nix::DataType::Int16;
    if (t == "UInt8") return nix::DataType::UInt8;
    if (t == "UInt16") return nix::DataType::UInt16;
    if (t == "Float") return nix::DataType::Float;
    if (t == "Char") return nix::DataType::Char;
    if (t == "Nothing") return nix::DataType::Nothing;
    if (t == "Opaque") return nix::DataType::Opaque;
    throw std::logic_error("bad type " + t);
}

static std::string enc_type(nix::DataType t) {
    switch (t) {
    case nix::DataType::Bool: return "Bool";
    case nix::DataType::Int32: return "Int32";
    case nix::DataType::UInt32: return "UInt32";
    case nix::DataType::Int64: return "Int64";
    case nix::DataType::UInt64: return "UInt64";
    case nix::DataType::Double: return "Double";
    case nix::DataType::String: return "String";
    case nix::DataType::Int8: return "Int8";
    case nix::DataType::Int16: return "Int16";
    case nix::DataType::UInt8: return "UInt8";
    case nix::DataType::UInt16: return "UInt16";
    case nix::DataType::Float: return "Float";
    case nix::DataType::Char: return "Char";
    case nix::DataType::Nothing: return "Nothing";
    case nix::DataType::Opaque: return "Opaque";
    }
    return "?";
}

static nix::Variant dec_val(const std::string &t) {
    if (t == "none") return nix::Variant();
    size_t c = t.find(':');
    if (c == std::string::npos) throw std::logic_error("bad value " + t);
    std::string k = t.substr(0, c), r = t.substr(c + 1);
    if (k == "b") return nix::Variant(r == "1");
    if (k == "i32") return nix::Variant(static_cast<int32_t>(std::stoll(r)));
    if (k == "u32") return nix::Variant(static_cast<uint32_t>(std::stoull(r)));
    if (k == "i64") return nix::Variant(static_cast<int64_t>(std::stoll(r)));
    if (k == "u64") return nix::Variant(static_cast<uint64_t>(std::stoull(r)));
    if (k == "d") return nix::Variant(dec_dbl(t));
    if (k == "s") return nix::Variant(dec_str(t));
    throw std::logic_error("bad value " + t);
}

static std::string enc_val(const nix::Variant &v) {
    switch (v.type()) {
    case nix::DataType::Bool: return std::string("b:") + (v.get<bool>() ? "1" : "0");
    case nix::DataType::Int32: return "i32:" + std::to_string(v.get<int32_t>());
    case nix::DataType::UInt32: return "u32:" + std::to_string(v.get<uint32_t>());
    case nix::DataType::Int64: return "i64:" + std::to_string(v.get<int64_t>());
    case nix::DataType::UInt64: return "u64:" + std::to_string(v.get<uint64_t>());
    case nix::DataType::Double: return enc_dbl(v.get<double>());
    case nix::DataType::String: return enc_str(v.get<std::string>());
    case nix::DataType::Nothing: return "none";
    default: return "?";
    }
}

static std::vector<nix::Variant> dec_vals(const std::vector<std::string> &t, size_t at) {
    size_t n = static_cast<size_t>(dec_u64(t.at(at)));
    if (t.size() != at + 1 + n) throw std::logic_error("bad value count");
    std::vector<nix::Variant> vs;
    for (size_t i = 0; i < n; i++) vs.push_back(dec_val(t[at + 1 + i]));
    return vs;
}

// ---- construction routes of a Variant: the same value, put together through different public entry points --------
#define LITERALS(X) X("") X("a") X("abc") X("hello world") X("m V") X("\xc3\xa4\xc3\xb6\xe2\x82\xac")
static bool from_literal(const std::string &s, nix::Variant &out) {
#define X(L) if (s == std::string(L)) { out = nix::Variant(L); return true; }     /* Variant(const char (&)[N]) */
    LITERALS(X)
#undef X
    return false;
}

// v.set(x) with the overload of x's own type
static void set_as(nix::Variant &v, const nix::Variant &x, bool cstr) {
    switch (x.type()) {
    case nix::DataType::Bool: v.set(x.get<bool>()); break;
    case nix::DataType::Int32: v.set(x.get<int32_t>()); break;
    case nix::DataType::UInt32: v.set(x.get<uint32_t>()); break;
    case nix::DataType::Int64: v.set(x.get<int64_t>()); break;
    case nix::DataType::UInt64: v.set(x.get<uint64_t>()); break;
    case nix::DataType::Double: v.set(x.get<double>()); break;
    case nix::DataType::String: {
        std::string s = x.get<std::string>();
        if (cstr) { if (s.size() % 2) v.set(s.c_str()); else v.set(s.c_str(), s.size()); }
        else v.set(s);
        break;
    }
    default: v.set(nix::none); break;
    }
}

static nix::Value to_value(const nix::Variant &x, bool cstr) {
    switch (x.type()) {
    case nix::DataType::Bool: return nix::Value(x.get<bool>());
    case nix::DataType::Int32: return nix::Value(x.get<int32_t>());
    case nix::DataType::UInt32: return nix::Value(x.get<uint32_t>());
    case nix::DataType::Int64: return nix::Value(x.get<int64_t>());
    case nix::DataType::UInt64: return nix::Value(x.get<uint64_t>());
    case nix::DataType::Double: return nix::Value(x.get<double>());
    case nix::DataType::String: { std::string s = x.get<std::string>(); return cstr ? nix::Value(s.c_str()) : nix::Value(s); }
    default: return nix::Value();
    }
}

static nix::Variant from_value(const nix::Value &x) {
    switch (x.type()) {
    case nix::DataType::Bool: return nix::Variant(x.get<bool>());
    case nix::DataType::Int32: return nix::Variant(x.get<int32_t>());
    case nix::DataType::UInt32: return nix::Variant(x.get<uint32_t>());
    case nix::DataType::Int64: return nix::Variant(x.get<int64_t>());
    case nix::DataType::UInt64: return nix::Variant(x.get<uint64_t>());
    case nix::DataType::Double: return nix::Variant(x.get<double>());
    case nix::DataType::String: return nix::Variant(x.get<const char *>());
    default: return nix::Variant();
    }
}

static nix::Variant via_route(const nix::Variant &x, const std::string &route) {
    const bool is_str = x.type() == nix::DataType::String;
    if (route == "direct") return x;
    if (route == "cstr") {                                     // Variant(const char*)
        if (!is_str) return x;
        std::string s = x.get<std::string>();
        return nix::Variant(s.c_str());
    }
    if (route == "charptr") {                                  // Variant(char*)
        if (!is_str) return x;
        std::string s = x.get<std::string>();
        std::vector<char> buf(s.begin(), s.end()); buf.push_back('\0');
        return nix::Variant(buf.data());
    }
    if (route == "literal") {                                  // Variant(const char (&)[N]) for the strings of the table
        nix::Variant out;
        if (is_str && from_literal(x.get<std::string>(), out)) return out;
        return via_route(x, "cstr");
    }
    if (route == "setlive" || route == "setc") {               // a default Variant, then set()
        nix::Variant v;
        set_as(v, x, route == "setc");
        return v;
    }
    if (route == "retype") {                                   // a live Variant re-typed: String -> String (realloc), String -> other,
        nix::Variant v(std::string("seed"));                   // other -> String, other -> other, then the value
        v.set(std::string("a considerably longer string than the seed, to make realloc move"));
        v.set(int32_t(7));
        v.set("again");
        v.set(true);
        v.set(std::string("x"));
        v.set(nix::none);
        v.set(2.5);
        set_as(v, x, false);
        if (is_str) { nix::Variant w(std::string("other")); set_as(w, x, true); return w; }
        return v;
    }
    if (route == "copy") { nix::Variant a(x); nix::Variant b(a); return b; }
    if (route == "assign") { nix::Variant a(std::string("old")); a = x; nix::Variant b; b = a; return b; }
    if (route == "move") { nix::Variant a(x); nix::Variant b(std::move(a)); nix::Variant c(int64_t(1)); c = std::move(b); return c; }
    if (route == "swap") {
        nix::Variant a(x), b(std::string("filler")), c(uint32_t(9));
        a.swap(b);            // b holds the value
        nix::swap(b, c);      // c holds the value
        c.swap(a);            // a holds it again
        return a;
    }
    if (route == "value") {                                    // through the legacy nix::Value wrapper
        nix::Value a = to_value(x, is_str && x.get<std::string>().size() % 2 == 1);
        a.uncertainty = 0.5; a.reference = "r";
        nix::Value b(a);
        nix::Value c(std::move(b));
        nix::Value d; d = c;
        nix::Value e(int32_t(3));
        e.swap(d);
        nix::swap(d, e);
        nix::swap(d, e);      // e holds the value
        nix::Value f; f.set(nix::none);
        return from_value(e);
    }
    throw std::logic_error("bad route " + route);
}

static std::string route_of(const std::string &cmd) {
    size_t k = cmd.find(':');
    return k == std::string::npos ? "direct" : cmd.substr(k + 1);
}

static std::vector<nix::Variant> dec_vals_r(const std::vector<std::string> &t, size_t at, const std::string &route) {
    std::vector<nix::Variant> vs = dec_vals(t, at);
    std::vector<nix::Variant> out;
    for (const nix::Variant &v : vs) out.push_back(via_route(v, route));
    return out;
}

// the getters with an out-parameter, and get<const char*> for strings
static std::string enc_val_alt(const nix::Variant &v) {
    switch (v.type()) {
    case nix::DataType::Bool: { bool x; v.get(x); return std::string("b:") + (x ? "1" : "0"); }
    case nix::DataType::Int32: { int32_t x; v.get(x); return "i32:" + std::to_string(x); }
    case nix::DataType::UInt32: { uint32_t x; v.get(x); return "u32:" + std::to_string(x); }
    case nix::DataType::Int64: { int64_t x; v.get(x); return "i64:" + std::to_string(x); }
    case nix::DataType::UInt64: { uint64_t x; v.get(x); return "u64:" + std::to_string(x); }
    case nix::DataType::Double: { double x; v.get(x); return enc_dbl(x); }
    case nix::DataType::String: { const char *p = v.get<const char *>(); return enc_str(std::string(p)); }
    case nix::DataType::Nothing: { nix::none_t n = nix::none; v.get(n); return "none"; }
    default: return "?";
    }
}

// get<T>() (tmpl) or get(T&) with the type named by the case line
static std::string get_as(const nix::Variant &v, const std::string &T, bool tmpl) {
    if (T == "Bool") { bool x; if (tmpl) x = v.get<bool>(); else v.get(x); return enc_val(nix::Variant(x)); }
    if (T == "Int32") { int32_t x; if (tmpl) x = v.get<int32_t>(); else v.get(x); return enc_val(nix::Variant(x)); }
    if (T == "UInt32") { uint32_t x; if (tmpl) x = v.get<uint32_t>(); else v.get(x); return enc_val(nix::Variant(x)); }
    if (T == "Int64") { int64_t x; if (tmpl) x = v.get<int64_t>(); else v.get(x); return enc_val(nix::Variant(x)); }
    if (T == "UInt64") { uint64_t x; if (tmpl) x = v.get<uint64_t>(); else v.get(x); return enc_val(nix::Variant(x)); }
    if (T == "Double") { double x; if (tmpl) x = v.get<double>(); else v.get(x); return enc_val(nix::Variant(x)); }
    if (T == "String") { std::string x; if (tmpl) x = v.get<std::string>(); else v.get(x); return enc_str(x); }
    if (T == "CStr") { const char *p = v.get<const char *>(); return enc_str(std::string(p)); }
    if (T == "None") { nix::none_t n = nix::none; v.get(n); return "none"; }
    if (T == "NoneT") { v.get<nix::none_t>(); return "none"; }
    throw std::logic_error("bad type " + T);
}

static int sgn(int x) { return x < 0 ? -1 : x > 0 ? 1 : 0; }

static void fetch_handles() {
    h_kept = nix::none; h_id = nix::none;
    if (!h_main) return;
    try {
        h_kept = sec.getProperty("p");
        h_id = sec.getProperty(h_main.id());
        if (h_kept) { (void) h_kept.valueCount(); (void) h_kept.dataType(); }
        if (h_id) { (void) h_id.valueCount(); (void) h_id.dataType(); }
    } catch (...) { }
}

static nix::Property select_handle(const std::string &h) {
    if (!h_main) return nix::Property();
    if (h == "c") return h_main;
    if (h == "k") return h_kept ? h_kept : h_main;
    if (h == "i") return h_id ? h_id : h_main;
    if (h == "f") return sec.getProperty("p");
    if (h == "x") return sec.getProperty(static_cast<nix::ndsize_t>(0));
    if (h == "l") { std::vector<nix::Property> ps = sec.properties(); for (auto &q : ps) if (q.name() == "p") return q; return nix::Property(); }
    if (h == "s") return file.getSection("s").getProperty("p");
    throw std::logic_error("bad handle @" + h);
}

static void fresh() {
    prop = nix::none; h_main = nix::none; h_kept = nix::none; h_id = nix::none;
    sec = nix::none;
    if (file) { try { file.close(); } catch (...) {} }
    file = nix::none;
    path = workdir + "/c14-" + std::to_string(fileno_++ % 4) + ".nix";
    file = nix::File::open(path, nix::FileMode::Overwrite);
    sec = file.createSection("s", "t");
}

static std::string handle_cmd(const std::vector<std::string> &t);

static std::string handle(const std::vector<std::string> &t0) {
    std::vector<std::string> t(t0);
    std::string h = "c";
    if (!t.empty() && t[0].size() >= 2 && t[0][0] == '@') { h = t[0].substr(1); t.erase(t.begin()); }
    if (t.empty()) throw std::logic_error("empty command");
    const std::string c = t[0].substr(0, t[0].find(':'));
    if (c != "new_t" && c != "new_v" && c != "new_vs" && c != "reopen" && c[0] != 'v') prop = select_handle(h);
    return handle_cmd(t);
}

static std::string handle_cmd(const std::vector<std::string> &t) {
    std::ostringstream o;
    const std::string full = t[0];
    const std::string route = route_of(full);
    const std::string c = full.substr(0, full.find(':'));
    // ---- the Variant value class on its own (no file involved) ----
    if (c == "veq") {
        nix::Variant a = via_route(dec_val(t.at(1)), route), b = dec_val(t.at(2));
        nix::Value va = to_value(a, false), vb = to_value(b, true);
        if ((a == b) != (va == vb) || (a != b) != (va != vb)) return "Value-and-Variant-disagree";
        o << "[ " << (a == b) << " " << (a != b) << " ]";
        return o.str();
    }
    if (c == "vget" || c == "vgeto") {
        nix::Variant v = via_route(dec_val(t.at(1)), route);
        return "[ " + get_as(v, t.at(2), c == "vget") + " ]";
    }
    if (c == "vstr") {
        nix::Variant v = via_route(dec_val(t.at(1)), route);
        std::ostringstream a, b;
        a << v; b << to_value(v, true);
        std::string sa = a.str(), sb = b.str();
        if (sb != "Value" + sa.substr(7)) return "Value-and-Variant-disagree " + enc_str(sb);
        if (v.type() == nix::DataType::Double) sa = sa.substr(0, sa.find("] ") + 2) + "?}";   // decimal rendering of doubles: not compared
        return enc_str(sa);
    }
    if (c == "vsup") {
        nix::DataType d = dec_type(t.at(1));
        if (nix::Variant::supports_type(d) != nix::Value::supports_type(d)) return "Value-and-Variant-disagree";
        o << "[ " << nix::Variant::supports_type(d) << " ]";
        return o.str();
    }
    if (c == "vswap") {
        nix::Variant a = via_route(dec_val(t.at(1)), route), b = dec_val(t.at(2));
        a.swap(b);
        o << "[ " << enc_val_alt(a) << " " << enc_val_alt(b);
        nix::swap(a, b);
        o << " " << enc_val(a) << " " << enc_val(b) << " ]";
        return o.str();
    }
    if (c == "new_t" || c == "new_v" || c == "new_vs") {
        fresh();
        try {
            if (c == "new_t") h_main = sec.createProperty("p", dec_type(t.at(1)));
            else if (c == "new_v") h_main = sec.createProperty("p", via_route(dec_val(t.at(1)), route));
            else h_main = sec.createProperty("p", dec_vals_r(t, 1, route));
        } catch (...) {
            // a rejected create must leave nothing behind; if the section lists a property all the same,
            // later lines of the case observe it
            try { if (sec.hasProperty("p")) h_main = sec.getProperty("p"); } catch (...) {}
            prop = h_main;
            throw;
        }
        prop = h_main;
        fetch_handles();
        return "done";
    }
    if (c == "reopen") {
        prop = nix::none; h_main = nix::none; h_kept = nix::none; h_id = nix::none; sec = nix::none;
        if (file) file.close();
        file = nix::none;
        file = nix::File::open(path, t.at(1) == "ro" ? nix::FileMode::ReadOnly : nix::FileMode::ReadWrite);
        sec = file.getSection("s");
        if (sec && sec.hasProperty("p")) h_main = sec.getProperty("p");
        prop = h_main;
        fetch_handles();
        return prop ? "done" : "noprop";
    }
    if (!prop) {
        if (c == "obs" || c == "count") return "absent";      // (also obs:alt)
        throw nix::UninitializedEntity();
    }
    if (c == "set") { prop.values(dec_vals_r(t, 1, route)); return "done"; }
    if (c == "cmp") {
        // Property::compare with a property of the given name: in the same section, or -- for the property's own
        // name -- in a second section (then only the ids differ)
        std::string other = dec_str(t.at(1));
        int ab, ba, aa;
        if (other != "p") {
            nix::Property q = sec.createProperty(other, nix::Variant(int32_t(1)));
            ab = prop.compare(q); ba = q.compare(prop); aa = prop.compare(prop);
            q = nix::none;
            sec.deleteProperty(other);
            o << sgn(ab) << " " << sgn(ba) << " " << sgn(aa);
            return o.str();
        }
        nix::Section s2 = file.createSection("s2", "t");
        nix::Property q = s2.createProperty("p", nix::Variant(int32_t(1)));
        ab = prop.compare(q); ba = q.compare(prop); aa = prop.compare(prop);
        q = nix::none; s2 = nix::none;
        file.deleteSection("s2");
        if (ab != 0 && sgn(ab) == -sgn(ba) && aa == 0) return "ids";
        o << "ids-not-antisymmetric " << ab << " " << ba << " " << aa;
        return o.str();
    }
    if (c == "pstr") { std::ostringstream s; s << prop; return enc_str(s.str()); }
    if (c == "clear") { prop.deleteValues(); return "done"; }
    if (c == "clear_none") { prop.values(nix::none); return "done"; }
    if (c == "unit") { prop.unit(dec_str(t.at(1))); return "done"; }
    if (c == "unit_none") { prop.unit(nix::none); return "done"; }
    if (c == "unc") { prop.uncertainty(dec_dbl(t.at(1))); return "done"; }
    if (c == "unc_none") { prop.uncertainty(boost::none); return "done"; }
    if (c == "def") { prop.definition(dec_str(t.at(1))); return "done"; }
    if (c == "def_none") { prop.definition(nix::none); return "done"; }
    if (c == "count") { o << prop.valueCount(); return o.str(); }
    if (c == "obs") {
        o << "dt=" << enc_type(prop.dataType()) << " n=" << prop.valueCount() << " v=[";
        std::vector<nix::Variant> vs = prop.values();
        for (const nix::Variant &v : vs) o << " " << (route == "alt" ? enc_val_alt(v) : enc_val(v));
        o << " ]";
        boost::optional<std::string> u = prop.unit();
        o << " u=" << (u ? enc_str(*u) : std::string("-"));
        boost::optional<double> e = prop.uncertainty();
        o << " e=" << (e ? enc_dbl(*e) : std::string("-"));
        boost::optional<std::string> d = prop.definition();
        o << " d=" << (d ? enc_str(*d) : std::string("-"));
        return o.str();
    }
    throw std::logic_error("bad command " + c);
}

int main(int argc, char **argv) {
    if (argc < 3) { std::cerr << "usage: drv_C14 <casefile> <workdir>\n"; return 2; }
    workdir = argv[2];
    H5Eset_auto2(H5E_DEFAULT, nullptr, nullptr);
    return run_file(argv[1], handle);
}
