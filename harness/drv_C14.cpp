// C14 correspondence driver: metadata Property values / unit / uncertainty / definition over the public API.
// A case is a history on a fresh file (section "s", property "p"); the first line of a case is one of the new_* lines.
//   new_t <type>                 createProperty("p", DataType)         type: Bool Int32 UInt32 Int64 UInt64 Double String
//                                                                      (+ Int8 Int16 UInt8 UInt16 Float Char Nothing Opaque: malformed stream)
//   new_v <value>                createProperty("p", Variant)
//   new_vs <n> <value>*n         createProperty("p", vector<Variant>)
//   set <n> <value>*n            p.values(vector)
//   clear | clear_none           p.deleteValues() | p.values(none)
//   unit s:<hex> | unit_none     p.unit(..)
//   unc d:<hex>  | unc_none      p.uncertainty(..)
//   def s:<hex>  | def_none      p.definition(..)
//   reopen ro|rw                 close the file, open it again, look section and property up again
//   obs                          -> dt=<type> n=<valueCount> v=[ <value>* ] u=<-|s:hex> e=<-|d:hex> d=<-|s:hex>
//   count                        -> valueCount()          (both: "absent" when the section has no property)
// value tokens: b:0|1  i32:<dec>  u32:<dec>  i64:<dec>  u64:<dec>  d:<16 hex>  s:<hex>  none (an empty Variant)
// Mutating lines answer "done".
#include "common.hpp"
#include <hdf5.h>

using namespace nixv;

static std::string workdir;
static nix::File file;
static nix::Section sec;
static nix::Property prop;
static int fileno_ = 0;
static std::string path;

static nix::DataType dec_type(const std::string &t) {
    if (t == "Bool") return nix::DataType::Bool;
    if (t == "Int32") return nix::DataType::Int32;
    if (t == "UInt32") return nix::DataType::UInt32;
    if (t == "Int64") return nix::DataType::Int64;
    if (t == "UInt64") return nix::DataType::UInt64;
    if (t == "Double") return nix::DataType::Double;
    if (t == "String") return nix::DataType::String;
    if (t == "Int8") return nix::DataType::Int8;
    if (t == "Int16") return nix::DataType::Int16;
    if (t == "UInt8") return nix::DataType::UInt8;
    if (t == "UInt16") return nix::DataType::UInt16;
    if (t == "Float") return nix::DataType::Float;
    if (t == "Char") return nix::DataType::Char;
    if (t == "Nothing") return nix::DataType::Nothing;
    if (t == "Opaque") return nix::DataType::Opaque;
    throw std::logic_error("bad type " + t);
}

static std::string enc_type(nix::DataType t) {
    switch (t) {
    case nix::DataType::Bool: return "Bool";
    case nix::DataType::Int32: return "Int32";
    case nix::DataType::UInt32: return "UInt32";
    case nix::DataType::Int64: return "Int64";
    case nix::DataType::UInt64: return "UInt64";
    case nix::DataType::Double: return "Double";
    case nix::DataType::String: return "String";
    case nix::DataType::Int8: return "Int8";
    case nix::DataType::Int16: return "Int16";
    case nix::DataType::UInt8: return "UInt8";
    case nix::DataType::UInt16: return "UInt16";
    case nix::DataType::Float: return "Float";
    case nix::DataType::Char: return "Char";
    case nix::DataType::Nothing: return "Nothing";
    case nix::DataType::Opaque: return "Opaque";
    }
    return "?";
}

static nix::Variant dec_val(const std::string &t) {
    if (t == "none") return nix::Variant();
    size_t c = t.find(':');
    if (c == std::string::npos) throw std::logic_error("bad value " + t);
    std::string k = t.substr(0, c), r = t.substr(c + 1);
    if (k == "b") return nix::Variant(r == "1");
    if (k == "i32") return nix::Variant(static_cast<int32_t>(std::stoll(r)));
    if (k == "u32") return nix::Variant(static_cast<uint32_t>(std::stoull(r)));
    if (k == "i64") return nix::Variant(static_cast<int64_t>(std::stoll(r)));
    if (k == "u64") return nix::Variant(static_cast<uint64_t>(std::stoull(r)));
    if (k == "d") return nix::Variant(dec_dbl(t));
    if (k == "s") return nix::Variant(dec_str(t));
    throw std::logic_error("bad value " + t);
}

static std::string enc_val(const nix::Variant &v) {
    switch (v.type()) {
    case nix::DataType::Bool: return std::string("b:") + (v.get<bool>() ? "1" : "0");
    case nix::DataType::Int32: return "i32:" + std::to_string(v.get<int32_t>());
    case nix::DataType::UInt32: return "u32:" + std::to_string(v.get<uint32_t>());
    case nix::DataType::Int64: return "i64:" + std::to_string(v.get<int64_t>());
    case nix::DataType::UInt64: return "u64:" + std::to_string(v.get<uint64_t>());
    case nix::DataType::Double: return enc_dbl(v.get<double>());
    case nix::DataType::String: return enc_str(v.get<std::string>());
    case nix::DataType::Nothing: return "none";
    default: return "?";
    }
}

static std::vector<nix::Variant> dec_vals(const std::vector<std::string> &t, size_t at) {
    size_t n = static_cast<size_t>(dec_u64(t.at(at)));
    if (t.size() != at + 1 + n) throw std::logic_error("bad value count");
    std::vector<nix::Variant> vs;
    for (size_t i = 0; i < n; i++) vs.push_back(dec_val(t[at + 1 + i]));
    return vs;
}

static void fresh() {
    prop = nix::none;
    sec = nix::none;
    if (file) { try { file.close(); } catch (...) {} }
    file = nix::none;
    path = workdir + "/c14-" + std::to_string(fileno_++ % 4) + ".nix";
    file = nix::File::open(path, nix::FileMode::Overwrite);
    sec = file.createSection("s", "t");
}

static std::string handle(const std::vector<std::string> &t) {
    std::ostringstream o;
    const std::string &c = t[0];
    if (c == "new_t" || c == "new_v" || c == "new_vs") {
        fresh();
        try {
            if (c == "new_t") prop = sec.createProperty("p", dec_type(t.at(1)));
            else if (c == "new_v") prop = sec.createProperty("p", dec_val(t.at(1)));
            else prop = sec.createProperty("p", dec_vals(t, 1));
        } catch (...) {
            // a rejected create must leave nothing behind; if the section lists a property all the same,
            // later lines of the case observe it
            try { if (sec.hasProperty("p")) prop = sec.getProperty("p"); } catch (...) {}
            throw;
        }
        return "done";
    }
    if (c == "reopen") {
        prop = nix::none; sec = nix::none;
        if (file) file.close();
        file = nix::none;
        file = nix::File::open(path, t.at(1) == "ro" ? nix::FileMode::ReadOnly : nix::FileMode::ReadWrite);
        sec = file.getSection("s");
        if (sec && sec.hasProperty("p")) prop = sec.getProperty("p");
        return prop ? "done" : "noprop";
    }
    if (!prop) {
        if (c == "obs" || c == "count") return "absent";
        throw nix::UninitializedEntity();
    }
    if (c == "set") { prop.values(dec_vals(t, 1)); return "done"; }
    if (c == "clear") { prop.deleteValues(); return "done"; }
    if (c == "clear_none") { prop.values(nix::none); return "done"; }
    if (c == "unit") { prop.unit(dec_str(t.at(1))); return "done"; }
    if (c == "unit_none") { prop.unit(nix::none); return "done"; }
    if (c == "unc") { prop.uncertainty(dec_dbl(t.at(1))); return "done"; }
    if (c == "unc_none") { prop.uncertainty(boost::none); return "done"; }
    if (c == "def") { prop.definition(dec_str(t.at(1))); return "done"; }
    if (c == "def_none") { prop.definition(nix::none); return "done"; }
    if (c == "count") { o << prop.valueCount(); return o.str(); }
    if (c == "obs") {
        o << "dt=" << enc_type(prop.dataType()) << " n=" << prop.valueCount() << " v=[";
        std::vector<nix::Variant> vs = prop.values();
        for (const nix::Variant &v : vs) o << " " << enc_val(v);
        o << " ]";
        boost::optional<std::string> u = prop.unit();
        o << " u=" << (u ? enc_str(*u) : std::string("-"));
        boost::optional<double> e = prop.uncertainty();
        o << " e=" << (e ? enc_dbl(*e) : std::string("-"));
        boost::optional<std::string> d = prop.definition();
        o << " d=" << (d ? enc_str(*d) : std::string("-"));
        return o.str();
    }
    throw std::logic_error("bad command " + c);
}

int main(int argc, char **argv) {
    if (argc < 3) { std::cerr << "usage: drv_C14 <casefile> <workdir>\n"; return 2; }
    workdir = argv[2];
    H5Eset_auto2(H5E_DEFAULT, nullptr, nullptr);
    return run_file(argv[1], handle);
}
