// C06 correspondence driver: the retrieval script language (Tag and MultiTag commands) is interpreted by
// harness/retr_common.hpp over the public nix API (nix::util::getOffsetAndCount / taggedData / featureData,
// Tag::taggedData / featureData, MultiTag::taggedData / featureData).
#include "retr_common.hpp"
int main(int argc, char **argv) { return retr::main_(argc, argv); }
