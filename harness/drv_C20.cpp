// C20 correspondence driver: tree searches and back references over the public nix API.
// A case is a script that builds one file and then asks queries (same language as ocaml/drv_C20.ml):
//   new | block | sec <parent|-1> <name s:hex> <type s:hex> | prop <sec> <name s:hex> | link <sec> <target>
//   src <block> <parent|-1> <name> <type> | array <block> | tag <block> | mtag <block>
//   meta <B|A|T|M|R><i> <sec> | addsrc <A|T|M><i> <src> | delsec <sec> | delsrc <src>
//   peek <S|R|B><i>      fetch an independent handle of the entity now, let it look at its (possibly still empty)
//                        containers (child / property / array / tag / multi-tag / source counts) and keep it alive
//   reopen <ro|rw>       close the file and open it again read-only / read-write; every handle is fetched anew
//   [@c|@e|@f|@p] findsec <S<i>|file> <depth|max> <filter> | findsrc <R<i>|B<i>> <depth|max> <filter> | related <sec> <filter>
//   [@..] inherited <sec> | refblocks|refarrays|reftags|refmtags|refsources <sec> | srcarrays|srctags|srcmtags <src> | parent <src>
//   filter: all | id <ref> | name <s:hex> | type <s:hex> | ids <n> <ref>...     ref: S<i> | R<i> | X | N
//           typei <s:hex>  = TypeFilter(str, false) | typere <s:hex> = TypeFilter(boost::regex(str))
//           meta <ref> = MetadataFilter<Source> | hassrc <ref> = SourceFilter<Source>      (source searches / enumerations only)
//           default = the call is made with no argument at all (depth must be max) | nofilter = File::findSections(size_t)
//   [@..] enum <S<i>|file|R<i>|B<i>> <filter>            sections(filter) / sources(filter): the depth-1 enumeration
//   [@..] enuma|enumt|enumm B<i> <efilter> | enumb <efilter>   Block::dataArrays/tags/multiTags(filter), File::blocks(filter)
//           efilter: all | id <A|T|M|B><i> | meta <ref> | srcf <ref>
//   [@..] enump <sec> all | id P<i> | name <s:hex>        Section::properties(filter)
//   [@..] refarrays_in|reftags_in|refmtags_in|refsources_in <sec> <B<i>|none>    the block-restricted overloads
// Handle routes of a query (the answer must not depend on them):
//   @c the handle the entity was created through (after a reopen: the handle fetched at the reopen)
//   @e the handle kept by the last `peek` of the entity (falls back to @c)
//   @f a handle fetched right now, by name, from the file downwards
//   @p a handle fetched right now through the parent's peeked handle (block's peeked handle for a root source)
// Every entity is named by its creation ordinal (k-th line of its kind); real ids never leave the driver.
// Results are printed in the order the API returns them: "<count> <ordinal>...".  Timestamps are not observed.
// References to deleted entities are refused here (std::runtime_error) before any library call.
#include "common.hpp"
#include <hdf5.h>
#include <unordered_map>
#include <limits>

using namespace nixv;

static std::string workdir;

struct SecInfo { nix::Section h, early; bool has_early; int parent; bool alive; std::string id, name; };
struct SrcInfo { nix::Source h, early; bool has_early; int parent; int block; bool alive; std::string id, name; };
struct BlkInfo { nix::Block h, early; bool has_early; std::string name; nix::DataArray pos; bool has_pos; };
template<typename T> struct EntInfo { T h; int block; std::string id, name; };

static nix::File file;
static std::vector<SecInfo> secs;
static std::vector<SrcInfo> srcs;
static std::vector<BlkInfo> blocks;
static std::vector<EntInfo<nix::DataArray>> arrays;
static std::vector<EntInfo<nix::Tag>> tags;
static std::vector<EntInfo<nix::MultiTag>> mtags;
static int nprops = 0;
static std::vector<std::string> prop_ids;
static std::unordered_map<std::string, int> hidden;   // ids of the drivers' own positions arrays (not part of the script)
static std::unordered_map<std::string, int> ord_sec, ord_src, ord_blk, ord_arr, ord_tag, ord_mtag, ord_prop;

static void dead() { throw std::runtime_error("reference to a deleted or unknown entity"); }
static void lost(const std::string &what) { throw std::logic_error("handle route lost the entity: " + what); }

static SecInfo &live_sec(long k) { if (k < 0 || k >= (long)secs.size() || !secs[k].alive) dead(); return secs[k]; }
static SrcInfo &live_src(long k) { if (k < 0 || k >= (long)srcs.size() || !srcs[k].alive) dead(); return srcs[k]; }
static BlkInfo &live_blk(long k) { if (k < 0 || k >= (long)blocks.size()) dead(); return blocks[k]; }
static long tailnum(const std::string &t) { return dec_int(t.substr(1)); }

// ---- handle routes
static nix::Section need(const nix::Section &s, const std::string &w) { if (!s) lost(w); return s; }
static nix::Source need(const nix::Source &s, const std::string &w) { if (!s) lost(w); return s; }
static nix::Block need(const nix::Block &s, const std::string &w) { if (!s) lost(w); return s; }

static nix::Section fresh_sec(long k) {
    SecInfo &s = secs[k];
    if (s.parent < 0) return need(file.getSection(s.name), "file.getSection");
    return need(fresh_sec(s.parent).getSection(s.name), "fresh section.getSection");
}
static nix::Block fresh_blk(long b) { return need(file.getBlock(blocks[b].name), "file.getBlock"); }
static nix::Source fresh_src(long k) {
    SrcInfo &s = srcs[k];
    if (s.parent < 0) return need(fresh_blk(s.block).getSource(s.name), "fresh block.getSource");
    return need(fresh_src(s.parent).getSource(s.name), "fresh source.getSource");
}
static nix::Section sec_by(char route, long k) {
    SecInfo &s = live_sec(k);
    if (route == 'e') return s.has_early ? s.early : s.h;
    if (route == 'f') return fresh_sec(k);
    if (route == 'p') {
        if (s.parent < 0) return need(file.getSection(s.name), "file.getSection");
        SecInfo &p = secs[s.parent];
        return need((p.has_early ? p.early : p.h).getSection(s.name), "peeked parent section.getSection");
    }
    return s.h;
}
static nix::Block blk_by(char route, long b) {
    BlkInfo &k = live_blk(b);
    if (route == 'e' || route == 'p') return k.has_early ? k.early : k.h;
    if (route == 'f') return fresh_blk(b);
    return k.h;
}
static nix::Source src_by(char route, long k) {
    SrcInfo &s = live_src(k);
    if (route == 'e') return s.has_early ? s.early : s.h;
    if (route == 'f') return fresh_src(k);
    if (route == 'p') {
        if (s.parent < 0) return need(blk_by('e', s.block).getSource(s.name), "peeked block.getSource");
        SrcInfo &p = srcs[s.parent];
        return need((p.has_early ? p.early : p.h).getSource(s.name), "peeked parent source.getSource");
    }
    return s.h;
}

static std::string ref_id(const std::string &t) {
    // an ordinal that was never created names an id that matches nothing
    if (t[0] == 'S') { long k = tailnum(t); if (k < 0 || k >= (long)secs.size()) return "unknown-" + t; return secs[k].id; }
    if (t[0] == 'R') { long k = tailnum(t); if (k < 0 || k >= (long)srcs.size()) return "unknown-" + t; return srcs[k].id; }
    if (t[0] == 'X') return "ffffffff-ffff-4fff-8fff-ffffffffffff";
    return "nosuchid";
}

// filters that only exist for sources (a Section has neither metadata() nor hasSource())
template<typename T>
static typename nix::util::Filter<T>::type more_filters(const std::vector<std::string> &t, size_t at) {
    throw std::logic_error("bad filter " + t.at(at));
}
template<>
nix::util::Filter<nix::Source>::type more_filters<nix::Source>(const std::vector<std::string> &t, size_t at) {
    const std::string &k = t.at(at);
    if (k == "meta") return nix::util::MetadataFilter<nix::Source>(ref_id(t.at(at + 1)));
    if (k == "hassrc") return nix::util::SourceFilter<nix::Source>(ref_id(t.at(at + 1)));
    throw std::logic_error("bad filter " + k);
}

template<typename T>
static typename nix::util::Filter<T>::type parse_filter(const std::vector<std::string> &t, size_t at) {
    const std::string &k = t.at(at);
    if (k == "all") return nix::util::AcceptAll<T>();
    if (k == "id") return nix::util::IdFilter<T>(ref_id(t.at(at + 1)));
    if (k == "name") return nix::util::NameFilter<T>(dec_str(t.at(at + 1)));
    if (k == "type") return nix::util::TypeFilter<T>(dec_str(t.at(at + 1)));
    if (k == "ids") {
        std::vector<std::string> ids;
        for (size_t i = at + 2; i < t.size(); i++) ids.push_back(ref_id(t[i]));
        return nix::util::IdsFilter<T>(ids);
    }
    if (k == "typei") return nix::util::TypeFilter<T>(dec_str(t.at(at + 1)), false);
    if (k == "typere") return nix::util::TypeFilter<T>(boost::regex(dec_str(t.at(at + 1))));
    return more_filters<T>(t, at);
}

// ids of entities other than sections / sources
static std::string ent_ref_id(const std::string &t) {
    long k = tailnum(t);
    if (t[0] == 'A') return (k >= 0 && k < (long)arrays.size() && !arrays[k].id.empty()) ? arrays[k].id : "unknown-" + t;
    if (t[0] == 'T') return (k >= 0 && k < (long)tags.size() && !tags[k].id.empty()) ? tags[k].id : "unknown-" + t;
    if (t[0] == 'M') return (k >= 0 && k < (long)mtags.size() && !mtags[k].id.empty()) ? mtags[k].id : "unknown-" + t;
    if (t[0] == 'B') return (k >= 0 && k < (long)blocks.size()) ? blocks[k].h.id() : "unknown-" + t;
    if (t[0] == 'P') return (k >= 0 && k < (long)prop_ids.size() && !prop_ids[k].empty()) ? prop_ids[k] : "unknown-" + t;
    return ref_id(t);
}

// efilter: all | id <ref> | meta <ref> | srcf <ref>   (T = DataArray / Tag / MultiTag)
template<typename T>
static typename nix::util::Filter<T>::type parse_efilter(const std::vector<std::string> &t, size_t at) {
    const std::string &k = t.at(at);
    if (k == "all") return nix::util::AcceptAll<T>();
    if (k == "id") return nix::util::IdFilter<T>(ent_ref_id(t.at(at + 1)));
    if (k == "meta") return nix::util::MetadataFilter<T>(ref_id(t.at(at + 1)));
    if (k == "srcf") return nix::util::SourceFilter<T>(ref_id(t.at(at + 1)));
    throw std::logic_error("bad entity filter " + k);
}

template<typename T>
static std::string show(const std::vector<T> &v, const std::unordered_map<std::string, int> &ord) {
    std::ostringstream o;
    size_t n = 0;
    for (const auto &e : v) if (!hidden.count(e.id())) n++;
    o << n;
    for (const auto &e : v) {
        if (hidden.count(e.id())) continue;         // a block's positions array exists only so that multi-tags can be created
        auto it = ord.find(e.id());
        if (it == ord.end()) o << " ?"; else o << " " << it->second;
    }
    return o.str();
}

static void mark_sec_dead(int k) {
    secs[k].alive = false; secs[k].h = nix::Section(); secs[k].early = nix::Section(); secs[k].has_early = false;
    for (size_t i = 0; i < secs.size(); i++) if (secs[i].alive && secs[i].parent == k) mark_sec_dead((int)i);
}
static void mark_src_dead(int k) {
    srcs[k].alive = false; srcs[k].h = nix::Source(); srcs[k].early = nix::Source(); srcs[k].has_early = false;
    for (size_t i = 0; i < srcs.size(); i++) if (srcs[i].alive && srcs[i].parent == k) mark_src_dead((int)i);
}

static void drop_handles() {
    for (auto &s : secs) { s.h = nix::Section(); s.early = nix::Section(); s.has_early = false; }
    for (auto &s : srcs) { s.h = nix::Source(); s.early = nix::Source(); s.has_early = false; }
    for (auto &b : blocks) { b.h = nix::Block(); b.early = nix::Block(); b.has_early = false; b.pos = nix::DataArray(); }
    for (auto &e : arrays) e.h = nix::DataArray();
    for (auto &e : tags) e.h = nix::Tag();
    for (auto &e : mtags) e.h = nix::MultiTag();
}

// after a reopen: one handle per live entity, parents first, each fetched through its parent's handle
static void refetch() {
    for (auto &b : blocks) {
        b.h = need(file.getBlock(b.name), "reopen getBlock");
        if (b.has_pos) b.pos = b.h.getDataArray("__pos");
    }
    for (auto &s : secs) if (s.alive)
        s.h = need(s.parent < 0 ? file.getSection(s.name) : secs[s.parent].h.getSection(s.name), "reopen getSection");
    for (auto &s : srcs) if (s.alive)
        s.h = need(s.parent < 0 ? blocks[s.block].h.getSource(s.name) : srcs[s.parent].h.getSource(s.name), "reopen getSource");
    for (auto &e : arrays) if (!e.id.empty()) e.h = blocks[e.block].h.getDataArray(e.name);
    for (auto &e : tags) if (!e.id.empty()) e.h = blocks[e.block].h.getTag(e.name);
    for (auto &e : mtags) if (!e.id.empty()) e.h = blocks[e.block].h.getMultiTag(e.name);
}

static std::string handle(const std::vector<std::string> &t0) {
    char route = 'c';
    std::vector<std::string> t = t0;
    if (t[0].size() == 2 && t[0][0] == '@') { route = t[0][1]; t.erase(t.begin()); }
    const std::string &c = t.at(0);
    std::ostringstream o;
    if (c == "new") {
        secs.clear(); srcs.clear(); blocks.clear(); arrays.clear(); tags.clear(); mtags.clear();
        ord_sec.clear(); ord_src.clear(); ord_blk.clear(); ord_arr.clear(); ord_tag.clear(); ord_mtag.clear(); ord_prop.clear();
        nprops = 0; prop_ids.clear(); hidden.clear();
        if (file) file.close();
        file = nix::File::open(workdir + "/c20.nix", nix::FileMode::Overwrite);
        return "-";
    }
    if (c == "reopen") {
        drop_handles();
        if (file) file.close();
        file = nix::File::open(workdir + "/c20.nix", t.at(1) == "ro" ? nix::FileMode::ReadOnly : nix::FileMode::ReadWrite);
        refetch();
        return "-";
    }
    if (c == "peek") {
        const std::string &e = t.at(1);
        long k = tailnum(e);
        size_t seen = 0;
        if (e[0] == 'S') {
            live_sec(k);
            nix::Section h = fresh_sec(k);
            seen += h.sectionCount() + h.propertyCount() + h.sections().size() + h.properties().size();
            secs[k].early = h; secs[k].has_early = true;
        } else if (e[0] == 'R') {
            SrcInfo &s = live_src(k);
            // hang the handle on the peeked handles above it where there are some
            nix::Source h = need(s.parent < 0 ? blk_by('e', s.block).getSource(s.name)
                                               : (srcs[s.parent].has_early ? srcs[s.parent].early : fresh_src(s.parent)).getSource(s.name),
                                 "peek getSource");
            seen += h.sourceCount() + h.sources().size();
            s.early = h; s.has_early = true;
        } else if (e[0] == 'B') {
            live_blk(k);
            nix::Block h = fresh_blk(k);
            seen += h.dataArrayCount() + h.tagCount() + h.multiTagCount() + h.sourceCount() + h.sources().size();
            blocks[k].early = h; blocks[k].has_early = true;
        } else throw std::logic_error("bad peek " + e);
        (void)seen;
        return "-";
    }
    if (c == "block") {
        int k = (int)blocks.size();
        std::string name = "b" + std::to_string(k);
        nix::Block b = file.createBlock(name, "blk");
        blocks.push_back(BlkInfo{b, nix::Block(), false, name, nix::DataArray(), false});
        ord_blk[b.id()] = k;
        return "B" + std::to_string(k);
    }
    if (c == "sec") {
        int k = (int)secs.size();
        long p = dec_int(t.at(1));
        std::string name = dec_str(t.at(2));
        secs.push_back(SecInfo{nix::Section(), nix::Section(), false, (int)p, false, "dead-" + std::to_string(k), name});
        nix::Section s;
        if (p < 0) s = file.createSection(name, dec_str(t.at(3)));
        else s = live_sec(p).h.createSection(name, dec_str(t.at(3)));
        secs[k].h = s; secs[k].alive = true; secs[k].id = s.id();
        ord_sec[s.id()] = k;
        return "S" + std::to_string(k);
    }
    if (c == "prop") {
        int k = nprops++;
        prop_ids.push_back("");
        nix::Property p = live_sec(dec_int(t.at(1))).h.createProperty(dec_str(t.at(2)), nix::DataType::Int32);
        ord_prop[p.id()] = k; prop_ids[k] = p.id();
        return "P" + std::to_string(k);
    }
    if (c == "link") {
        SecInfo &s = live_sec(dec_int(t.at(1)));
        SecInfo &g = live_sec(dec_int(t.at(2)));
        s.h.link(g.h);
        return "-";
    }
    if (c == "src") {
        int k = (int)srcs.size();
        long b = dec_int(t.at(1)), p = dec_int(t.at(2));
        std::string name = dec_str(t.at(3));
        srcs.push_back(SrcInfo{nix::Source(), nix::Source(), false, (int)p, (int)b, false, "dead-" + std::to_string(k), name});
        BlkInfo &blk = live_blk(b);
        nix::Source s;
        if (p < 0) s = blk.h.createSource(name, dec_str(t.at(4)));
        else {
            SrcInfo &ps = live_src(p);
            if (ps.block != b) dead();
            s = ps.h.createSource(name, dec_str(t.at(4)));
        }
        srcs[k].h = s; srcs[k].alive = true; srcs[k].id = s.id();
        ord_src[s.id()] = k;
        return "R" + std::to_string(k);
    }
    if (c == "array") {
        int k = (int)arrays.size();
        long b = dec_int(t.at(1));
        std::string name = "a" + std::to_string(k);
        arrays.push_back(EntInfo<nix::DataArray>{nix::DataArray(), (int)b, "", name});
        nix::DataArray a = live_blk(b).h.createDataArray(name, "arr", nix::DataType::Double, nix::NDSize({1}));
        arrays[k].h = a; arrays[k].id = a.id(); ord_arr[a.id()] = k;
        return "A" + std::to_string(k);
    }
    if (c == "tag") {
        int k = (int)tags.size();
        long b = dec_int(t.at(1));
        std::string name = "t" + std::to_string(k);
        tags.push_back(EntInfo<nix::Tag>{nix::Tag(), (int)b, "", name});
        nix::Tag a = live_blk(b).h.createTag(name, "tag", std::vector<double>{0.0});
        tags[k].h = a; tags[k].id = a.id(); ord_tag[a.id()] = k;
        return "T" + std::to_string(k);
    }
    if (c == "mtag") {
        int k = (int)mtags.size();
        long b = dec_int(t.at(1));
        std::string name = "m" + std::to_string(k);
        mtags.push_back(EntInfo<nix::MultiTag>{nix::MultiTag(), (int)b, "", name});
        BlkInfo &blk = live_blk(b);
        if (!blk.has_pos) {     // hidden positions array, created with the first multi-tag of the block
            blk.pos = blk.h.createDataArray("__pos", "pos", nix::DataType::Double, nix::NDSize({1}));
            blk.has_pos = true;
            hidden[blk.pos.id()] = 1;
        }
        nix::MultiTag a = blk.h.createMultiTag(name, "mtag", blk.pos);
        mtags[k].h = a; mtags[k].id = a.id(); ord_mtag[a.id()] = k;
        return "M" + std::to_string(k);
    }
    if (c == "meta") {
        const std::string &e = t.at(1);
        long k = tailnum(e);
        // check both references before touching the library
        if (e[0] == 'B') live_blk(k);
        else if (e[0] == 'A') { if (k < 0 || k >= (long)arrays.size() || arrays[k].id.empty()) dead(); }
        else if (e[0] == 'T') { if (k < 0 || k >= (long)tags.size() || tags[k].id.empty()) dead(); }
        else if (e[0] == 'M') { if (k < 0 || k >= (long)mtags.size() || mtags[k].id.empty()) dead(); }
        else if (e[0] == 'R') live_src(k);
        else throw std::logic_error("bad entity " + e);
        nix::Section s = live_sec(dec_int(t.at(2))).h;
        if (e[0] == 'B') blocks[k].h.metadata(s);
        else if (e[0] == 'A') arrays[k].h.metadata(s);
        else if (e[0] == 'T') tags[k].h.metadata(s);
        else if (e[0] == 'M') mtags[k].h.metadata(s);
        else srcs[k].h.metadata(s);
        return "-";
    }
    if (c == "addsrc") {
        const std::string &e = t.at(1);
        long k = tailnum(e);
        if (e[0] == 'A') { if (k < 0 || k >= (long)arrays.size() || arrays[k].id.empty()) dead(); }
        else if (e[0] == 'T') { if (k < 0 || k >= (long)tags.size() || tags[k].id.empty()) dead(); }
        else if (e[0] == 'M') { if (k < 0 || k >= (long)mtags.size() || mtags[k].id.empty()) dead(); }
        else throw std::logic_error("bad entity " + e);
        nix::Source s = live_src(dec_int(t.at(2))).h;
        if (e[0] == 'A') arrays[k].h.addSource(s);
        else if (e[0] == 'T') tags[k].h.addSource(s);
        else mtags[k].h.addSource(s);
        return "-";
    }
    if (c == "delsec") {
        long k = dec_int(t.at(1));
        SecInfo &s = live_sec(k);
        bool ok = s.parent < 0 ? file.deleteSection(s.h) : secs[s.parent].h.deleteSection(s.h);
        if (!ok) throw std::runtime_error("deleteSection returned false");
        mark_sec_dead((int)k);
        return "-";
    }
    if (c == "delsrc") {
        long k = dec_int(t.at(1));
        SrcInfo &s = live_src(k);
        bool ok = s.parent < 0 ? blocks[s.block].h.deleteSource(s.h) : srcs[s.parent].h.deleteSource(s.h);
        if (!ok) throw std::runtime_error("deleteSource returned false");
        mark_src_dead((int)k);
        return "-";
    }
    // ---- queries ----
    if (c == "findsec" && (t.at(3) == "default" || t.at(3) == "nofilter")) {
        const std::string &start = t.at(1), &d = t.at(2);
        std::vector<nix::Section> r;
        if (start == "file") r = (t.at(3) == "default" || d == "max") ? file.findSections() : file.findSections((size_t)dec_u64(d));
        else r = sec_by(route, tailnum(start)).findSections();
        return show(r, ord_sec);
    }
    if (c == "findsrc" && t.at(3) == "default") {
        const std::string &start = t.at(1);
        std::vector<nix::Source> r = start[0] == 'B' ? blk_by(route, tailnum(start)).findSources()
                                                     : src_by(route, tailnum(start)).findSources();
        return show(r, ord_src);
    }
    if (c == "enum") {
        const std::string &start = t.at(1);
        if (start == "file") return show(file.sections(parse_filter<nix::Section>(t, 2)), ord_sec);
        if (start[0] == 'S') return show(sec_by(route, tailnum(start)).sections(parse_filter<nix::Section>(t, 2)), ord_sec);
        if (start[0] == 'B') return show(blk_by(route, tailnum(start)).sources(parse_filter<nix::Source>(t, 2)), ord_src);
        return show(src_by(route, tailnum(start)).sources(parse_filter<nix::Source>(t, 2)), ord_src);
    }
    if (c == "enuma") return show(blk_by(route, tailnum(t.at(1))).dataArrays(parse_efilter<nix::DataArray>(t, 2)), ord_arr);
    if (c == "enumt") return show(blk_by(route, tailnum(t.at(1))).tags(parse_efilter<nix::Tag>(t, 2)), ord_tag);
    if (c == "enumm") return show(blk_by(route, tailnum(t.at(1))).multiTags(parse_efilter<nix::MultiTag>(t, 2)), ord_mtag);
    if (c == "enumb") {
        const std::string &k = t.at(1);
        if (k == "all") return show(file.blocks(), ord_blk);
        if (k == "id") return show(file.blocks(nix::util::IdFilter<nix::Block>(ent_ref_id(t.at(2)))), ord_blk);
        if (k == "meta") return show(file.blocks(nix::util::MetadataFilter<nix::Block>(ref_id(t.at(2)))), ord_blk);
        throw std::logic_error("bad block filter " + k);
    }
    if (c == "enump") {
        nix::Section s = sec_by(route, dec_int(t.at(1)));
        const std::string &k = t.at(2);
        if (k == "all") return show(s.properties(), ord_prop);
        if (k == "id") return show(s.properties(nix::util::IdFilter<nix::Property>(ent_ref_id(t.at(3)))), ord_prop);
        if (k == "name") return show(s.properties(nix::util::NameFilter<nix::Property>(dec_str(t.at(3)))), ord_prop);
        throw std::logic_error("bad property filter " + k);
    }
    if (c == "refarrays_in" || c == "reftags_in" || c == "refmtags_in" || c == "refsources_in") {
        nix::Section s = sec_by(route, dec_int(t.at(1)));
        nix::Block b;                                       // `none` stays a none Block
        if (t.at(2) != "none") b = live_blk(tailnum(t.at(2))).h;
        if (c == "refarrays_in") return show(s.referringDataArrays(b), ord_arr);
        if (c == "reftags_in") return show(s.referringTags(b), ord_tag);
        if (c == "refmtags_in") return show(s.referringMultiTags(b), ord_mtag);
        return show(s.referringSources(b), ord_src);
    }
    if (c == "findsec") {
        const std::string &start = t.at(1), &d = t.at(2);
        auto f = parse_filter<nix::Section>(t, 3);
        std::vector<nix::Section> r;
        if (start == "file") r = d == "max" ? file.findSections(f) : file.findSections(f, (size_t)dec_u64(d));
        else {
            nix::Section s = sec_by(route, tailnum(start));
            r = d == "max" ? s.findSections(f) : s.findSections(f, (size_t)dec_u64(d));
        }
        return show(r, ord_sec);
    }
    if (c == "findsrc") {
        const std::string &start = t.at(1), &d = t.at(2);
        auto f = parse_filter<nix::Source>(t, 3);
        std::vector<nix::Source> r;
        if (start[0] == 'B') {
            nix::Block b = blk_by(route, tailnum(start));
            r = d == "max" ? b.findSources(f) : b.findSources(f, (size_t)dec_u64(d));
        } else {
            nix::Source s = src_by(route, tailnum(start));
            r = d == "max" ? s.findSources(f) : s.findSources(f, (size_t)dec_u64(d));
        }
        return show(r, ord_src);
    }
    if (c == "related") {
        nix::Section s = sec_by(route, dec_int(t.at(1)));
        return show(s.findRelated(parse_filter<nix::Section>(t, 2)), ord_sec);
    }
    if (c == "inherited") return show(sec_by(route, dec_int(t.at(1))).inheritedProperties(), ord_prop);
    if (c == "refarrays") return show(sec_by(route, dec_int(t.at(1))).referringDataArrays(), ord_arr);
    if (c == "reftags") return show(sec_by(route, dec_int(t.at(1))).referringTags(), ord_tag);
    if (c == "refmtags") return show(sec_by(route, dec_int(t.at(1))).referringMultiTags(), ord_mtag);
    if (c == "refblocks") return show(sec_by(route, dec_int(t.at(1))).referringBlocks(), ord_blk);
    if (c == "refsources") return show(sec_by(route, dec_int(t.at(1))).referringSources(), ord_src);
    if (c == "srcarrays") return show(src_by(route, dec_int(t.at(1))).referringDataArrays(), ord_arr);
    if (c == "srctags") return show(src_by(route, dec_int(t.at(1))).referringTags(), ord_tag);
    if (c == "srcmtags") return show(src_by(route, dec_int(t.at(1))).referringMultiTags(), ord_mtag);
    if (c == "parent") {
        nix::Source p = src_by(route, dec_int(t.at(1))).parentSource();
        std::vector<nix::Source> r;
        if (p) r.push_back(p);
        return show(r, ord_src);
    }
    throw std::logic_error("bad command " + c);
}

int main(int argc, char **argv) {
    if (argc < 3) { std::cerr << "usage: drv_C20 <casefile> <workdir>\n"; return 2; }
    workdir = argv[2];
    H5Eset_auto2(H5E_DEFAULT, nullptr, nullptr);
    int rc = run_file(argv[1], handle);
    secs.clear(); srcs.clear(); blocks.clear(); arrays.clear(); tags.clear(); mtags.clear();
    if (file) file.close();
    return rc;
}
