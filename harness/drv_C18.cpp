// C18 correspondence driver: the SI-unit functions of nix::util (src/util/util.cpp).
// Every string argument is s:<hex bytes> (s: alone = the empty string).
//   split <unit>                         -> prefix unit power            (splitUnit)
//   split3 <prefix> <base> <powersuffix> -> the same for the unit prefix+base+powersuffix
//   issi <unit>                          -> isSIUnit isAtomicSIUnit isCompoundSIUnit
//   issi3 <prefix> <base> <powersuffix>
//   scalable <a> <b>                     -> isScalable(a, b)
//   scalable6 <pa> <ua> <wa> <pb> <ub> <wb>
//   scaling <a> <b>                      -> getSIScaling(a, b) as a bit pattern d:<16 hex>
//   scaling6 <pa> <ua> <wa> <pb> <ub> <wb>
//   sanitize <unit>                      -> unitSanitizer
//   deblank <unit>                       -> deblankString(const std::string&)
// further routes of util.hpp (lists are <count> item ...):
//   vscalable <na> a.. <nb> b..          -> isScalable(vector<string>, vector<string>)
//   setsame <na> a.. <nb> b..            -> isSetAtSamePos
//   splitc <unit>                        -> splitCompoundUnit: <count> atom ...
//   tosec_d <unit> d:<bits> / tosec_i <unit> <int>   -> convertToSeconds<double> / <int>
//   tokel_d <unit> d:<bits> / tokel_i <unit> <int>   -> convertToKelvin<double> / <int>
//   deblank_inplace <s>                  -> deblankString(std::string&)
//   namecheck / namesan / chkname / chktype / chkempty <s>, chknt <name> <type>
//   timert <t>  -> strToTime(timeToStr(t));  numrt <n> -> strToNum<long long>(numToStr(n));
//   strnum <s>  -> strToNum<int>(s);         deref none|<n> -> deRef(boost::optional<int>)
#include "common.hpp"
#include <nix/util/util.hpp>
#include <boost/optional.hpp>

using namespace nixv;

static std::string do_split(const std::string &s) {
    std::string prefix = "?", unit = "?", power = "?";
    nix::util::splitUnit(s, prefix, unit, power);
    return enc_str(prefix) + " " + enc_str(unit) + " " + enc_str(power);
}

static std::string do_issi(const std::string &s) {
    std::ostringstream o;
    o << (nix::util::isSIUnit(s) ? 1 : 0) << " " << (nix::util::isAtomicSIUnit(s) ? 1 : 0) << " "
      << (nix::util::isCompoundSIUnit(s) ? 1 : 0);
    return o.str();
}

static std::string handle(const std::vector<std::string> &t) {
    const std::string &c = t[0];
    if (c == "split" && t.size() == 2) return do_split(dec_str(t[1]));
    if (c == "split3" && t.size() == 4) return do_split(dec_str(t[1]) + dec_str(t[2]) + dec_str(t[3]));
    if (c == "issi" && t.size() == 2) return do_issi(dec_str(t[1]));
    if (c == "issi3" && t.size() == 4) return do_issi(dec_str(t[1]) + dec_str(t[2]) + dec_str(t[3]));
    if ((c == "scalable" && t.size() == 3) || (c == "scalable6" && t.size() == 7)) {
        std::string a = c == "scalable" ? dec_str(t[1]) : dec_str(t[1]) + dec_str(t[2]) + dec_str(t[3]);
        std::string b = c == "scalable" ? dec_str(t[2]) : dec_str(t[4]) + dec_str(t[5]) + dec_str(t[6]);
        return nix::util::isScalable(a, b) ? "1" : "0";
    }
    if ((c == "scaling" && t.size() == 3) || (c == "scaling6" && t.size() == 7)) {
        std::string a = c == "scaling" ? dec_str(t[1]) : dec_str(t[1]) + dec_str(t[2]) + dec_str(t[3]);
        std::string b = c == "scaling" ? dec_str(t[2]) : dec_str(t[4]) + dec_str(t[5]) + dec_str(t[6]);
        return enc_dbl(nix::util::getSIScaling(a, b));
    }
    if (c == "sanitize" && t.size() == 2) return enc_str(nix::util::unitSanitizer(dec_str(t[1])));
    if (c == "deblank" && t.size() == 2) return enc_str(nix::util::deblankString(dec_str(t[1])));
    if (c == "vscalable" || c == "setsame") {
        size_t i = 1;
        size_t na = (size_t)dec_u64(t.at(i++));
        std::vector<std::string> a, b;
        for (size_t k = 0; k < na; k++) a.push_back(dec_str(t.at(i++)));
        size_t nb = (size_t)dec_u64(t.at(i++));
        for (size_t k = 0; k < nb; k++) b.push_back(dec_str(t.at(i++)));
        if (i != t.size()) throw std::logic_error("bad command: trailing tokens");
        bool r = c == "vscalable" ? nix::util::isScalable(a, b) : nix::util::isSetAtSamePos(a, b);
        return r ? "1" : "0";
    }
    if (c == "splitc" && t.size() == 2) {
        std::vector<std::string> atoms;
        nix::util::splitCompoundUnit(dec_str(t[1]), atoms);
        std::string o = enc_u64(atoms.size());
        for (const auto &a : atoms) o += " " + enc_str(a);
        return o;
    }
    if (c == "tosec_d" && t.size() == 3) return enc_dbl(nix::util::convertToSeconds<double>(dec_str(t[1]), dec_dbl(t[2])));
    if (c == "tokel_d" && t.size() == 3) return enc_dbl(nix::util::convertToKelvin<double>(dec_str(t[1]), dec_dbl(t[2])));
    if (c == "tosec_i" && t.size() == 3)
        return "i:" + std::to_string(nix::util::convertToSeconds<int>(dec_str(t[1]), (int)dec_int(t[2])));
    if (c == "tokel_i" && t.size() == 3)
        return "i:" + std::to_string(nix::util::convertToKelvin<int>(dec_str(t[1]), (int)dec_int(t[2])));
    if (c == "deblank_inplace" && t.size() == 2) { std::string s = dec_str(t[1]); nix::util::deblankString(s); return enc_str(s); }
    if (c == "namecheck" && t.size() == 2) return nix::util::nameCheck(dec_str(t[1])) ? "1" : "0";
    if (c == "namesan" && t.size() == 2) return enc_str(nix::util::nameSanitizer(dec_str(t[1])));
    if (c == "chkname" && t.size() == 2) { nix::util::checkEntityName(dec_str(t[1])); return "ok"; }
    if (c == "chktype" && t.size() == 2) { nix::util::checkEntityType(dec_str(t[1])); return "ok"; }
    if (c == "chkempty" && t.size() == 2) { nix::util::checkEmptyString(dec_str(t[1]), "field"); return "ok"; }
    if (c == "chknt" && t.size() == 3) { nix::util::checkEntityNameAndType(dec_str(t[1]), dec_str(t[2])); return "ok"; }
    if (c == "timert" && t.size() == 2) {
        time_t tt = (time_t)dec_int(t[1]);
        return std::to_string((long long)nix::util::strToTime(nix::util::timeToStr(tt)));
    }
    if (c == "numrt" && t.size() == 2) {
        long long n = dec_int(t[1]);
        return std::to_string(nix::util::strToNum<long long>(nix::util::numToStr<long long>(n)));
    }
    if (c == "strnum" && t.size() == 2) return std::to_string(nix::util::strToNum<int>(dec_str(t[1])));
    if (c == "deref" && t.size() == 2) {
        boost::optional<int> o;
        if (t[1] != "none") o = (int)dec_int(t[1]);
        return std::to_string(nix::util::deRef(o)) + " " + std::to_string(nix::util::deRef((int)(t[1] == "none" ? 7 : dec_int(t[1]))));
    }
    throw std::logic_error("bad command " + c);
}

int main(int argc, char **argv) {
    if (argc < 2) { std::cerr << "usage: drv_C18 <casefile> [workdir]\n"; return 2; }
    return run_file(argv[1], handle);
}
