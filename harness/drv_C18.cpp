// C18 correspondence driver: the SI-unit functions of nix::util (src/util/util.cpp).
// Every string argument is s:<hex bytes> (s: alone = the empty string).
//   split <unit>                         -> prefix unit power            (splitUnit)
//   split3 <prefix> <base> <powersuffix> -> the same for the unit prefix+base+powersuffix
//   issi <unit>                          -> isSIUnit isAtomicSIUnit isCompoundSIUnit
//   issi3 <prefix> <base> <powersuffix>
//   scalable <a> <b>                     -> isScalable(a, b)
//   scalable6 <pa> <ua> <wa> <pb> <ub> <wb>
//   scaling <a> <b>                      -> getSIScaling(a, b) as a bit pattern d:<16 hex>
//   scaling6 <pa> <ua> <wa> <pb> <ub> <wb>
//   sanitize <unit>                      -> unitSanitizer
//   deblank <unit>                       -> deblankString
#include "common.hpp"
#include <nix/util/util.hpp>

using namespace nixv;

static std::string do_split(const std::string &s) {
    std::string prefix = "?", unit = "?", power = "?";
    nix::util::splitUnit(s, prefix, unit, power);
    return enc_str(prefix) + " " + enc_str(unit) + " " + enc_str(power);
}

static std::string do_issi(const std::string &s) {
    std::ostringstream o;
    o << (nix::util::isSIUnit(s) ? 1 : 0) << " " << (nix::util::isAtomicSIUnit(s) ? 1 : 0) << " "
      << (nix::util::isCompoundSIUnit(s) ? 1 : 0);
    return o.str();
}

static std::string handle(const std::vector<std::string> &t) {
    const std::string &c = t[0];
    if (c == "split" && t.size() == 2) return do_split(dec_str(t[1]));
    if (c == "split3" && t.size() == 4) return do_split(dec_str(t[1]) + dec_str(t[2]) + dec_str(t[3]));
    if (c == "issi" && t.size() == 2) return do_issi(dec_str(t[1]));
    if (c == "issi3" && t.size() == 4) return do_issi(dec_str(t[1]) + dec_str(t[2]) + dec_str(t[3]));
    if ((c == "scalable" && t.size() == 3) || (c == "scalable6" && t.size() == 7)) {
        std::string a = c == "scalable" ? dec_str(t[1]) : dec_str(t[1]) + dec_str(t[2]) + dec_str(t[3]);
        std::string b = c == "scalable" ? dec_str(t[2]) : dec_str(t[4]) + dec_str(t[5]) + dec_str(t[6]);
        return nix::util::isScalable(a, b) ? "1" : "0";
    }
    if ((c == "scaling" && t.size() == 3) || (c == "scaling6" && t.size() == 7)) {
        std::string a = c == "scaling" ? dec_str(t[1]) : dec_str(t[1]) + dec_str(t[2]) + dec_str(t[3]);
        std::string b = c == "scaling" ? dec_str(t[2]) : dec_str(t[4]) + dec_str(t[5]) + dec_str(t[6]);
        return enc_dbl(nix::util::getSIScaling(a, b));
    }
    if (c == "sanitize" && t.size() == 2) return enc_str(nix::util::unitSanitizer(dec_str(t[1])));
    if (c == "deblank" && t.size() == 2) return enc_str(nix::util::deblankString(dec_str(t[1])));
    throw std::logic_error("bad command " + c);
}

int main(int argc, char **argv) {
    if (argc < 2) { std::cerr << "usage: drv_C18 <casefile> [workdir]\n"; return 2; }
    return run_file(argv[1], handle);
}
