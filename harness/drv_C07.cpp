// C07 correspondence driver: position -> index conversion through the public dimension API.
//   sampled <dt> <off|-> <p> <rule>            SampledDimension::indexOf(p, rule)   (off "-" = no offset stored)
//   set <nlabels> <p> <rule>                   SetDimension::indexOf
//   df <nrows> <p> <rule>                      DataFrameDimension::indexOf
//   range <k> <t1..tk> <p> <rule>              RangeDimension::indexOf
//   posat <dt> <off|-> <i>                     SampledDimension::positionAt(i)
//   sampledpair <dt> <off|-> <s> <e> <incl|excl>   indexOf(s, e, RangeMatch)
//   setpair <n> <s> <e> <mode> | dfpair <n> <s> <e> <mode> | rangepair <k> <t..> <s> <e> <mode>
//   sampledvec <dt> <off|-> <mode> <m> <s1 e1 .. sm em>  the vector overload (m pairs)
//   uvec s <dt> <off|-> <dimunit|-> <mode> <m> <s1 e1 u1 .. sm em um>   util::positionToIndex(starts, ends, units, mode, SampledDimension)
//   uvec r <k> <t..> <dimunit|-> <mode> <m> <s1 e1 u1 ..>               the same on a RangeDimension
//   upos s <dt> <off|-> <dimunit|-> <p> <unit> <rule> | upos r <k> <t..> <dimunit|-> <p> <unit> <rule>   the scalar overload with a unit
//   stale <k> <t..> <k2> <t2..> <p> <rule>     a handle that has already converted positions must follow a tick change made through another handle
//   s1 <dt> <off|-> <p> | s2 <dt> <off|-> <s> <e> | svec2 <dt> <off|-> <m> <s e>* [surplus e]     deprecated sampled overloads
//   setvec <n> <mode> <m> <s e>* | dfvec <n> <mode> <m> <s e>* | rvec <k> <t..> <mode> <m> <s e>* | rvecb <k> <t..> <strict> <mode> <m> <s e>*
//   r1 <k> <t..> <p> <le 0|1> | r2 <k> <t..> <s> <e> | pinr <k> <t..> <p>
//   core s|set|df|r ...   the indexOf overloads that take the axis description from the caller
//   opidx s|r ...         operator[]
//   uset udf usetvec udfvec udep udepvec   the remaining overloads of util::positionToIndex (see the handlers)
//   saxis <dt> <off|-> <count> <start> | raxis <k> <t..> <count> <start> | tickat <k> <t..> <i>    axis()/tickAt()
// rules: L LE GE G EQ
#include "common.hpp"
#include <nix/util/dataAccess.hpp>
#include <hdf5.h>

using namespace nixv;

static nix::File file;
static nix::Block block;
static nix::DataArray da_s, da_set, da_r, da_df;
static nix::DataFrame frame;
static nix::SampledDimension sd;
static nix::SetDimension setd;
static nix::RangeDimension rd;
static nix::DataFrameDimension dfd;
static bool have_last = false;
static double last_dt = 0, last_off = 0;
static bool last_has_off = false;
static long last_labels = -1, last_rows = -1;
static std::vector<double> last_ticks;
static bool ticks_set = false;

static nix::PositionMatch rule(const std::string &r) {
    if (r == "L") return nix::PositionMatch::Less;
    if (r == "LE") return nix::PositionMatch::LessOrEqual;
    if (r == "GE") return nix::PositionMatch::GreaterOrEqual;
    if (r == "G") return nix::PositionMatch::Greater;
    if (r == "EQ") return nix::PositionMatch::Equal;
    throw std::logic_error("bad rule " + r);
}

static nix::RangeMatch rmode(const std::string &m) {
    if (m == "incl") return nix::RangeMatch::Inclusive;
    if (m == "excl") return nix::RangeMatch::Exclusive;
    throw std::logic_error("bad mode " + m);
}

static std::string show(const boost::optional<nix::ndsize_t> &o) {
    return o ? enc_u64(*o) : std::string("none");
}

static std::string showp(const boost::optional<std::pair<nix::ndsize_t, nix::ndsize_t>> &o) {
    return o ? enc_u64(o->first) + " " + enc_u64(o->second) : std::string("none");
}

static void set_sampled(const std::string &dt_s, const std::string &off_s) {
    double dt = dec_dbl(dt_s);
    bool has = off_s != "-";
    double off = has ? dec_dbl(off_s) : 0.0;
    if (have_last && std::memcmp(&dt, &last_dt, 8) == 0 && has == last_has_off && std::memcmp(&off, &last_off, 8) == 0)
        return;
    have_last = false;
    sd.samplingInterval(dt);
    if (has) sd.offset(off); else sd.offset(boost::none);
    last_dt = dt; last_off = off; last_has_off = has; have_last = true;
}

static void set_labels(long n) {
    if (n == last_labels) return;
    std::vector<std::string> l;
    for (long i = 0; i < n; i++) l.push_back("l" + std::to_string(i));
    if (n == 0) setd.labels(boost::none); else setd.labels(l);
    last_labels = n;
}

static void set_rows(long n) {
    if (n == last_rows) return;
    frame.rows(static_cast<nix::ndsize_t>(n));
    last_rows = n;
}

static void set_ticks(const std::vector<double> &t) {
    if (ticks_set && t.size() == last_ticks.size() && (t.empty() || std::memcmp(t.data(), last_ticks.data(), 8 * t.size()) == 0)) return;
    ticks_set = false;
    rd.ticks(t);
    last_ticks = t; ticks_set = true;
}

static std::string handle(const std::vector<std::string> &t) {
    const std::string &c = t[0];
    if (c == "sampled") { set_sampled(t[1], t[2]); return show(sd.indexOf(dec_dbl(t[3]), rule(t[4]))); }
    if (c == "posat") { set_sampled(t[1], t[2]); return enc_dbl(sd.positionAt(dec_u64(t[3]))); }
    if (c == "set") { set_labels(dec_int(t[1])); return show(setd.indexOf(dec_dbl(t[2]), rule(t[3]))); }
    if (c == "df") { set_rows(dec_int(t[1])); return show(dfd.indexOf(dec_dbl(t[2]), rule(t[3]))); }
    if (c == "range" || c == "rangepair") {
        size_t k = static_cast<size_t>(dec_int(t[1]));
        std::vector<double> ticks;
        for (size_t i = 0; i < k; i++) ticks.push_back(dec_dbl(t[2 + i]));
        set_ticks(ticks);
        if (c == "range") return show(rd.indexOf(dec_dbl(t[2 + k]), rule(t[3 + k])));
        return showp(rd.indexOf(dec_dbl(t[2 + k]), dec_dbl(t[3 + k]), std::vector<double>(), rmode(t[4 + k])));
    }
    if (c == "sampledpair") { set_sampled(t[1], t[2]); return showp(sd.indexOf(dec_dbl(t[3]), dec_dbl(t[4]), rmode(t[5]))); }
    if (c == "setpair") { set_labels(dec_int(t[1])); return showp(setd.indexOf(dec_dbl(t[2]), dec_dbl(t[3]), rmode(t[4]))); }
    if (c == "dfpair") { set_rows(dec_int(t[1])); return showp(dfd.indexOf(dec_dbl(t[2]), dec_dbl(t[3]), rmode(t[4]))); }
    if (c == "sampledvec") {
        set_sampled(t[1], t[2]);
        size_t m = static_cast<size_t>(dec_int(t[4]));
        std::vector<double> s, e;
        for (size_t i = 0; i < m; i++) { s.push_back(dec_dbl(t[5 + 2 * i])); e.push_back(dec_dbl(t[6 + 2 * i])); }
        auto r = sd.indexOf(s, e, rmode(t[3]));
        std::string out = std::to_string(r.size());
        for (auto &x : r) out += " [" + showp(x) + "]";
        return out;
    }
    // ---- the remaining routes: deprecated overloads (bare index / pair, OutOfBounds instead of none), vector overloads
    if (c == "s1") { set_sampled(t[1], t[2]); return enc_u64(sd.indexOf(dec_dbl(t[3]))); }
    if (c == "s2") { set_sampled(t[1], t[2]); auto r = sd.indexOf(dec_dbl(t[3]), dec_dbl(t[4])); return enc_u64(r.first) + " " + enc_u64(r.second); }
    if (c == "svec2" || c == "setvec" || c == "dfvec") {     // <axis args> <mode> <m> <s e>*   (svec2: no mode, deprecated)
        size_t at;
        if (c == "svec2") { set_sampled(t[1], t[2]); at = 3; }
        else if (c == "setvec") { set_labels(dec_int(t[1])); at = 2; }
        else { set_rows(dec_int(t[1])); at = 2; }
        std::string mode = c == "svec2" ? "incl" : t[at++];
        size_t m = static_cast<size_t>(dec_int(t[at]));
        std::vector<double> s, e;
        for (size_t i = 0; i < m; i++) { s.push_back(dec_dbl(t[at + 1 + 2 * i])); e.push_back(dec_dbl(t[at + 2 + 2 * i])); }
        if (t.size() > at + 1 + 2 * m) e.push_back(dec_dbl(t[at + 1 + 2 * m]));      // one surplus end position: sizes differ
        std::string out;
        if (c == "svec2") {
            auto r = sd.indexOf(s, e);
            out = std::to_string(r.size());
            for (auto &x : r) out += " [" + enc_u64(x.first) + " " + enc_u64(x.second) + "]";
        } else {
            auto r = c == "setvec" ? setd.indexOf(s, e, rmode(mode)) : dfd.indexOf(s, e, rmode(mode));
            out = std::to_string(r.size());
            for (auto &x : r) out += " [" + showp(x) + "]";
        }
        return out;
    }
    if (c == "rvec" || c == "rvecb" || c == "r1" || c == "r2" || c == "pinr") {
        size_t k = static_cast<size_t>(dec_int(t[1]));
        std::vector<double> ticks;
        for (size_t i = 0; i < k; i++) ticks.push_back(dec_dbl(t[2 + i]));
        set_ticks(ticks);
        size_t at = 2 + k;
        if (c == "r1") return enc_u64(rd.indexOf(dec_dbl(t[at]), t[at + 1] == "1"));
        if (c == "r2") { auto r = rd.indexOf(dec_dbl(t[at]), dec_dbl(t[at + 1])); return enc_u64(r.first) + " " + enc_u64(r.second); }
        if (c == "pinr") {
            nix::PositionInRange r = rd.positionInRange(dec_dbl(t[at]));
            return r == nix::PositionInRange::InRange ? "inrange" : r == nix::PositionInRange::Greater ? "greater"
                 : r == nix::PositionInRange::Less ? "less" : "norange";
        }
        bool strict = false;
        if (c == "rvecb") strict = t[at++] == "1";
        nix::RangeMatch rm = rmode(t[at]);
        size_t m = static_cast<size_t>(dec_int(t[at + 1]));
        std::vector<double> s, e;
        for (size_t i = 0; i < m; i++) { s.push_back(dec_dbl(t[at + 2 + 2 * i])); e.push_back(dec_dbl(t[at + 3 + 2 * i])); }
        if (t.size() > at + 2 + 2 * m) e.push_back(dec_dbl(t[at + 2 + 2 * m]));
        std::string out;
        if (c == "rvec") {
            auto r = rd.indexOf(s, e, rm);
            out = std::to_string(r.size());
            for (auto &x : r) out += " [" + showp(x) + "]";
        } else {
            auto r = rd.indexOf(s, e, strict, rm);
            out = std::to_string(r.size());
            for (auto &x : r) out += " [" + enc_u64(x.first) + " " + enc_u64(x.second) + "]";
        }
        return out;
    }
    // ---- caller-supplied-axis cores: the stored interval / labels / rows / ticks must NOT matter
    if (c == "core") {
        const std::string &k = t[1];
        if (k == "s") {          // core s <dt> <off|-> <s> <e> <mode>
            set_sampled("d:405ec00000000000", "d:4008000000000000");      // stored: 123.0, 3.0
            double off = t[3] == "-" ? 0.0 : dec_dbl(t[3]);
            return showp(sd.indexOf(dec_dbl(t[4]), dec_dbl(t[5]), dec_dbl(t[2]), off, rmode(t[6])));
        }
        if (k == "set") {        // core set <n caller labels> <own labels> <s> <e> <mode>
            set_labels(dec_int(t[3]));
            std::vector<std::string> mine;
            for (long i = 0; i < dec_int(t[2]); i++) mine.push_back("m" + std::to_string(i));
            auto r = setd.indexOf(dec_dbl(t[4]), dec_dbl(t[5]), mine, rmode(t[6]));
            return showp(r) + " | labels " + std::to_string(mine.size());
        }
        if (k == "df") {         // core df <n caller rows> <own rows> <s> <e> <mode>
            set_rows(dec_int(t[3]));
            return showp(dfd.indexOf(dec_dbl(t[4]), dec_dbl(t[5]), static_cast<nix::ndsize_t>(dec_int(t[2])), rmode(t[6])));
        }
        if (k == "r") {          // core r <k> <t..> <s> <e> <mode>     stored ticks: {1000, 2000}
            set_ticks(std::vector<double>{1000.0, 2000.0});
            size_t n = static_cast<size_t>(dec_int(t[2]));
            std::vector<double> ticks;
            for (size_t i = 0; i < n; i++) ticks.push_back(dec_dbl(t[3 + i]));
            return showp(rd.indexOf(dec_dbl(t[3 + n]), dec_dbl(t[4 + n]), ticks, rmode(t[5 + n])));
        }
        throw std::logic_error("bad core kind");
    }
    if (c == "opidx") {          // opidx s <dt> <off|-> <i> | opidx r <k> <t..> <i>
        if (t[1] == "s") { set_sampled(t[2], t[3]); return enc_dbl(sd[dec_u64(t[4])]); }
        size_t k = static_cast<size_t>(dec_int(t[2]));
        std::vector<double> ticks;
        for (size_t i = 0; i < k; i++) ticks.push_back(dec_dbl(t[3 + i]));
        set_ticks(ticks);
        return enc_dbl(rd[dec_u64(t[3 + k])]);
    }
    // ---- the remaining overloads of util::positionToIndex
    if (c == "uset" || c == "udf") {     // uset <n> <p> <rule> | udf <n> <p> <rule>
        if (c == "uset") { set_labels(dec_int(t[1])); return show(nix::util::positionToIndex(dec_dbl(t[2]), rule(t[3]), setd)); }
        set_rows(dec_int(t[1])); return show(nix::util::positionToIndex(dec_dbl(t[2]), rule(t[3]), dfd));
    }
    if (c == "usetvec" || c == "udfvec") {   // <n> <mode> <m> <s e>* [surplus e]
        if (c == "usetvec") set_labels(dec_int(t[1])); else set_rows(dec_int(t[1]));
        size_t m = static_cast<size_t>(dec_int(t[3]));
        std::vector<double> s, e;
        for (size_t i = 0; i < m; i++) { s.push_back(dec_dbl(t[4 + 2 * i])); e.push_back(dec_dbl(t[5 + 2 * i])); }
        if (t.size() > 4 + 2 * m) e.push_back(dec_dbl(t[4 + 2 * m]));
        auto r = c == "usetvec" ? nix::util::positionToIndex(s, e, rmode(t[2]), setd) : nix::util::positionToIndex(s, e, rmode(t[2]), dfd);
        std::string out = std::to_string(r.size());
        for (auto &x : r) out += " [" + showp(x) + "]";
        return out;
    }
#pragma GCC diagnostic push
#pragma GCC diagnostic ignored "-Wdeprecated-declarations"
    if (c == "udep" || c == "udepvec") {
        // udep s <dt> <off|-> <dimunit|-> <p> <unit> | udep r <k> <t..> <dimunit|-> <p> <unit> | udep set <n> <p> <unit>
        // udepvec <same dimension part> <m> <s e u>*
        size_t at;
        const std::string &k = t[1];
        if (k == "s") { set_sampled(t[2], t[3]); at = 4; if (t[at] == "-") sd.unit(boost::none); else sd.unit(t[at]); at++; }
        else if (k == "r") {
            size_t n = static_cast<size_t>(dec_int(t[2]));
            std::vector<double> ticks;
            for (size_t i = 0; i < n; i++) ticks.push_back(dec_dbl(t[3 + i]));
            set_ticks(ticks);
            at = 3 + n; if (t[at] == "-") rd.unit(boost::none); else rd.unit(t[at]); at++;
        } else { set_labels(dec_int(t[2])); at = 3; }
        if (c == "udep") {
            double p = dec_dbl(t[at]);
            const std::string &u = t[at + 1];
            nix::ndsize_t r = k == "s" ? nix::util::positionToIndex(p, u, sd) : k == "r" ? nix::util::positionToIndex(p, u, rd) : nix::util::positionToIndex(p, u, setd);
            return enc_u64(r);
        }
        size_t m = static_cast<size_t>(dec_int(t[at]));
        std::vector<double> s, e;
        std::vector<std::string> u;
        for (size_t i = 0; i < m; i++) { s.push_back(dec_dbl(t[at + 1 + 3 * i])); e.push_back(dec_dbl(t[at + 2 + 3 * i])); u.push_back(t[at + 3 + 3 * i]); }
        auto r = k == "s" ? nix::util::positionToIndex(s, e, u, sd) : k == "r" ? nix::util::positionToIndex(s, e, u, rd) : nix::util::positionToIndex(s, e, u, setd);
        std::string out = std::to_string(r.size());
        for (auto &x : r) out += " [" + enc_u64(x.first) + " " + enc_u64(x.second) + "]";
        return out;
    }
#pragma GCC diagnostic pop
    if (c == "saxis") {        // saxis <dt> <off|-> <count> <start>
        set_sampled(t[1], t[2]);
        auto ax = sd.axis(dec_u64(t[3]), dec_u64(t[4]));
        std::string out = std::to_string(ax.size());
        for (double x : ax) out += " " + enc_dbl(x);
        return out;
    }
    if (c == "raxis" || c == "tickat") {   // raxis <k> <t..> <count> <start> | tickat <k> <t..> <i>
        size_t k = static_cast<size_t>(dec_int(t[1]));
        std::vector<double> ticks;
        for (size_t i = 0; i < k; i++) ticks.push_back(dec_dbl(t[2 + i]));
        set_ticks(ticks);
        if (c == "tickat") return enc_dbl(rd.tickAt(dec_u64(t[2 + k])));
        auto ax = rd.axis(dec_u64(t[2 + k]), dec_u64(t[3 + k]));
        std::string out = std::to_string(ax.size());
        for (double x : ax) out += " " + enc_dbl(x);
        return out;
    }
    if (c == "uvec" || c == "upos") {
        size_t at;
        bool sampled = t[1] == "s";
        if (sampled) {
            set_sampled(t[2], t[3]);
            at = 4;
        } else {
            size_t k = static_cast<size_t>(dec_int(t[2]));
            std::vector<double> ticks;
            for (size_t i = 0; i < k; i++) ticks.push_back(dec_dbl(t[3 + i]));
            set_ticks(ticks);
            at = 3 + k;
        }
        const std::string &du = t[at];
        if (sampled) { if (du == "-") sd.unit(boost::none); else sd.unit(du); }
        else { if (du == "-") rd.unit(boost::none); else rd.unit(du); }
        if (c == "upos") {
            double p = dec_dbl(t[at + 1]);
            if (sampled) return show(nix::util::positionToIndex(p, t[at + 2], rule(t[at + 3]), sd));
            return show(nix::util::positionToIndex(p, t[at + 2], rule(t[at + 3]), rd));
        }
        nix::RangeMatch rm = rmode(t[at + 1]);
        size_t m = static_cast<size_t>(dec_int(t[at + 2]));
        std::vector<double> s, e;
        std::vector<std::string> u;
        for (size_t i = 0; i < m; i++) {
            s.push_back(dec_dbl(t[at + 3 + 3 * i])); e.push_back(dec_dbl(t[at + 4 + 3 * i])); u.push_back(t[at + 5 + 3 * i]);
        }
        auto r = sampled ? nix::util::positionToIndex(s, e, u, rm, sd) : nix::util::positionToIndex(s, e, u, rm, rd);
        std::string out = std::to_string(r.size());
        for (auto &x : r) out += " [" + showp(x) + "]";
        return out;
    }
    if (c == "stale") {
        size_t k = static_cast<size_t>(dec_int(t[1]));
        std::vector<double> t1, t2;
        for (size_t i = 0; i < k; i++) t1.push_back(dec_dbl(t[2 + i]));
        size_t k2 = static_cast<size_t>(dec_int(t[2 + k]));
        for (size_t i = 0; i < k2; i++) t2.push_back(dec_dbl(t[3 + k + i]));
        double p = dec_dbl(t[3 + k + k2]);
        nix::PositionMatch r = rule(t[4 + k + k2]);
        ticks_set = false;
        rd.ticks(t1);
        nix::RangeDimension h1 = da_r.getDimension(1).asRangeDimension();     // a long-lived handle ...
        (void) h1.indexOf(p, r); (void) h1.ticks(); (void) h1.axis(1, 0);      // ... that has already been used
        nix::RangeDimension h2 = da_r.getDimension(1).asRangeDimension();
        h2.ticks(t2);                                                          // the ticks change through another handle
        return show(h1.indexOf(p, r)) + " | " + show(rd.indexOf(p, r));
    }
    throw std::logic_error("bad command " + c);
}

int main(int argc, char **argv) {
    if (argc < 3) { std::cerr << "usage: drv_C07 <casefile> <workdir>\n"; return 2; }
    H5Eset_auto2(H5E_DEFAULT, nullptr, nullptr);
    std::string f = std::string(argv[2]) + "/c07.nix";
    file = nix::File::open(f, nix::FileMode::Overwrite);
    block = file.createBlock("b", "t");
    da_s = block.createDataArray("sampled", "t", nix::DataType::Double, nix::NDSize({4}));
    sd = da_s.appendSampledDimension(1.0);
    da_set = block.createDataArray("set", "t", nix::DataType::Double, nix::NDSize({4}));
    setd = da_set.appendSetDimension();
    da_r = block.createDataArray("range", "t", nix::DataType::Double, nix::NDSize({4}));
    rd = da_r.appendRangeDimension(std::vector<double>{0.0, 1.0});
    da_df = block.createDataArray("df", "t", nix::DataType::Double, nix::NDSize({4}));
    std::vector<nix::Column> cols = {{"c", "", nix::DataType::Double}};
    frame = block.createDataFrame("frame", "t", cols);
    dfd = da_df.appendDataFrameDimension(frame);
    int rc = run_file(argv[1], handle);
    file.close();
    return rc;
}
