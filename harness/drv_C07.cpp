// C07 correspondence driver: position -> index conversion through the public dimension API.
//   sampled <dt> <off|-> <p> <rule>            SampledDimension::indexOf(p, rule)   (off "-" = no offset stored)
//   set <nlabels> <p> <rule>                   SetDimension::indexOf
//   df <nrows> <p> <rule>                      DataFrameDimension::indexOf
//   range <k> <t1..tk> <p> <rule>              RangeDimension::indexOf
//   posat <dt> <off|-> <i>                     SampledDimension::positionAt(i)
//   sampledpair <dt> <off|-> <s> <e> <incl|excl>   indexOf(s, e, RangeMatch)
//   setpair <n> <s> <e> <mode> | dfpair <n> <s> <e> <mode> | rangepair <k> <t..> <s> <e> <mode>
//   sampledvec <dt> <off|-> <mode> <m> <s1 e1 .. sm em>  the vector overload (m pairs)
// rules: L LE GE G EQ
#include "common.hpp"
#include <hdf5.h>

using namespace nixv;

static nix::File file;
static nix::Block block;
static nix::DataArray da_s, da_set, da_r, da_df;
static nix::DataFrame frame;
static nix::SampledDimension sd;
static nix::SetDimension setd;
static nix::RangeDimension rd;
static nix::DataFrameDimension dfd;
static bool have_last = false;
static double last_dt = 0, last_off = 0;
static bool last_has_off = false;
static long last_labels = -1, last_rows = -1;
static std::vector<double> last_ticks;
static bool ticks_set = false;

static nix::PositionMatch rule(const std::string &r) {
    if (r == "L") return nix::PositionMatch::Less;
    if (r == "LE") return nix::PositionMatch::LessOrEqual;
    if (r == "GE") return nix::PositionMatch::GreaterOrEqual;
    if (r == "G") return nix::PositionMatch::Greater;
    if (r == "EQ") return nix::PositionMatch::Equal;
    throw std::logic_error("bad rule " + r);
}

static nix::RangeMatch rmode(const std::string &m) {
    if (m == "incl") return nix::RangeMatch::Inclusive;
    if (m == "excl") return nix::RangeMatch::Exclusive;
    throw std::logic_error("bad mode " + m);
}

static std::string show(const boost::optional<nix::ndsize_t> &o) {
    return o ? enc_u64(*o) : std::string("none");
}

static std::string showp(const boost::optional<std::pair<nix::ndsize_t, nix::ndsize_t>> &o) {
    return o ? enc_u64(o->first) + " " + enc_u64(o->second) : std::string("none");
}

static void set_sampled(const std::string &dt_s, const std::string &off_s) {
    double dt = dec_dbl(dt_s);
    bool has = off_s != "-";
    double off = has ? dec_dbl(off_s) : 0.0;
    if (have_last && std::memcmp(&dt, &last_dt, 8) == 0 && has == last_has_off && std::memcmp(&off, &last_off, 8) == 0)
        return;
    have_last = false;
    sd.samplingInterval(dt);
    if (has) sd.offset(off); else sd.offset(boost::none);
    last_dt = dt; last_off = off; last_has_off = has; have_last = true;
}

static void set_labels(long n) {
    if (n == last_labels) return;
    std::vector<std::string> l;
    for (long i = 0; i < n; i++) l.push_back("l" + std::to_string(i));
    if (n == 0) setd.labels(boost::none); else setd.labels(l);
    last_labels = n;
}

static void set_rows(long n) {
    if (n == last_rows) return;
    frame.rows(static_cast<nix::ndsize_t>(n));
    last_rows = n;
}

static void set_ticks(const std::vector<double> &t) {
    if (ticks_set && t.size() == last_ticks.size() && (t.empty() || std::memcmp(t.data(), last_ticks.data(), 8 * t.size()) == 0)) return;
    ticks_set = false;
    rd.ticks(t);
    last_ticks = t; ticks_set = true;
}

static std::string handle(const std::vector<std::string> &t) {
    const std::string &c = t[0];
    if (c == "sampled") { set_sampled(t[1], t[2]); return show(sd.indexOf(dec_dbl(t[3]), rule(t[4]))); }
    if (c == "posat") { set_sampled(t[1], t[2]); return enc_dbl(sd.positionAt(dec_u64(t[3]))); }
    if (c == "set") { set_labels(dec_int(t[1])); return show(setd.indexOf(dec_dbl(t[2]), rule(t[3]))); }
    if (c == "df") { set_rows(dec_int(t[1])); return show(dfd.indexOf(dec_dbl(t[2]), rule(t[3]))); }
    if (c == "range" || c == "rangepair") {
        size_t k = static_cast<size_t>(dec_int(t[1]));
        std::vector<double> ticks;
        for (size_t i = 0; i < k; i++) ticks.push_back(dec_dbl(t[2 + i]));
        set_ticks(ticks);
        if (c == "range") return show(rd.indexOf(dec_dbl(t[2 + k]), rule(t[3 + k])));
        return showp(rd.indexOf(dec_dbl(t[2 + k]), dec_dbl(t[3 + k]), std::vector<double>(), rmode(t[4 + k])));
    }
    if (c == "sampledpair") { set_sampled(t[1], t[2]); return showp(sd.indexOf(dec_dbl(t[3]), dec_dbl(t[4]), rmode(t[5]))); }
    if (c == "setpair") { set_labels(dec_int(t[1])); return showp(setd.indexOf(dec_dbl(t[2]), dec_dbl(t[3]), rmode(t[4]))); }
    if (c == "dfpair") { set_rows(dec_int(t[1])); return showp(dfd.indexOf(dec_dbl(t[2]), dec_dbl(t[3]), rmode(t[4]))); }
    if (c == "sampledvec") {
        set_sampled(t[1], t[2]);
        size_t m = static_cast<size_t>(dec_int(t[4]));
        std::vector<double> s, e;
        for (size_t i = 0; i < m; i++) { s.push_back(dec_dbl(t[5 + 2 * i])); e.push_back(dec_dbl(t[6 + 2 * i])); }
        auto r = sd.indexOf(s, e, rmode(t[3]));
        std::string out = std::to_string(r.size());
        for (auto &x : r) out += " [" + showp(x) + "]";
        return out;
    }
    throw std::logic_error("bad command " + c);
}

int main(int argc, char **argv) {
    if (argc < 3) { std::cerr << "usage: drv_C07 <casefile> <workdir>\n"; return 2; }
    H5Eset_auto2(H5E_DEFAULT, nullptr, nullptr);
    std::string f = std::string(argv[2]) + "/c07.nix";
    file = nix::File::open(f, nix::FileMode::Overwrite);
    block = file.createBlock("b", "t");
    da_s = block.createDataArray("sampled", "t", nix::DataType::Double, nix::NDSize({4}));
    sd = da_s.appendSampledDimension(1.0);
    da_set = block.createDataArray("set", "t", nix::DataType::Double, nix::NDSize({4}));
    setd = da_set.appendSetDimension();
    da_r = block.createDataArray("range", "t", nix::DataType::Double, nix::NDSize({4}));
    rd = da_r.appendRangeDimension(std::vector<double>{0.0, 1.0});
    da_df = block.createDataArray("df", "t", nix::DataType::Double, nix::NDSize({4}));
    std::vector<nix::Column> cols = {{"c", "", nix::DataType::Double}};
    frame = block.createDataFrame("frame", "t", cols);
    dfd = da_df.appendDataFrameDimension(frame);
    int rc = run_file(argv[1], handle);
    file.close();
    return rc;
}
