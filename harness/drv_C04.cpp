// C04 implementation driver: the script interpreter of hist_common.hpp (see there for the language); in mode C04 every
// successful delete answers with the delete report computed on the implementation's own dumps.
#include "hist_common.hpp"
int main(int argc, char **argv) {
    if (argc < 3) { std::cerr << "usage: drv_C04 <casefile> <workdir>\n"; return 2; }
    return nixv::hist::run(argv[1], argv[2], "C04");
}
