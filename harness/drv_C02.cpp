// C02 implementation driver: the script interpreter of hist_common.hpp.  `reopen rw|ro|other|otherw` compares the raw
// dump (everything the property lists) before the close with the raw dump after the reopen; for `other` a child
// process (this binary with --rawdump) opens the file, dumps it and exits.
#include "hist_common.hpp"
int main(int argc, char **argv) {
    if (argc >= 4 && std::string(argv[1]) == "--rawdump") return nixv::hist::rawdump_main(argv[2], argv[3]);
    if (argc < 3) { std::cerr << "usage: drv_C02 <casefile> <workdir> | drv_C02 --rawdump <file> ro|rw\n"; return 2; }
    return nixv::hist::run(argv[1], argv[2], "C02");
}
