// Command interpreter of the C09 / C11 implementation drivers (see fileio_common.hpp for the language).
#ifndef NIXV_FILEIO_DRIVER_HPP
#define NIXV_FILEIO_DRIVER_HPP

namespace fio {

// live handles kept across calls (C11: "any number of entity handles still alive when close is called")
struct Pool {
    std::vector<nix::File> file;
    std::vector<nix::Block> block;
    std::vector<nix::DataArray> array;
    std::vector<nix::SetDimension> dset;
    std::vector<nix::SampledDimension> dsam;
    std::vector<nix::RangeDimension> drng;
    std::vector<nix::RangeDimension> dali;
    std::vector<nix::DataFrameDimension> dfrm;
    std::vector<nix::Dimension> dim;
    std::vector<nix::Tag> tag;
    std::vector<nix::MultiTag> mtag;
    std::vector<nix::Feature> feature;
    std::vector<nix::Group> group;
    std::vector<nix::Source> source;
    std::vector<nix::Section> section;
    std::vector<nix::Section> subsection;
    std::vector<nix::Property> property;
    std::vector<nix::DataView> view;
    std::vector<nix::DataFrame> frame;
    void clear() { *this = Pool(); }
    size_t total() const {
        return file.size() + block.size() + array.size() + dset.size() + dsam.size() + drng.size() + dali.size() + dfrm.size() + dim.size() +
               tag.size() + mtag.size() + feature.size() + group.size() + source.size() + section.size() + subsection.size() +
               property.size() + view.size() + frame.size();
    }
};

} // namespace fio
#include "fileio_stale.hpp"
namespace fio {

struct State {
    std::string path;            // the case file
    nix::File f;                 // the session (none when closed)
    nix::File f2;                // a second File object on the same path in the same process (C09)
    Pool pool;
    std::string snap_full;       // reference full dump
    bool have_snap = false;
    std::string sha0;
    std::vector<std::vector<std::string>> history;   // replayable lines since the last `fs`
    struct Point { std::string full, small; bool is_close; };
    std::vector<Point> points;   // expected observation at every flush / close of the main run
    bool replaying = false;      // inside a kill-harness child
    int kill_at = -1;            // child: SIGKILL after the kill_at-th flush/close (0-based)
    int seen_points = 0;
    int notify_fd = -1;
};
static State S;

static const std::string RICH = "r";

static nix::FileMode parse_mode(const std::string &m) {
    if (m == "ro") return nix::FileMode::ReadOnly;
    if (m == "rw") return nix::FileMode::ReadWrite;
    if (m == "ow") return nix::FileMode::Overwrite;
    throw std::logic_error("bad mode " + m);
}
static std::string mode_name(nix::FileMode m) {
    switch (m) {
    case nix::FileMode::ReadOnly: return "ro";
    case nix::FileMode::ReadWrite: return "rw";
    case nix::FileMode::Overwrite: return "ow";
    }
    return "?";
}
static nix::Compression parse_comp(const std::string &c) {
    if (c == "none") return nix::Compression::None;
    if (c == "deflate") return nix::Compression::DeflateNormal;
    if (c == "auto") return nix::Compression::Auto;
    throw std::logic_error("bad compression " + c);
}
static std::string comp_name(nix::Compression c) {
    switch (c) {
    case nix::Compression::None: return "none";
    case nix::Compression::DeflateNormal: return "deflate";
    case nix::Compression::Auto: return "auto";
    }
    return "?";
}

static void need_session() {
    if (!S.f) throw nix::UninitializedEntity();     // what the front end itself throws on a none File
}

static std::vector<int64_t> ints_from(const std::vector<std::string> &t, size_t from) {
    std::vector<int64_t> v;
    for (size_t i = from; i < t.size(); i++) v.push_back(static_cast<int64_t>(dec_int(t[i])));
    return v;
}

// ---- header damage through the HDF5 C API (the file is closed) ------------------------------
static void set_str_attr(hid_t root, const char *name, const std::string &val) {
    if (H5Aexists(root, name) > 0) H5Adelete(root, name);
    hid_t ty = H5Tcopy(H5T_C_S1);
    H5Tset_size(ty, H5T_VARIABLE);
    H5Tset_cset(ty, H5T_CSET_UTF8);            // as the library writes its strings (an ASCII string attribute is read
                                               // back by LocID::getAttr only after some UTF-8 string has been converted
                                               // in the same process - an HDF5 conversion-path quirk that is not C09's)
    hid_t sp = H5Screate(H5S_SCALAR);
    hid_t at = H5Acreate2(root, name, ty, sp, H5P_DEFAULT, H5P_DEFAULT);
    const char *p = val.c_str();
    H5Awrite(at, ty, &p);
    H5Aclose(at); H5Sclose(sp); H5Tclose(ty);
}

static void damage_header(const std::string &path, const std::string &defect) {
    hid_t h = H5Fopen(path.c_str(), H5F_ACC_RDWR, H5P_DEFAULT);
    if (h < 0) throw std::logic_error("bad script: hdr on a file that is not HDF5");
    hid_t root = H5Gopen2(h, "/", H5P_DEFAULT);
    if (defect == "noformat") H5Adelete(root, "format");
    else if (defect == "badformat") set_str_attr(root, "format", "xin");
    else if (defect == "noversion") H5Adelete(root, "version");
    else if (defect == "noid") H5Adelete(root, "id");
    else if (defect.compare(0, 4, "fmt=") == 0) set_str_attr(root, "format", dec_str(defect.substr(4)));
    else if (defect.compare(0, 4, "ver=") == 0) {
        std::vector<int> v;
        std::string cur;
        for (char ch : defect.substr(4) + ".") {
            if (ch == '.') { v.push_back(static_cast<int>(dec_int(cur))); cur.clear(); } else cur.push_back(ch);
        }
        if (H5Aexists(root, "version") > 0) H5Adelete(root, "version");
        hsize_t dims[1] = { v.size() };
        hid_t sp = H5Screate_simple(1, dims, nullptr);
        hid_t at = H5Acreate2(root, "version", H5T_STD_I32LE, sp, H5P_DEFAULT, H5P_DEFAULT);
        H5Awrite(at, H5T_NATIVE_INT, v.data());
        H5Aclose(at);
        H5Sclose(sp);
    }
    else { H5Gclose(root); H5Fclose(h); throw std::logic_error("bad defect " + defect); }
    H5Gclose(root);
    H5Fclose(h);
}

static void put_prior(const std::string &path, const std::string &variant) {
    ::unlink(path.c_str());
    if (variant == "missing") return;
    if (variant == "nonh5") { std::ofstream x(path, std::ios::trunc); x << "this is not an hdf5 file, just some text that is long enough to be read\n"; return; }
    if (variant == "empty") { std::ofstream x(path, std::ios::trunc); return; }
    if (variant == "plainh5") { hid_t h = H5Fcreate(path.c_str(), H5F_ACC_TRUNC, H5P_DEFAULT, H5P_DEFAULT); H5Fclose(h); return; }
    if (variant == "lib") { nix::File f = nix::File::open(path, nix::FileMode::Overwrite); f.close(); return; }
    throw std::logic_error("bad fs variant " + variant);
}

// ---- content operations (the small tree) ------------------------------------------------------
static std::string content_op(const std::vector<std::string> &t) {
    need_session();
    const std::string &c = t[0];
    if (c == "blk") { S.f.createBlock(t.at(1), "t"); return ""; }
    if (c == "sec") { S.f.createSection(t.at(1), "t"); return ""; }
    if (c == "arr") {
        nix::Block b = S.f.getBlock(t.at(1));
        std::vector<int64_t> v = ints_from(t, 3);
        nix::DataArray a = b.createDataArray(t.at(2), "t", DataType::Int64, NDSize({v.size()}));
        if (!v.empty()) a.setData(DataType::Int64, v.data(), NDSize({v.size()}), NDSize({0}));
        return "";
    }
    if (c == "set") {
        nix::Block b = S.f.getBlock(t.at(1));
        nix::DataArray a = b.getDataArray(t.at(2));
        std::vector<int64_t> v = ints_from(t, 3);
        a.setData(v);                       // DataSet::setData(value): dataExtent(shape) then write
        return "";
    }
    if (c == "prop") {
        nix::Section s = S.f.getSection(t.at(1));
        s.createProperty(t.at(2), Variant(static_cast<int64_t>(dec_int(t.at(3)))));
        return "";
    }
    if (c == "delblk") return S.f.deleteBlock(t.at(1)) ? "1" : "0";
    if (c == "delsec") return S.f.deleteSection(t.at(1)) ? "1" : "0";
    if (c == "delarr") { nix::Block b = S.f.getBlock(t.at(1)); return b.deleteDataArray(t.at(2)) ? "1" : "0"; }
    if (c == "rich") {
        if (S.f.hasBlock(t.at(1))) throw nix::DuplicateName("rich");
        if (S.f.hasSection(t.at(1) + "_md") || S.f.hasSection(t.at(1) + "_lk")) throw nix::DuplicateName("rich");
        make_rich(S.f, t.at(1));
        return "";
    }
    throw std::logic_error("bad command " + c);
}

static std::string status_suffix() {
    // the invariant FileHDF5::close relies on: between calls no attribute id of the file is open and the
    // file id itself has exactly one reference
    hid_t h = file_hid(S.f);
    long attrs = static_cast<long>(H5Fget_obj_count(h, H5F_OBJ_ATTR));
    long files = static_cast<long>(H5Fget_obj_count(h, H5F_OBJ_FILE));
    std::ostringstream o;
    o << "attrs=" << attrs << " fileref=" << (files == 1 ? H5Iget_ref(h) : -static_cast<int>(files));
    return o.str();
}

// ---- read battery -------------------------------------------------------------------------------
static std::string battery() {
    need_session();
    size_t reads = 0;
    std::string d = full_dump(S.f);            // every getter of every entity, all data, all sections
    reads += d.size() > 0;
    for (auto &b : S.f.blocks()) {
        for (auto &tg : b.tags()) {
            for (size_t i = 0; i < tg.referenceCount(); i++) {
                nix::DataView v = tg.taggedData(i);
                NDSize e = v.dataExtent();
                std::vector<double> buf(static_cast<size_t>(e.nelms()));
                v.getData(DataType::Double, buf.data(), e, NDSize(e.size(), 0));
                reads++;
            }
            for (size_t i = 0; i < tg.featureCount(); i++) { nix::DataView v = tg.featureData(i); reads += v.dataExtent().size() > 0; }
        }
        for (auto &mt : b.multiTags()) {
            nix::DataArray p = mt.positions();
            nix::ndsize_t npos = p.dataExtent()[0];
            for (size_t i = 0; i < mt.referenceCount(); i++)
                for (nix::ndsize_t k = 0; k < npos; k++) {
                    nix::DataView v = mt.taggedData(k, i);
                    NDSize e = v.dataExtent();
                    std::vector<double> buf(static_cast<size_t>(e.nelms()));
                    v.getData(DataType::Double, buf.data(), e, NDSize(e.size(), 0));
                    reads++;
                }
            for (size_t i = 0; i < mt.featureCount(); i++) { nix::DataView v = mt.featureData(0, i); reads += v.dataExtent().size() > 0; }
        }
        for (auto &a : b.dataArrays()) {
            std::vector<double> calibrated;
            if (a.dataType() != DataType::String && a.dataExtent().size() == 1) { a.getData(calibrated); reads++; }
            for (auto &dm : a.dimensions()) {
                if (dm.dimensionType() == nix::DimensionType::Sample) { dm.asSampledDimension().axis(3); reads++; }
                if (dm.dimensionType() == nix::DimensionType::Range) { nix::RangeDimension rd = dm.asRangeDimension(); rd.tickAt(0); rd.indexOf(2.0, nix::PositionMatch::LessOrEqual); reads++; }
            }
        }
        b.findSources();
    }
    for (auto &s : S.f.findSections()) { s.inheritedProperties(); s.findRelated(); s.referringDataArrays(); s.referringTags(); s.referringBlocks(); reads++; }
    nix::valid::Result res = S.f.validate();
    reads += res.getErrors().size() + res.getWarnings().size() + 1;
    return reads > 0 ? "battery" : "battery-empty";
}

// ---- mutators -----------------------------------------------------------------------------------
static const std::vector<MutEntry> &mut_table() { static std::vector<MutEntry> v = mutators(); return v; }
static const std::vector<MutEntry> &nomut_table() { static std::vector<MutEntry> v = non_mutators(); return v; }

static const MutEntry *find_entry(const std::vector<MutEntry> &tab, const std::string &name) {
    for (auto &e : tab) if (name == e.name) return &e;
    return nullptr;
}

// run one table entry on the rich block of file `f`; "OK" / "ERR"
static std::string run_entry(const MutEntry &e, nix::File &f) {
    Rich r(f, RICH);
    try {
        e.fn(r);
    } catch (const std::exception &) {
        return "ERR";
    }
    return "OK";
}

// Run `fn` in a forked child with a CPU-time limit: a mutator that loops for ever on a read-only file must not
// take the driver with it.  Result: the child's exit code (0..9 chosen by fn), "HANG" or "CRASH".
static std::string in_child(const std::function<int()> &fn) {
    std::cout.flush();
    pid_t pid = ::fork();
    if (pid < 0) throw std::logic_error("fork failed");
    if (pid == 0) {
        struct rlimit rl;
        rl.rlim_cur = 2; rl.rlim_max = 3;           // seconds of CPU time of this child
        ::setrlimit(RLIMIT_CPU, &rl);
        int rc = 9;
        try { rc = fn(); } catch (...) { rc = 8; }
        ::_exit(rc);
    }
    int status = 0;
    // wall-clock guard for a child that blocks without using CPU
    for (int waited = 0; ; waited++) {
        pid_t r = ::waitpid(pid, &status, WNOHANG);
        if (r == pid) break;
        if (waited > 120000) { ::kill(pid, SIGKILL); ::waitpid(pid, &status, 0); return "HANG"; }
        ::usleep(1000);
    }
    if (WIFSIGNALED(status)) return (WTERMSIG(status) == SIGXCPU || WTERMSIG(status) == SIGKILL) ? "HANG" : "CRASH";
    return std::to_string(WEXITSTATUS(status));
}

static std::string verdict(const std::string &rc) {
    if (rc == "0") return "OK";
    if (rc == "1") return "ERR";
    if (rc == "2") return "OPENFAIL";
    if (rc == "HANG") return "HANG";
    return "CRASH";
}

//   romut <name> <comp> <force>   a whole read-only session around one mutator, in a child process
//   rwmut <name>                  the same mutator in a read-write session on a scratch copy
//   nomut <name> <ro|rw>          a call that has nothing to write
static std::string do_mut(const std::vector<std::string> &t) {
    const std::string &name = t.at(1);
    const MutEntry *e = find_entry(t[0] == "nomut" ? nomut_table() : mut_table(), name);
    if (!e) return name + " UNKNOWN";
    if (S.f) throw std::logic_error("bad script: " + t[0] + " with an open session");
    bool ro = t[0] == "romut" || (t[0] == "nomut" && t.at(2) == "ro");
    if (!ro) {
        std::string scratch = S.path + ".scratch";
        copy_file(S.path, scratch);
        std::string rc = in_child([&]() {
            nix::File g;
            try { g = nix::File::open(scratch, nix::FileMode::ReadWrite); } catch (...) { return 2; }
            int res = run_entry(*e, g) == "OK" ? 0 : 1;
            g.close();
            return res;
        });
        std::string after = "";
        // the scratch copy must still open (the mutator left a valid file).  Only the small tree is read back:
        // a grown data frame has never-written String cells, whose read is a defect that belongs to C15
        try {
            nix::File g = nix::File::open(scratch, nix::FileMode::ReadOnly);
            small_dump(g);
            g.close();
        } catch (...) { after = " BROKEN-FILE"; }
        ::unlink(scratch.c_str());
        return name + " " + verdict(rc) + after;
    }
    nix::Compression comp = t[0] == "romut" ? parse_comp(t.at(2)) : nix::Compression::Auto;
    bool force = t[0] == "romut" && t.at(3) == "1";
    std::string before = sha_file(S.path);
    std::string rc = in_child([&]() {
        nix::File g;
        try { g = nix::File::open(S.path, nix::FileMode::ReadOnly, "hdf5", comp, force ? nix::OpenFlags::Force : nix::OpenFlags::None); }
        catch (...) { return 2; }
        int res = run_entry(*e, g) == "OK" ? 0 : 1;
        g.close();
        return res;
    });
    std::string after = sha_file(S.path);
    return name + " " + verdict(rc) + (before == after ? " sha-same" : " sha-DIFF");
}

// ---- handles --------------------------------------------------------------------------------------
static size_t hold(const std::string &kind, size_t n) {
    need_session();
    Pool &p = S.pool;
    for (size_t i = 0; i < n; i++) {
        bool copy = (i % 3) == 2;          // every third handle is a copy of the previous one, the others are fetched anew
        if (kind == "file") { p.file.push_back(S.f); continue; }
        nix::Block b = S.f.getBlock(RICH);
        if (!b) throw std::logic_error("bad script: no rich block");
#define HOLD(k, vec, fresh) if (kind == k) { if (copy && !p.vec.empty()) p.vec.push_back(p.vec.back()); else p.vec.push_back(fresh); continue; }
        HOLD("block", block, b)
        HOLD("array", array, b.getDataArray(i % 2 ? "sig" : "spare"))
        HOLD("dset", dset, b.getDataArray("sig").getDimension(2).asSetDimension())
        HOLD("dsam", dsam, b.getDataArray("sig").getDimension(1).asSampledDimension())
        HOLD("drng", drng, b.getDataArray("rng").getDimension(1).asRangeDimension())
        HOLD("dali", dali, b.getDataArray("ali").getDimension(1).asRangeDimension())
        HOLD("dfrm", dfrm, b.getDataArray("fdim").getDimension(1).asDataFrameDimension())
        HOLD("dim", dim, b.getDataArray("sig").getDimension(1 + i % 2))
        HOLD("tag", tag, b.getTag("tg"))
        HOLD("mtag", mtag, b.getMultiTag("mt"))
        HOLD("feature", feature, (i % 2 ? b.getMultiTag("mt").getFeature(0) : b.getTag("tg").getFeature(0)))
        HOLD("group", group, b.getGroup("gr"))
        HOLD("source", source, (i % 2 ? b.getSource("so").getSource("so2") : b.getSource("so")))
        HOLD("section", section, S.f.getSection(RICH + "_md"))
        HOLD("subsection", subsection, S.f.getSection(RICH + "_md").getSection("rsub"))
        HOLD("property", property, S.f.getSection(RICH + "_md").getProperty(i % 2 ? "ps" : "pi"))
        HOLD("view", view, (i % 2 ? b.getMultiTag("mt").taggedData(0, 0) : b.getTag("tg").taggedData(0)))
        HOLD("frame", frame, b.getDataFrame("df"))
#undef HOLD
        throw std::logic_error("bad handle kind " + kind);
    }
    return p.total();
}

template<typename T> static void drop_n(std::vector<T> &v, size_t n) { while (n-- && !v.empty()) v.pop_back(); }

static size_t drop(const std::string &kind, size_t n) {
    Pool &p = S.pool;
    if (kind == "file") drop_n(p.file, n);
    else if (kind == "block") drop_n(p.block, n);
    else if (kind == "array") drop_n(p.array, n);
    else if (kind == "dset") drop_n(p.dset, n);
    else if (kind == "dsam") drop_n(p.dsam, n);
    else if (kind == "drng") drop_n(p.drng, n);
    else if (kind == "dali") drop_n(p.dali, n);
    else if (kind == "dfrm") drop_n(p.dfrm, n);
    else if (kind == "dim") drop_n(p.dim, n);
    else if (kind == "tag") drop_n(p.tag, n);
    else if (kind == "mtag") drop_n(p.mtag, n);
    else if (kind == "feature") drop_n(p.feature, n);
    else if (kind == "group") drop_n(p.group, n);
    else if (kind == "source") drop_n(p.source, n);
    else if (kind == "section") drop_n(p.section, n);
    else if (kind == "subsection") drop_n(p.subsection, n);
    else if (kind == "property") drop_n(p.property, n);
    else if (kind == "view") drop_n(p.view, n);
    else if (kind == "frame") drop_n(p.frame, n);
    else throw std::logic_error("bad handle kind " + kind);
    return p.total();
}

// ---- stale handles ----------------------------------------------------------------------------------
static const std::vector<StaleEntry> &stale_table() { static std::vector<StaleEntry> v = stale_calls(); return v; }

static std::string do_stale(const std::vector<std::string> &t) {
    const std::string &name = t.at(1);
    const StaleEntry *e = nullptr;
    for (auto &x : stale_table()) if (name == x.name) e = &x;
    if (!e) return name + " UNKNOWN";
    if (S.f) throw std::logic_error("bad script: stale with an open session");
    std::string before = sha_file(S.path);
    std::string res = e->fn(S.pool);       // OK | ERR | MIXED | NOHANDLE
    std::string after = sha_file(S.path);
    return name + " " + res + (before == after ? "" : " FILE-CHANGED");
}

// ---- kill harness -----------------------------------------------------------------------------------
static std::string handle(const std::vector<std::string> &t);

static bool replayable(const std::string &c) {
    static const std::set<std::string> s = {"fs", "hdr", "open", "blk", "sec", "arr", "set", "prop", "delblk", "delsec", "delarr", "rich",
                                            "flush", "close", "hold", "drop", "battery", "dump", "mutin"};
    return s.count(c) > 0;
}

// called (in the main run and in a child) at every flush / close that found an open session
static void crash_point(bool is_close, const std::string &full, const std::string &small) {
    if (!S.replaying) {
        S.points.push_back({full, small, is_close});
        return;
    }
    if (S.seen_points++ == S.kill_at) {
        if (is_close) {
            // the file is closed but this process (with its stale handles) stays alive until the parent has
            // reopened the file read-write from another process
            char c = 'c';
            if (::write(S.notify_fd, &c, 1) != 1) _exit(3);
            for (;;) ::pause();
        }
        ::raise(SIGKILL);                       // no destructor, no atexit handler, no HDF5 shutdown
        _exit(4);
    }
}

static std::string try_open_dump(const std::string &path, nix::FileMode m, const std::string &expect_full, std::string *small) {
    try {
        nix::File g = nix::File::open(path, m);
        std::string d = full_dump(g);
        if (small) *small = small_dump(g);
        g.close();
        return d == expect_full ? "same" : "DIFF";
    } catch (...) {
        return "ERR:" + classify();
    }
}

static std::string killrun() {
    if (S.f) throw std::logic_error("bad script: killrun with an open session");
    std::ostringstream o;
    o << "points=" << S.points.size();
    std::string kpath = S.path + ".kill";
    for (size_t k = 0; k < S.points.size(); k++) {
        ::unlink(kpath.c_str());
        int fds[2];
        if (::pipe(fds) != 0) throw std::logic_error("pipe failed");
        std::cout.flush();
        pid_t pid = ::fork();
        if (pid < 0) throw std::logic_error("fork failed");
        if (pid == 0) {
            // ---- the writing process
            ::close(fds[0]);
            struct rlimit rl;
            rl.rlim_cur = 120; rl.rlim_max = 130;      // a replay that spins must not block the parent for ever
            ::setrlimit(RLIMIT_CPU, &rl);
            int devnull = ::open("/dev/null", O_WRONLY);
            if (devnull >= 0) { ::dup2(devnull, 1); }
            std::vector<std::vector<std::string>> lines = S.history;
            S.history.clear();
            S.points.clear();
            S.replaying = true;
            S.kill_at = static_cast<int>(k);
            S.seen_points = 0;
            S.notify_fd = fds[1];
            S.path = kpath;
            // the parent's handles are meaningless here and must not be touched: leak them
            new Pool(std::move(S.pool));
            S.pool = Pool();
            new nix::File(S.f);
            S.f = nix::none;
            for (auto &l : lines) {
                try { handle(l); } catch (...) { }
            }
            _exit(5);                              // the kill point was not reached
        }
        ::close(fds[1]);
        std::string live = "-";
        bool is_close = S.points[k].is_close;
        if (is_close) {
            char c = 0;
            ssize_t n = ::read(fds[0], &c, 1);
            if (n == 1) {
                // the writer is alive and has returned from close(): another process can open read-write
                live = try_open_dump(kpath, nix::FileMode::ReadWrite, S.points[k].full, nullptr);
            } else {
                live = "NOSIGNAL";
            }
            ::kill(pid, SIGKILL);
        }
        ::close(fds[0]);
        int status = 0;
        ::waitpid(pid, &status, 0);
        bool killed = WIFSIGNALED(status) && WTERMSIG(status) == SIGKILL;
        std::string small;
        std::string ro = try_open_dump(kpath, nix::FileMode::ReadOnly, S.points[k].full, &small);
        std::string rw = try_open_dump(kpath, nix::FileMode::ReadWrite, S.points[k].full, nullptr);
        std::string ow;
        try {
            nix::File g = nix::File::open(kpath, nix::FileMode::Overwrite);
            ow = (g.blockCount() == 0 && g.sectionCount() == 0) ? "empty" : "NOTEMPTY";
            g.close();
        } catch (...) { ow = "ERR:" + classify(); }
        o << " | " << (is_close ? "close" : "flush") << (killed ? "" : " NOTKILLED(" + std::to_string(status) + ")")
          << " live-rw=" << live << " ro=" << ro << " rw=" << rw << " ow=" << ow << " " << small;
        ::unlink(kpath.c_str());
    }
    return o.str();
}

// ---- dispatcher ---------------------------------------------------------------------------------------
static std::string handle_inner(const std::vector<std::string> &t) {
    const std::string &c = t[0];
    std::ostringstream o;
    if (c == "fs") {
        S.pool.clear();
        if (S.f2) { try { S.f2.close(); } catch (...) { } }
        S.f2 = nix::none;
        if (S.f) { try { S.f.close(); } catch (...) { } }
        S.f = nix::none;
        S.have_snap = false;
        S.points.clear();
        ::unlink(S.path.c_str());
        put_prior(S.path, t.at(1));
        return t.at(1);
    }
    if (c == "hdr") { damage_header(S.path, t.at(1)); return t.at(1); }
    if (c == "open") {
        if (S.f) throw std::logic_error("bad script: open with an open session");
        nix::FileMode m = parse_mode(t.at(1));
        nix::Compression comp = parse_comp(t.at(2));
        bool force = t.at(3) == "1";
        nix::File g = nix::File::open(S.path, m, "hdf5", comp, force ? nix::OpenFlags::Force : nix::OpenFlags::None);
        S.f = g;
        o << "mode=" << mode_name(g.fileMode()) << " comp=" << comp_name(g.compression()) << " blocks=" << g.blockCount()
          << " sections=" << g.sectionCount() << " " << status_suffix();
        return o.str();
    }
    if (c == "blk" || c == "sec" || c == "arr" || c == "set" || c == "prop" || c == "delblk" || c == "delsec" || c == "delarr" || c == "rich") {
        std::string r = content_op(t);
        return c + (r.empty() ? "" : " " + r) + " " + status_suffix();
    }
    if (c == "dump") { need_session(); return small_dump(S.f); }
    if (c == "snap") { need_session(); S.snap_full = full_dump(S.f); S.have_snap = true; return "snap"; }
    if (c == "cmp") {
        need_session();
        if (!S.have_snap) throw std::logic_error("bad script: cmp without snap");
        return full_dump(S.f) == S.snap_full ? "tree-same" : "tree-DIFF";
    }
    if (c == "sha0") { S.sha0 = sha_file(S.path); return "sha"; }
    if (c == "sha?") { return sha_file(S.path) == S.sha0 ? "sha-same" : "sha-DIFF"; }
    if (c == "romut" || c == "nomut" || c == "rwmut") return do_mut(t);
    if (c == "mutin") {
        // one mutator of the table inside the CURRENT session (meant for read-only sessions: the refused call must
        // leave nothing behind - no open attribute, no extra reference on the file id)
        need_session();
        const MutEntry *e = find_entry(mut_table(), t.at(1));
        if (!e) return t.at(1) + " UNKNOWN";
        std::string res = run_entry(*e, S.f);
        return t.at(1) + " " + res + " " + status_suffix();
    }
    if (c == "battery") return battery();
    if (c == "flush") {
        need_session();
        std::string full = full_dump(S.f), small = small_dump(S.f);
        bool ok = S.f.flush();
        std::string st = status_suffix();
        if (ok) crash_point(false, full, small);
        return std::string(ok ? "1" : "0") + " " + st;
    }
    // ---- a second File object on the case path while the first is open
    if (c == "open2") {
        need_session();
        if (S.f2) throw std::logic_error("bad script: open2 twice");
        nix::File g = nix::File::open(S.path, parse_mode(t.at(1)), "hdf5", parse_comp(t.at(2)),
                                      t.at(3) == "1" ? nix::OpenFlags::Force : nix::OpenFlags::None);
        S.f2 = g;
        o << "mode=" << mode_name(g.fileMode()) << " comp=" << comp_name(g.compression()) << " blocks=" << g.blockCount()
          << " sections=" << g.sectionCount();
        return o.str();
    }
    if (c == "mutin2" || c == "blk2" || c == "dump2" || c == "flush2" || c == "close2") {
        need_session();
        if (!S.f2) throw nix::UninitializedEntity();
        if (c == "mutin2") {
            const MutEntry *e = find_entry(mut_table(), t.at(1));
            if (!e) return t.at(1) + " UNKNOWN";
            return t.at(1) + " " + run_entry(*e, S.f2);
        }
        if (c == "blk2") { S.f2.createBlock(t.at(1), "t"); return "blk2"; }
        if (c == "dump2") return small_dump(S.f2);
        if (c == "flush2") return S.f2.flush() ? "1" : "0";
        S.f2.close();
        S.f2 = nix::none;
        return "closed";
    }
    if (c == "close") {
        need_session();
        if (S.f2) throw std::logic_error("bad script: close while the second File is open");
        std::string full, small;
        // (after a second File object on the same path was closed, its close() has swept this File's groups too:
        //  nothing can be read through it any more, but it can still be closed)
        try { full = full_dump(S.f); small = small_dump(S.f); } catch (const std::exception &) { full = "unreadable"; small = "unreadable"; }
        S.f.close();
        S.f = nix::none;
        long objs = open_objects();
        crash_point(true, full, small);
        return "objs=" + std::to_string(objs);
    }
    if (c == "hold") { size_t n = hold(t.at(1), static_cast<size_t>(dec_u64(t.at(2)))); return "held=" + std::to_string(n) + " " + status_suffix(); }
    if (c == "drop") { size_t n = drop(t.at(1), static_cast<size_t>(dec_u64(t.at(2)))); return "held=" + std::to_string(n); }
    if (c == "stale") return do_stale(t);
    if (c == "killrun") return killrun();
    throw std::logic_error("bad command " + c);
}

static std::string handle(const std::vector<std::string> &t) {
    if (t[0] == "fs" && !S.replaying) S.history.clear();
    if (!S.replaying && replayable(t[0])) S.history.push_back(t);
    return handle_inner(t);
}

static int driver_main(int argc, char **argv) {
    if (argc < 2) { std::cerr << "usage: drv <casefile> <workdir> | --list\n"; return 2; }
    if (std::string(argv[1]) == "--list") {
        for (auto &e : mut_table()) std::cout << "MUT " << e.name << "\n";
        for (auto &e : nomut_table()) std::cout << "NOMUT " << e.name << "\n";
        for (auto &e : stale_table()) std::cout << "STALE " << e.name << " " << e.cls << "\n";
        return 0;
    }
    if (argc < 3) { std::cerr << "usage: drv <casefile> <workdir>\n"; return 2; }
    workdir = argv[2];
    S.path = workdir + "/case.nix";
    H5Eset_auto2(H5E_DEFAULT, nullptr, nullptr);
    H5open();
    baseline_types = count_all(H5F_OBJ_DATATYPE);
    return run_file(argv[1], handle);
}

} // namespace fio
#endif
