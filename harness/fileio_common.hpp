// Shared implementation driver of C09 (file open modes) and C11 (close / flush: complete and released).
// One script language, interpreted here over the public nix API (plus direct HDF5 C calls for header
// manipulation, open-object counts and the kill harness) and by the extracted Coq model
// (coq/FileIO/Script.v via ocaml/fileio_glue.ml).
//
//   fs <missing|nonh5|empty|plainh5|lib>         reset the case: remove the case file, close any session, drop every
//                                                held handle, then put that prior content at the case path
//   hdr <noformat|badformat|noversion|noid|fmt=s:<hex>|ver=x.y.z>
//                                                damage the header of the (closed) case file through the HDF5 C API
//                                                (format set to that string / version set to that vector)
//   open <ro|rw|ow> <none|deflate|auto> <0|1>    File::open(path, mode, "hdf5", compression, Force?) ->
//                                                mode=<fileMode()> comp=<compression()> blocks=<n> sections=<n>
//   blk n | sec n | arr b n v.. | set b a v.. | prop s n v | delblk n | delsec n | delarr b n | rich n
//                                                content operations of the small tree (see small_dump)
//   dump                                         small canonical tree of the open session
//   snap / cmp                                   remember / compare the FULL canonical tree (every getter of every entity)
//   sha0 / sha?                                  remember / compare the SHA-256 of the bytes of the case file
//   romut <name> <comp> <force>                  a whole read-only session (open, ONE mutator of the public API on the
//                                                rich block "r", close) in a child process with a CPU-time limit ->
//                                                <name> ERR|OK|HANG|CRASH sha-same|sha-DIFF
//   rwmut <name>                                 the same mutator in a read-write session on a scratch copy (shows
//                                                that the call itself is well formed)  -> <name> OK
//   nomut <name> <ro|rw>                         a mutating-looking call that has nothing to write in that state
//   mutin <name> <unlink-checked>                one mutator of the table inside the current session -> <name> OK|ERR attrs=.. fileref=..
//   open2 <mode> <comp> <force> | mutin2 <name> <uc> | blk2 n | dump2 | flush2 | close2
//                                                a SECOND File object on the case path while the session is open
//   battery                                      read everything: data, sections, tagged data, validator
//   flush | close                                -> 1 attrs=0 / objs=0
//   hold <kind> <n> | drop <kind> <n>            acquire / release live handles on the rich block "r"
//   stale <name> <touch|cached>                  after close: one call on every held handle of that kind
//   killrun                                      fault enumeration: re-run the recorded history in a child process and
//                                                SIGKILL it after every flush / close; reopen from this process
#ifndef NIXV_FILEIO_COMMON_HPP
#define NIXV_FILEIO_COMMON_HPP

#include "common.hpp"
#include <hdf5.h>
#include <hdf5/FileHDF5.hpp>
#include <unistd.h>
#include <fcntl.h>
#include <signal.h>
#include <sys/types.h>
#include <sys/wait.h>
#include <sys/stat.h>
#include <sys/resource.h>
#include <map>
#include <set>
#include <memory>
#include <algorithm>

namespace fio {
using namespace nixv;
using nix::DataType;
using nix::NDSize;
using nix::Variant;

static std::string workdir;

// ---------------------------------------------------------------------------------------------
// SHA-256 (FIPS 180-4) of a file's bytes
// ---------------------------------------------------------------------------------------------
struct Sha256 {
    uint32_t h[8];
    uint64_t len = 0;
    unsigned char buf[64];
    size_t fill = 0;
    Sha256() {
        static const uint32_t init[8] = {0x6a09e667, 0xbb67ae85, 0x3c6ef372, 0xa54ff53a, 0x510e527f, 0x9b05688c, 0x1f83d9ab, 0x5be0cd19};
        std::memcpy(h, init, sizeof h);
    }
    static uint32_t rotr(uint32_t x, int n) { return (x >> n) | (x << (32 - n)); }
    void block(const unsigned char *p) {
        static const uint32_t k[64] = {
            0x428a2f98, 0x71374491, 0xb5c0fbcf, 0xe9b5dba5, 0x3956c25b, 0x59f111f1, 0x923f82a4, 0xab1c5ed5, 0xd807aa98, 0x12835b01,
            0x243185be, 0x550c7dc3, 0x72be5d74, 0x80deb1fe, 0x9bdc06a7, 0xc19bf174, 0xe49b69c1, 0xefbe4786, 0x0fc19dc6, 0x240ca1cc,
            0x2de92c6f, 0x4a7484aa, 0x5cb0a9dc, 0x76f988da, 0x983e5152, 0xa831c66d, 0xb00327c8, 0xbf597fc7, 0xc6e00bf3, 0xd5a79147,
            0x06ca6351, 0x14292967, 0x27b70a85, 0x2e1b2138, 0x4d2c6dfc, 0x53380d13, 0x650a7354, 0x766a0abb, 0x81c2c92e, 0x92722c85,
            0xa2bfe8a1, 0xa81a664b, 0xc24b8b70, 0xc76c51a3, 0xd192e819, 0xd6990624, 0xf40e3585, 0x106aa070, 0x19a4c116, 0x1e376c08,
            0x2748774c, 0x34b0bcb5, 0x391c0cb3, 0x4ed8aa4a, 0x5b9cca4f, 0x682e6ff3, 0x748f82ee, 0x78a5636f, 0x84c87814, 0x8cc70208,
            0x90befffa, 0xa4506ceb, 0xbef9a3f7, 0xc67178f2};
        uint32_t w[64];
        for (int i = 0; i < 16; i++) w[i] = (uint32_t(p[4 * i]) << 24) | (uint32_t(p[4 * i + 1]) << 16) | (uint32_t(p[4 * i + 2]) << 8) | p[4 * i + 3];
        for (int i = 16; i < 64; i++) {
            uint32_t s0 = rotr(w[i - 15], 7) ^ rotr(w[i - 15], 18) ^ (w[i - 15] >> 3);
            uint32_t s1 = rotr(w[i - 2], 17) ^ rotr(w[i - 2], 19) ^ (w[i - 2] >> 10);
            w[i] = w[i - 16] + s0 + w[i - 7] + s1;
        }
        uint32_t a = h[0], b = h[1], c = h[2], d = h[3], e = h[4], f = h[5], g = h[6], hh = h[7];
        for (int i = 0; i < 64; i++) {
            uint32_t S1 = rotr(e, 6) ^ rotr(e, 11) ^ rotr(e, 25);
            uint32_t ch = (e & f) ^ (~e & g);
            uint32_t t1 = hh + S1 + ch + k[i] + w[i];
            uint32_t S0 = rotr(a, 2) ^ rotr(a, 13) ^ rotr(a, 22);
            uint32_t mj = (a & b) ^ (a & c) ^ (b & c);
            uint32_t t2 = S0 + mj;
            hh = g; g = f; f = e; e = d + t1; d = c; c = b; b = a; a = t1 + t2;
        }
        h[0] += a; h[1] += b; h[2] += c; h[3] += d; h[4] += e; h[5] += f; h[6] += g; h[7] += hh;
    }
    void update(const unsigned char *p, size_t n) {
        len += n;
        while (n) {
            size_t take = std::min(n, sizeof buf - fill);
            std::memcpy(buf + fill, p, take);
            fill += take; p += take; n -= take;
            if (fill == 64) { block(buf); fill = 0; }
        }
    }
    std::string hex() {
        uint64_t bits = len * 8;
        unsigned char pad = 0x80;
        update(&pad, 1);
        unsigned char z = 0;
        while (fill != 56) update(&z, 1);
        unsigned char lb[8];
        for (int i = 0; i < 8; i++) lb[i] = static_cast<unsigned char>(bits >> (56 - 8 * i));
        update(lb, 8);
        char out[65];
        for (int i = 0; i < 8; i++) std::snprintf(out + 8 * i, 9, "%08x", h[i]);
        return out;
    }
};

static std::string sha_file(const std::string &p) {
    std::ifstream in(p, std::ios::binary);
    if (!in) return "absent";
    Sha256 s;
    char b[65536];
    while (in) {
        in.read(b, sizeof b);
        std::streamsize n = in.gcount();
        if (n > 0) s.update(reinterpret_cast<unsigned char *>(b), static_cast<size_t>(n));
    }
    return s.hex();
}

static void copy_file(const std::string &from, const std::string &to) {
    std::ifstream src(from, std::ios::binary);
    std::ofstream dst(to, std::ios::binary | std::ios::trunc);
    dst << src.rdbuf();
}

static bool file_exists(const std::string &p) { struct stat st; return ::stat(p.c_str(), &st) == 0; }

// ---------------------------------------------------------------------------------------------
// HDF5 open-object accounting
// ---------------------------------------------------------------------------------------------
static long baseline_types = -1;      // datatype ids that exist before any file is open (library statics)

static long count_all(unsigned types) {
    ssize_t n = H5Fget_obj_count(static_cast<hid_t>(H5F_OBJ_ALL), types);
    return static_cast<long>(n);
}

// every HDF5 object id (file, group, dataset, attribute, named datatype) open in this process, minus the
// transient datatype ids the library holds from static initialisation on
static long open_objects() {
    long n = count_all(H5F_OBJ_FILE | H5F_OBJ_GROUP | H5F_OBJ_DATASET | H5F_OBJ_ATTR);
    long t = count_all(H5F_OBJ_DATATYPE);
    return n + (t - baseline_types);
}

static hid_t file_hid(const nix::File &f) {
    auto p = std::dynamic_pointer_cast<nix::hdf5::FileHDF5>(f.impl());
    if (!p) throw std::logic_error("bad backend");
    return p->h5id();
}

// ---------------------------------------------------------------------------------------------
// canonical dumps
// ---------------------------------------------------------------------------------------------
struct Dumper {
    std::ostringstream o;
    std::map<std::string, size_t> ids;          // entity id -> ordinal of first encounter
    std::string ord(const std::string &id) {
        auto it = ids.find(id);
        if (it == ids.end()) it = ids.insert({id, ids.size()}).first;
        return "#" + std::to_string(it->second);
    }
    static std::string q(const std::string &s) { return enc_str(s); }
    static std::string qo(const boost::optional<std::string> &s) { return s ? enc_str(*s) : std::string("-"); }
    static std::string dbl(double d) { return enc_dbl(d); }
    static std::string dbls(const std::vector<double> &v) { std::string r = "["; for (double d : v) r += enc_dbl(d) + ","; return r + "]"; }
    static std::string strs(const std::vector<std::string> &v) { std::string r = "["; for (auto &s : v) r += enc_str(s) + ","; return r + "]"; }
    static std::string size(const NDSize &s) { std::string r = "{"; for (size_t i = 0; i < s.size(); i++) r += std::to_string(s[i]) + ","; return r + "}"; }

    static std::string variant(const Variant &v) {
        std::ostringstream s;
        s << static_cast<int>(v.type()) << ":";
        switch (v.type()) {
        case DataType::Bool: s << v.get<bool>(); break;
        case DataType::Int32: s << v.get<int32_t>(); break;
        case DataType::UInt32: s << v.get<uint32_t>(); break;
        case DataType::Int64: s << v.get<int64_t>(); break;
        case DataType::UInt64: s << v.get<uint64_t>(); break;
        case DataType::Double: s << enc_dbl(v.get<double>()); break;
        case DataType::String: s << enc_str(v.get<std::string>()); break;
        default: s << "?"; break;
        }
        return s.str();
    }

    template<typename E> void named(const E &e) {
        o << " id=" << ord(e.id()) << " name=" << q(e.name()) << " type=" << q(e.type()) << " def=" << qo(e.definition());
    }
    template<typename E> void meta(const E &e) {
        nix::Section m = e.metadata();
        o << " md=" << (m ? ord(m.id()) : std::string("-"));
    }
    template<typename E> void srcs(const E &e) {
        o << " src=[";
        std::vector<std::string> v;
        for (auto &s : e.sources()) v.push_back(ord(s.id()));
        for (auto &s : v) o << s << ",";
        o << "]";
    }

    void data_of(const nix::DataArray &a) {
        NDSize ext = a.dataExtent();
        DataType dt = a.dataType();
        o << " dtype=" << static_cast<int>(dt) << " extent=" << size(ext);
        size_t n = ext.size() ? static_cast<size_t>(ext.nelms()) : 0;
        o << " data=";
        if (n == 0) { o << "()"; return; }
        if (dt == DataType::String) {
            std::vector<std::string> v(n);
            a.getDataDirect(DataType::String, v.data(), ext, NDSize(ext.size(), 0));
            o << strs(v);
        } else if (dt == DataType::Bool) {
            std::unique_ptr<bool[]> v(new bool[n]);
            a.getDataDirect(DataType::Bool, v.get(), ext, NDSize(ext.size(), 0));
            for (size_t i = 0; i < n; i++) o << (v[i] ? '1' : '0');
        } else if (dt == DataType::Double || dt == DataType::Float) {
            std::vector<double> v(n);
            a.getDataDirect(DataType::Double, v.data(), ext, NDSize(ext.size(), 0));
            o << dbls(v);
        } else if (dt == DataType::UInt64) {
            std::vector<uint64_t> v(n);
            a.getDataDirect(DataType::UInt64, v.data(), ext, NDSize(ext.size(), 0));
            for (auto x : v) o << x << ",";
        } else {
            std::vector<int64_t> v(n);
            a.getDataDirect(DataType::Int64, v.data(), ext, NDSize(ext.size(), 0));
            for (auto x : v) o << x << ",";
        }
    }

    void dimension(const nix::Dimension &d) {
        o << "\n      dim " << d.index() << " kind=" << static_cast<int>(d.dimensionType());
        switch (d.dimensionType()) {
        case nix::DimensionType::Set: {
            nix::SetDimension s = d.asSetDimension();
            o << " label=" << qo(s.label()) << " labels=" << strs(s.labels());
            break;
        }
        case nix::DimensionType::Sample: {
            nix::SampledDimension s = d.asSampledDimension();
            o << " label=" << qo(s.label()) << " unit=" << qo(s.unit()) << " si=" << dbl(s.samplingInterval());
            boost::optional<double> off = s.offset();
            o << " off=" << (off ? dbl(*off) : std::string("-"));
            break;
        }
        case nix::DimensionType::Range: {
            nix::RangeDimension r = d.asRangeDimension();
            o << " alias=" << r.alias() << " label=" << qo(r.label()) << " unit=" << qo(r.unit()) << " ticks=" << dbls(r.ticks());
            break;
        }
        case nix::DimensionType::DataFrame: {
            nix::DataFrameDimension f = d.asDataFrameDimension();
            boost::optional<unsigned> ci = f.columnIndex();
            o << " col=" << (ci ? std::to_string(*ci) : std::string("-")) << " frame=" << ord(f.data()->id()) << " size=" << f.size();
            break;
        }
        default: break;
        }
    }

    void array(const nix::DataArray &a) {
        o << "\n    array"; named(a); meta(a); srcs(a);
        o << " label=" << qo(a.label()) << " unit=" << qo(a.unit());
        boost::optional<double> eo = a.expansionOrigin();
        o << " origin=" << (eo ? dbl(*eo) : std::string("-")) << " poly=" << dbls(a.polynomCoefficients());
        data_of(a);
        for (auto &d : a.dimensions()) dimension(d);
    }

    void frame(const nix::DataFrame &f) {
        o << "\n    frame"; named(f); meta(f); srcs(f);
        std::vector<nix::Column> cols = f.columns();
        o << " rows=" << f.rows() << " cols=[";
        for (auto &c : cols) o << q(c.name) << "/" << q(c.unit) << "/" << static_cast<int>(c.dtype) << ",";
        o << "]";
        nix::DataFrame g = f;
        for (nix::ndsize_t r = 0; r < f.rows(); r++) {
            o << "\n      row " << r << ":";
            for (auto &v : g.readRow(r)) o << " " << variant(v);
        }
    }

    void feature(const nix::Feature &f) {
        nix::DataArray d = f.data();
        o << "\n      feature id=" << ord(f.id()) << " link=" << static_cast<int>(f.linkType()) << " data=" << (d ? ord(d.id()) : std::string("-"));
    }

    void tag(const nix::Tag &t) {
        o << "\n    tag"; named(t); meta(t); srcs(t);
        o << " pos=" << dbls(t.position()) << " ext=" << dbls(t.extent()) << " units=" << strs(t.units()) << " refs=[";
        for (auto &r : t.references()) o << ord(r.id()) << ",";
        o << "]";
        for (auto &f : t.features()) feature(f);
    }

    void mtag(const nix::MultiTag &t) {
        o << "\n    mtag"; named(t); meta(t); srcs(t);
        nix::DataArray p = t.positions(), e = t.extents();
        o << " pos=" << (p ? ord(p.id()) : std::string("-")) << " ext=" << (e ? ord(e.id()) : std::string("-"))
          << " units=" << strs(t.units()) << " refs=[";
        for (auto &r : t.references()) o << ord(r.id()) << ",";
        o << "]";
        for (auto &f : t.features()) feature(f);
    }

    void group(const nix::Group &g) {
        o << "\n    group"; named(g); meta(g); srcs(g);
        o << " arrays=[";
        for (auto &x : g.dataArrays()) o << ord(x.id()) << ",";
        o << "] frames=[";
        for (auto &x : g.dataFrames()) o << ord(x.id()) << ",";
        o << "] tags=[";
        for (auto &x : g.tags()) o << ord(x.id()) << ",";
        o << "] mtags=[";
        for (auto &x : g.multiTags()) o << ord(x.id()) << ",";
        o << "]";
    }

    void source(const nix::Source &s, int depth) {
        o << "\n    " << std::string(static_cast<size_t>(depth) * 2, ' ') << "source"; named(s); meta(s);
        for (auto &c : s.sources()) source(c, depth + 1);
    }

    void property(const nix::Property &p) {
        o << "\n      prop id=" << ord(p.id()) << " name=" << q(p.name()) << " def=" << qo(p.definition()) << " unit=" << qo(p.unit());
        boost::optional<double> u = p.uncertainty();
        o << " unc=" << (u ? dbl(*u) : std::string("-")) << " dtype=" << static_cast<int>(p.dataType()) << " n=" << p.valueCount() << " values=";
        for (auto &v : p.values()) o << variant(v) << ",";
    }

    void section(const nix::Section &s, int depth) {
        o << "\n  " << std::string(static_cast<size_t>(depth) * 2, ' ') << "section"; named(s);
        nix::Section l = s.link();
        o << " repo=" << qo(s.repository()) << " link=" << (l ? ord(l.id()) : std::string("-"));
        for (auto &p : s.properties()) property(p);
        for (auto &c : s.sections()) section(c, depth + 1);
    }

    void block(const nix::Block &b) {
        o << "\n  block"; named(b); meta(b);
        for (auto &s : b.sources()) source(s, 0);
        for (auto &a : b.dataArrays()) array(a);
        for (auto &f : b.dataFrames()) frame(f);
        for (auto &t : b.tags()) tag(t);
        for (auto &t : b.multiTags()) mtag(t);
        for (auto &g : b.groups()) group(g);
    }

    std::string file(const nix::File &f) {
        std::vector<int> v = f.version();
        o << "file format=" << q(f.format()) << " version=";
        for (int x : v) o << x << ".";
        o << " hasid=" << !f.id().empty() << " blocks=" << f.blockCount() << " sections=" << f.sectionCount();
        // sections first: entities refer to them
        for (auto &s : f.sections()) section(s, 0);
        for (auto &b : f.blocks()) block(b);
        return o.str();
    }
};

static std::string full_dump(const nix::File &f) { Dumper d; return d.file(f); }

// The small tree both drivers can compute:
//   B[<block>/<extra>(<array>=v,v,..;<array>=..)|<block>..]S[<section>/<subsections>(<prop>=<v>;..)|..]
// extra = tags + multi tags + groups + sources + data frames of the block; array values read as Int64 (row-major);
// property value = its single Int64 value, otherwise #<count>
static std::string small_dump(const nix::File &f) {
    std::ostringstream o;
    o << "B[";
    bool firstb = true;
    for (auto &b : f.blocks()) {
        if (!firstb) o << "|";
        firstb = false;
        o << b.name() << "/" << (b.tagCount() + b.multiTagCount() + b.groupCount() + b.sourceCount() + b.dataFrameCount()) << "(";
        bool firsta = true;
        for (auto &a : b.dataArrays()) {
            if (!firsta) o << ";";
            firsta = false;
            o << a.name() << "=";
            NDSize ext = a.dataExtent();
            size_t n = ext.size() ? static_cast<size_t>(ext.nelms()) : 0;
            std::vector<int64_t> v(n);
            if (n) a.getDataDirect(DataType::Int64, v.data(), ext, NDSize(ext.size(), 0));
            for (size_t i = 0; i < n; i++) o << (i ? "," : "") << v[i];
        }
        o << ")";
    }
    o << "]S[";
    bool firsts = true;
    for (auto &s : f.sections()) {
        if (!firsts) o << "|";
        firsts = false;
        o << s.name() << "/" << s.sectionCount() << "(";
        bool firstp = true;
        for (auto &p : s.properties()) {
            if (!firstp) o << ";";
            firstp = false;
            o << p.name() << "=";
            if (p.dataType() == DataType::Int64 && p.valueCount() == 1) o << p.values()[0].get<int64_t>();
            else o << "#" << p.valueCount();
        }
        o << ")";
    }
    o << "]";
    return o.str();
}

// ---------------------------------------------------------------------------------------------
// rich content: one block with every entity kind (the mutator enumeration and the handle populations use it)
// ---------------------------------------------------------------------------------------------
static std::vector<nix::Column> rich_columns() {
    std::vector<nix::Column> cols(3);
    cols[0].name = "name"; cols[0].unit = ""; cols[0].dtype = DataType::String;
    cols[1].name = "val"; cols[1].unit = "mV"; cols[1].dtype = DataType::Double;
    cols[2].name = "n"; cols[2].unit = ""; cols[2].dtype = DataType::Int64;
    return cols;
}

static nix::DataArray mk_array(nix::Block &b, const std::string &name, const NDSize &shape, const std::vector<double> &vals) {
    nix::DataArray a = b.createDataArray(name, "rt", DataType::Double, shape);
    a.setData(DataType::Double, vals.data(), shape, NDSize(shape.size(), 0));
    return a;
}

// creates block <name>, root sections <name>_md (with a sub section and three properties) and <name>_lk
static void make_rich(nix::File &f, const std::string &name) {
    nix::Section md = f.createSection(name + "_md", "mt");
    md.definition("sdef");
    md.repository("repo");
    nix::Section lk = f.createSection(name + "_lk", "mt");
    lk.createProperty("lp", Variant(int64_t(9)));
    md.link(lk);
    nix::Section sub = md.createSection("rsub", "mt");
    sub.createProperty("subp", Variant(int64_t(1)));
    nix::Property pi = md.createProperty("pi", Variant(int64_t(5)));
    pi.definition("pdef"); pi.unit("mV"); pi.uncertainty(0.5);
    md.createProperty("pd", std::vector<Variant>{Variant(1.5), Variant(2.5)});
    md.createProperty("ps", std::vector<Variant>{Variant(std::string("a")), Variant(std::string("b"))});

    nix::Block b = f.createBlock(name, "richtype");
    b.definition("rdef");
    b.metadata(md);
    nix::Source so = b.createSource("so", "st");
    so.definition("sodef");
    so.metadata(md);
    nix::Source so2 = so.createSource("so2", "st");
    b.createSource("so3", "st");

    std::vector<double> v12(12);
    for (size_t i = 0; i < 12; i++) v12[i] = static_cast<double>(i);
    nix::DataArray sig = mk_array(b, "sig", NDSize({4, 3}), v12);
    sig.definition("adef"); sig.label("lbl"); sig.unit("mV");
    sig.polynomCoefficients({0.0, 1.0}); sig.expansionOrigin(0.0);
    sig.metadata(md); sig.addSource(so);
    nix::SampledDimension sd = sig.appendSampledDimension(1.0, "time", "ms", 0.5);
    nix::SetDimension st = sig.appendSetDimension({"a", "b", "c"});
    st.label("setl");

    nix::DataArray rng = mk_array(b, "rng", NDSize({4}), {1, 2, 3, 4});
    rng.appendRangeDimension({1, 2, 3, 4}, "rl", "s");
    nix::DataArray ali = mk_array(b, "ali", NDSize({3}), {10, 20, 30});
    ali.label("al"); ali.unit("ms");
    ali.appendAliasRangeDimension();
    mk_array(b, "pos", NDSize({2, 2}), {0, 0, 1, 1});
    mk_array(b, "ext", NDSize({2, 2}), {1, 1, 1, 1});
    mk_array(b, "pos2", NDSize({2, 2}), {1, 0, 2, 1});
    mk_array(b, "ext2", NDSize({2, 2}), {1, 2, 1, 2});
    nix::DataArray feat = mk_array(b, "feat", NDSize({2}), {5, 6});
    mk_array(b, "feat2", NDSize({2}), {7, 8});
    mk_array(b, "spare", NDSize({3}), {7, 8, 9});
    mk_array(b, "spare2", NDSize({3}), {1, 1, 2});

    nix::DataFrame df = b.createDataFrame("df", "ft", rich_columns());
    df.rows(3);
    for (int r = 0; r < 3; r++)
        df.writeRow(static_cast<nix::ndsize_t>(r), {Variant(std::string("row") + std::to_string(r)), Variant(0.5 * r), Variant(int64_t(r * 10))});
    df.definition("fdef"); df.metadata(md); df.addSource(so);
    nix::DataFrame df2 = b.createDataFrame("df2", "ft", rich_columns());
    df2.rows(1);
    df2.writeRow(0, {Variant(std::string("x")), Variant(1.0), Variant(int64_t(1))});

    nix::DataArray fdim = mk_array(b, "fdim", NDSize({3}), {0, 1, 2});
    fdim.appendDataFrameDimension(df, 1u);

    nix::Tag tg = b.createTag("tg", "tt", {0.0, 0.0});
    tg.extent({2.0, 1.0});
    tg.units({"ms", "none"});
    tg.definition("tdef"); tg.metadata(md); tg.addSource(so);
    tg.addReference(sig);
    tg.createFeature(feat, nix::LinkType::Untagged);
    b.createTag("tg2", "tt", {1.0});

    nix::MultiTag mt = b.createMultiTag("mt", "mtt", b.getDataArray("pos"));
    mt.extents(b.getDataArray("ext"));
    mt.units({"ms", "none"});
    mt.definition("mdef"); mt.metadata(md); mt.addSource(so);
    mt.addReference(sig);
    mt.createFeature(feat, nix::LinkType::Untagged);
    b.createMultiTag("mt2", "mtt", b.getDataArray("pos2"));

    nix::Group gr = b.createGroup("gr", "gt");
    gr.definition("gdef"); gr.metadata(md); gr.addSource(so);
    gr.addDataArray(sig); gr.addDataFrame(df); gr.addTag(tg); gr.addMultiTag(mt);
    b.createGroup("gr2", "gt");
}

// the small tree of what make_rich adds (mirrored by Tree.rich_block / rich_sections in coq/FileIO/Tree.v):
//   block  <name>/9(sig=0,..,11;rng=1,2,3,4;ali=10,20,30;pos=0,0,1,1;ext=1,1,1,1;pos2=1,0,2,1;ext2=1,2,1,2;feat=5,6;feat2=7,8;
//                   spare=7,8,9;spare2=1,1,2;fdim=0,1,2)        extra 9 = 2 tags + 2 multi tags + 2 groups + 1 root source + 2 frames
//   sections <name>_md/1(pi=5;pd=#2;ps=#2)  <name>_lk/0(lp=9)

// entities of the rich block, looked up afresh in the session they are used in
struct Rich {
    nix::File f;
    nix::Block b;
    nix::DataArray sig, rng, ali, pos, ext, pos2, ext2, feat, feat2, spare, spare2, fdim;
    nix::DataFrame df, df2;
    nix::Tag tg, tg2;
    nix::MultiTag mt, mt2;
    nix::Feature tfe, mfe;
    nix::Group gr, gr2;
    nix::Source so, so2, so3;
    nix::Section md, lk, sub;
    nix::Property pi, pd, ps, lp;
    nix::SampledDimension dsam;
    nix::SetDimension dset;
    nix::RangeDimension drng, dali;
    nix::DataFrameDimension dfrm;

    Rich(const nix::File &file, const std::string &name) : f(file) {
        b = f.getBlock(name);
        if (!b) throw std::logic_error("bad script: no rich block " + name);
        sig = b.getDataArray("sig"); rng = b.getDataArray("rng"); ali = b.getDataArray("ali");
        pos = b.getDataArray("pos"); ext = b.getDataArray("ext"); pos2 = b.getDataArray("pos2"); ext2 = b.getDataArray("ext2");
        feat = b.getDataArray("feat"); feat2 = b.getDataArray("feat2"); spare = b.getDataArray("spare"); spare2 = b.getDataArray("spare2");
        fdim = b.getDataArray("fdim");
        df = b.getDataFrame("df"); df2 = b.getDataFrame("df2");
        tg = b.getTag("tg"); tg2 = b.getTag("tg2");
        mt = b.getMultiTag("mt"); mt2 = b.getMultiTag("mt2");
        tfe = tg.getFeature(0); mfe = mt.getFeature(0);
        gr = b.getGroup("gr"); gr2 = b.getGroup("gr2");
        so = b.getSource("so"); so2 = so.getSource("so2"); so3 = b.getSource("so3");
        md = f.getSection(name + "_md"); lk = f.getSection(name + "_lk"); sub = md.getSection("rsub");
        pi = md.getProperty("pi"); pd = md.getProperty("pd"); ps = md.getProperty("ps"); lp = lk.getProperty("lp");
        dsam = sig.getDimension(1).asSampledDimension();
        dset = sig.getDimension(2).asSetDimension();
        drng = rng.getDimension(1).asRangeDimension();
        dali = ali.getDimension(1).asRangeDimension();
        dfrm = fdim.getDimension(1).asDataFrameDimension();
    }
};

} // namespace fio
#include "fileio_tables.hpp"
#include "fileio_driver.hpp"
#endif
