// C12 correspondence driver: ids of every entity kind over histories, with the REAL id generator.
//
// Script language (same as ocaml/drv_C12.ml); every entity is named by its creation ordinal, uuids never leave
// the driver:
//   new <t> <e>                                  a fresh process (started at second t; e: entropy, symbolic)
//                                                creates the file (Overwrite)
//   create <kind> <parent|-1> <name> <ref|-1>    kind: block section property array frame tag mtag group source
//                                                feature; name: s:<hex> | @<k> (= the current id of entity k) | -
//                                                ref: data array of a feature / positions array of a multi-tag
//   delete <k> | forceid | set <k> type|def|touch | reopen rw|ro
//   xcreate <t> <e> block|section <n> <name>*n   another process (started at second t) opens the file
//                                                read-write, creates top-level entities and closes
//   xfork <t> <e> block|section <n> <name>*n     like xcreate, but the other process is a child FORKED (no exec) by
//                                                the process that has the file open, i.e. after its id generator
//                                                was initialised (t, e: what a re-seeding library would see)
//   forks <N> <K>                                fork-after-init experiment on separate files (real clock): a process
//                                                draws 2 ids, forks N children; every child creates an own file with K
//                                                blocks and calls util::createId twice, the parent creates K more
//                                                blocks; all ids come back through pipes.  Answer:
//                                                OK forks=N k=K wellformed=<0|1> common=<0|1>
//   reset                                        forget the file and its process (malformed-stream cases start so)
//   procs <k> <n>                                the runtime experiment (real clock): k processes started
//                                                together, n ids each; only used to replay a finding
// Answer to every line:  OK <res> F<w><s> <k>:<w><s>... d=<0|1>
//   res: ok | rej | ok=<ordinal> | ok chg=<0|1> | ok n=<count> | rej n=<count>
//   w: the id is a well-formed version-4 uuid text; s: it is the id the entity had when created (file: since
//   the last forceId); d: no id has ever been seen on two different owners in this file.
//
// Processes and the clock: the seed of the id generator is a function of time(0) at the first createId call of
// a process and the generator is a function-local static.  To make "started in the same second" a script input,
// this binary defines time() itself (the library objects are linked statically, so their calls bind here):
// with a virtual clock set it returns that value, otherwise the real time.  Each case runs in a forked worker
// (the parent never draws an id), other processes are exec'ed copies of this binary (--child).  The id source
// itself is never replaced.
#include "common.hpp"
#include <hdf5.h>
#include <ctime>
#include <map>
#include <set>
#include <unistd.h>
#include <spawn.h>
#include <sys/wait.h>
#include <sys/stat.h>
#include <fcntl.h>

using namespace nixv;

// ---------------------------------------------------------------------------------------------
// the virtual clock
static long long vclock = -1;
extern "C" time_t time(time_t *t) noexcept {
    time_t v;
    if (vclock >= 0) v = static_cast<time_t>(vclock);
    else { struct timespec ts; clock_gettime(CLOCK_REALTIME, &ts); v = ts.tv_sec; }
    if (t) *t = v;
    return v;
}

extern char **environ;
static std::string workdir;
static std::string self_exe;

// ---------------------------------------------------------------------------------------------
// shape of an id, written independently of the library and of the model
static bool is_lower_hex(char c) { return (c >= '0' && c <= '9') || (c >= 'a' && c <= 'f'); }
static bool wellformed(const std::string &s) {
    if (s.size() != 36) return false;
    for (size_t i = 0; i < 36; i++) {
        if (i == 8 || i == 13 || i == 18 || i == 23) { if (s[i] != '-') return false; }
        else if (!is_lower_hex(s[i])) return false;
    }
    if (s[14] != '4') return false;
    return s[19] == '8' || s[19] == '9' || s[19] == 'a' || s[19] == 'b';
}

// ---------------------------------------------------------------------------------------------
enum Kind { KBlock, KSection, KProperty, KArray, KFrame, KTag, KMultiTag, KGroup, KSource, KFeature, KNone };

static Kind parse_kind(const std::string &s) {
    static const char *names[] = {"block", "section", "property", "array", "frame", "tag", "mtag", "group", "source", "feature"};
    for (int i = 0; i < 10; i++) if (s == names[i]) return static_cast<Kind>(i);
    throw std::logic_error("bad kind " + s);
}

struct Ent {
    Kind kind; int parent; std::string name; bool live;
    std::string id0;      // id when created (first seen)
    std::string last;     // id at the last observation
    nix::Block blk; nix::Section sec; nix::Property prop; nix::DataArray arr; nix::DataFrame frame;
    nix::Tag tag; nix::MultiTag mtag; nix::Group grp; nix::Source src; nix::Feature feat;
};

static nix::File file;
static std::string path;
static bool rw = true;
static std::vector<Ent> ents;
static std::string file_id0;            // baseline: id after creation / the last successful forceId
static int file_epoch = 0;
static std::map<std::string, int> owner;   // id -> ordinal, or -1 - epoch for the file
static bool collision = false;

static std::string ent_id(Ent &e) {
    switch (e.kind) {
    case KBlock: return e.blk.id();
    case KSection: return e.sec.id();
    case KProperty: return e.prop.id();
    case KArray: return e.arr.id();
    case KFrame: return e.frame.id();
    case KTag: return e.tag.id();
    case KMultiTag: return e.mtag.id();
    case KGroup: return e.grp.id();
    case KSource: return e.src.id();
    case KFeature: return e.feat.id();
    default: throw std::logic_error("bad kind");
    }
}

static void see(const std::string &id, int who) {
    auto it = owner.find(id);
    if (it == owner.end()) owner[id] = who;
    else if (it->second != who) collision = true;
}

static std::string observe() {
    std::ostringstream o;
    std::string fid;
    try { fid = file.id(); } catch (...) { fid = "?"; }
    see(fid, -1 - file_epoch);
    o << "F" << (wellformed(fid) ? 1 : 0) << (fid == file_id0 ? 1 : 0);
    for (size_t k = 0; k < ents.size(); k++) {
        Ent &e = ents[k];
        if (!e.live) continue;
        std::string id;
        try { id = ent_id(e); } catch (...) { o << " " << k << ":??"; continue; }
        e.last = id;
        see(id, static_cast<int>(k));
        o << " " << k << ":" << (wellformed(id) ? 1 : 0) << (id == e.id0 ? 1 : 0);
    }
    o << " d=" << (collision ? 0 : 1);
    return o.str();
}

static bool container_ok(Kind k, Kind pk) {
    switch (k) {
    case KBlock: return pk == KNone;
    case KSection: return pk == KNone || pk == KSection;
    case KProperty: return pk == KSection;
    case KArray: case KFrame: case KTag: case KMultiTag: case KGroup: return pk == KBlock;
    case KSource: return pk == KBlock || pk == KSource;
    case KFeature: return pk == KTag || pk == KMultiTag;
    default: return false;
    }
}

static bool alive(long k) { return k >= 0 && k < static_cast<long>(ents.size()) && ents[k].live; }

static bool request_ok(Kind k, long parent, long ref) {
    if (parent < 0) return container_ok(k, KNone);
    if (!alive(parent)) return false;
    Ent &pe = ents[parent];
    if (!container_ok(k, pe.kind)) return false;
    if (k == KFeature) return alive(ref) && ents[ref].kind == KArray && ents[ref].parent == pe.parent;
    if (k == KMultiTag) return alive(ref) && ents[ref].kind == KArray && ents[ref].parent == parent;
    return true;
}

static std::string parse_name(const std::string &tok) {
    if (tok == "-") return "";
    if (tok[0] == '@') {
        long k = dec_int(tok.substr(1));
        if (k >= 0 && k < static_cast<long>(ents.size())) return ents[k].last;
        return tok;
    }
    return dec_str(tok);
}

// (re)acquire the handle of entity k by walking names from the file (features: position among the live
// features of their tag, in creation order) -- never by id
static void fetch(size_t k) {
    Ent &e = ents[k];
    Ent *p = e.parent >= 0 ? &ents[e.parent] : nullptr;
    switch (e.kind) {
    case KBlock: e.blk = file.getBlock(e.name); break;
    case KSection: e.sec = p ? p->sec.getSection(e.name) : file.getSection(e.name); break;
    case KProperty: e.prop = p->sec.getProperty(e.name); break;
    case KArray: e.arr = p->blk.getDataArray(e.name); break;
    case KFrame: e.frame = p->blk.getDataFrame(e.name); break;
    case KTag: e.tag = p->blk.getTag(e.name); break;
    case KMultiTag: e.mtag = p->blk.getMultiTag(e.name); break;
    case KGroup: e.grp = p->blk.getGroup(e.name); break;
    case KSource: e.src = p->kind == KBlock ? p->blk.getSource(e.name) : p->src.getSource(e.name); break;
    case KFeature: {
        size_t idx = 0;
        for (size_t j = 0; j < k; j++) if (ents[j].live && ents[j].kind == KFeature && ents[j].parent == e.parent) idx++;
        e.feat = p->kind == KTag ? p->tag.getFeature(static_cast<nix::ndsize_t>(idx)) : p->mtag.getFeature(idx);
        break;
    }
    default: break;
    }
}

static void drop_handles() {
    for (Ent &e : ents) {
        e.blk = nix::Block(); e.sec = nix::Section(); e.prop = nix::Property(); e.arr = nix::DataArray();
        e.frame = nix::DataFrame(); e.tag = nix::Tag(); e.mtag = nix::MultiTag(); e.grp = nix::Group();
        e.src = nix::Source(); e.feat = nix::Feature();
    }
}

static void reopen(bool write) {
    drop_handles();
    if (file) file.close();
    file = nix::none;
    file = nix::File::open(path, write ? nix::FileMode::ReadWrite : nix::FileMode::ReadOnly);
    rw = write;
    for (size_t k = 0; k < ents.size(); k++) {
        if (!ents[k].live) continue;
        try { fetch(k); } catch (...) { /* the observation will show ?? */ }
    }
}

static void create_entity(Ent &e, const std::string &name, long ref) {
    Ent *p = e.parent >= 0 ? &ents[e.parent] : nullptr;
    switch (e.kind) {
    case KBlock: e.blk = file.createBlock(name, "t"); break;
    case KSection: e.sec = p ? p->sec.createSection(name, "t") : file.createSection(name, "t"); break;
    case KProperty: e.prop = p->sec.createProperty(name, nix::DataType::Int32); break;
    case KArray: e.arr = p->blk.createDataArray(name, "t", nix::DataType::Double, nix::NDSize({1})); break;
    case KFrame: {
        nix::Column c; c.name = "c"; c.unit = ""; c.dtype = nix::DataType::Double;
        e.frame = p->blk.createDataFrame(name, "t", std::vector<nix::Column>{c});
        break;
    }
    case KTag: e.tag = p->blk.createTag(name, "t", std::vector<double>{0.0}); break;
    case KMultiTag: e.mtag = p->blk.createMultiTag(name, "t", ents[ref].arr); break;
    case KGroup: e.grp = p->blk.createGroup(name, "t"); break;
    case KSource: e.src = p->kind == KBlock ? p->blk.createSource(name, "t") : p->src.createSource(name, "t"); break;
    case KFeature:
        e.feat = p->kind == KTag ? p->tag.createFeature(ents[ref].arr, nix::LinkType::Tagged)
                                 : p->mtag.createFeature(ents[ref].arr, nix::LinkType::Tagged);
        break;
    default: throw std::logic_error("bad kind");
    }
}

static void mark_dead(size_t k) {
    ents[k].live = false;
    for (size_t j = k + 1; j < ents.size(); j++) if (ents[j].live && ents[j].parent == static_cast<int>(k)) mark_dead(j);
}

static bool delete_entity(size_t k) {
    Ent &e = ents[k];
    Ent *p = e.parent >= 0 ? &ents[e.parent] : nullptr;
    switch (e.kind) {
    case KBlock: return file.deleteBlock(e.name);
    case KSection: return p ? p->sec.deleteSection(e.name) : file.deleteSection(e.name);
    case KProperty: return p->sec.deleteProperty(e.name);
    case KArray: return p->blk.deleteDataArray(e.name);
    case KFrame: return p->blk.deleteDataFrame(e.name);
    case KTag: return p->blk.deleteTag(e.name);
    case KMultiTag: return p->blk.deleteMultiTag(e.name);
    case KGroup: return p->blk.deleteGroup(e.name);
    case KSource: return p->kind == KBlock ? p->blk.deleteSource(e.name) : p->src.deleteSource(e.name);
    case KFeature: {
        // deleteFeature answers true even when nothing was removed (H5Group::removeGroup ignores the result of
        // H5Gunlink, e.g. on a read-only file): believe the container, not the return value
        // (counted, not looked up: hasFeature(id) of an absent id walks the data arrays of all features and
        // dereferences a null pointer when one of them was deleted - DESIGN section 9 item 14, not a C12 matter)
        nix::ndsize_t before = p->kind == KTag ? p->tag.featureCount() : p->mtag.featureCount();
        bool r = p->kind == KTag ? p->tag.deleteFeature(e.last) : p->mtag.deleteFeature(e.last);
        nix::ndsize_t after = p->kind == KTag ? p->tag.featureCount() : p->mtag.featureCount();
        return r && after + 1 == before;
    }
    default: return false;
    }
}

static void setter(Ent &e, const std::string &which) {
    if (which == "touch") {
        switch (e.kind) {
        case KBlock: e.blk.forceUpdatedAt(); break;
        case KSection: e.sec.forceUpdatedAt(); break;
        case KProperty: e.prop.forceUpdatedAt(); break;
        case KArray: e.arr.forceUpdatedAt(); break;
        case KFrame: e.frame.forceUpdatedAt(); break;
        case KTag: e.tag.forceUpdatedAt(); break;
        case KMultiTag: e.mtag.forceUpdatedAt(); break;
        case KGroup: e.grp.forceUpdatedAt(); break;
        case KSource: e.src.forceUpdatedAt(); break;
        case KFeature: e.feat.forceUpdatedAt(); break;
        default: break;
        }
        return;
    }
    bool ty = which == "type";
    switch (e.kind) {
    case KBlock: if (ty) e.blk.type("t2"); else e.blk.definition("a definition"); break;
    case KSection: if (ty) e.sec.type("t2"); else e.sec.definition("a definition"); break;
    case KProperty: if (ty) e.prop.unit("mV"); else e.prop.definition("a definition"); break;
    case KArray: if (ty) e.arr.type("t2"); else e.arr.definition("a definition"); break;
    case KFrame: if (ty) e.frame.type("t2"); else e.frame.definition("a definition"); break;
    case KTag: if (ty) e.tag.type("t2"); else e.tag.definition("a definition"); break;
    case KMultiTag: if (ty) e.mtag.type("t2"); else e.mtag.definition("a definition"); break;
    case KGroup: if (ty) e.grp.type("t2"); else e.grp.definition("a definition"); break;
    case KSource: if (ty) e.src.type("t2"); else e.src.definition("a definition"); break;
    case KFeature: e.feat.linkType(ty ? nix::LinkType::Untagged : nix::LinkType::Indexed); break;
    default: break;
    }
}

static int spawn_wait(const std::vector<std::string> &args) {
    std::vector<char *> argv;
    for (const std::string &a : args) argv.push_back(const_cast<char *>(a.c_str()));
    argv.push_back(nullptr);
    pid_t pid;
    if (posix_spawn(&pid, self_exe.c_str(), nullptr, nullptr, argv.data(), environ) != 0)
        throw std::logic_error("cannot spawn " + self_exe);
    int status = 0;
    while (waitpid(pid, &status, 0) < 0) {}
    return WIFEXITED(status) ? WEXITSTATUS(status) : 128;
}

// what another process does with the file: open read-write, create top-level entities, close, report which worked
static int other_process_work(const std::string &fpath, Kind k, const std::vector<std::string> &names, const std::string &outpath) {
    std::string flags;
    try {
        nix::File f = nix::File::open(fpath, nix::FileMode::ReadWrite);
        for (const std::string &nm : names) {
            bool ok = true;
            try {
                if (k == KBlock) f.createBlock(nm, "t"); else f.createSection(nm, "t");
            } catch (...) { ok = false; }
            flags.push_back(ok ? '1' : '0');
        }
        f.close();
    } catch (...) { return 3; }
    std::ofstream out(outpath);
    out << flags << "\n";
    out.close();
    return 0;
}

static std::string handle(const std::vector<std::string> &t) {
    const std::string &c = t[0];
    if (c == "new") {
        drop_handles(); ents.clear(); owner.clear(); collision = false; file_epoch = 0;
        if (file) file.close();
        file = nix::none;
        vclock = dec_int(t.at(1));
        path = workdir + "/c12.nix";
        file = nix::File::open(path, nix::FileMode::Overwrite);
        rw = true;
        file_id0 = file.id();
        return "ok " + observe();
    }
    if (!file) throw std::logic_error("no file");
    if (c == "create") {
        Kind k = parse_kind(t.at(1));
        long parent = dec_int(t.at(2));
        std::string name = parse_name(t.at(3));
        long ref = dec_int(t.at(4));
        if (!request_ok(k, parent, ref)) return "rej " + observe();
        Ent e; e.kind = k; e.parent = static_cast<int>(parent); e.name = name; e.live = true;
        bool ok = true;
        try { create_entity(e, name, ref); } catch (...) { ok = false; }
        std::string res = "rej";
        if (ok) {
            try { e.id0 = ent_id(e); } catch (...) { e.id0 = "?"; }
            e.last = e.id0;
            ents.push_back(e);
            res = "ok=" + std::to_string(ents.size() - 1);
        }
        return res + " " + observe();
    }
    if (c == "delete") {
        long k = dec_int(t.at(1));
        if (!alive(k)) return "rej " + observe();
        bool ok = false;
        try { ok = delete_entity(static_cast<size_t>(k)); } catch (...) { ok = false; }
        if (ok) mark_dead(static_cast<size_t>(k));
        return std::string(ok ? "ok " : "rej ") + observe();
    }
    if (c == "forceid") {
        std::string before = file.id();
        bool ok = true;
        try { file.forceId(); } catch (...) { ok = false; }
        if (!ok) return "rej " + observe();
        file_id0 = file.id();
        file_epoch++;
        return std::string("ok chg=") + (file_id0 != before ? "1 " : "0 ") + observe();
    }
    if (c == "set") {
        long k = dec_int(t.at(1));
        if (!alive(k)) return "rej " + observe();
        bool ok = true;
        try { setter(ents[k], t.at(2)); } catch (...) { ok = false; }
        return std::string(ok ? "ok " : "rej ") + observe();
    }
    if (c == "reopen") {
        reopen(t.at(1) == "rw");
        return "ok " + observe();
    }
    if (c == "xcreate" || c == "xfork") {
        Kind k = parse_kind(t.at(3));
        size_t n = static_cast<size_t>(dec_u64(t.at(4)));
        if (t.size() != 5 + n) throw std::logic_error("bad name count");
        if (k != KBlock && k != KSection) return "rej n=0 " + observe();
        std::vector<std::string> names;
        std::vector<std::string> args = {self_exe, "--child", path, t.at(1), t.at(3), workdir + "/child.out"};
        for (size_t i = 0; i < n; i++) { names.push_back(parse_name(t[5 + i])); args.push_back(enc_str(names.back())); }
        bool mode = rw;
        drop_handles();
        file.close();
        file = nix::none;
        int rc;
        if (c == "xcreate") rc = spawn_wait(args);
        else {
            // fork without exec: the child is a copy of this process, generator state included
            std::cout << std::flush;
            pid_t pid = fork();
            if (pid < 0) throw std::logic_error("fork failed");
            if (pid == 0) {
                vclock = dec_int(t.at(1));
                _exit(other_process_work(path, k, names, workdir + "/child.out"));
            }
            int status = 0;
            while (waitpid(pid, &status, 0) < 0) {}
            rc = WIFEXITED(status) ? WEXITSTATUS(status) : 128;
        }
        std::string flags;
        { std::ifstream in(workdir + "/child.out"); std::getline(in, flags); }
        if (rc != 0 || flags.size() != n) throw std::logic_error("child process failed");
        reopen(mode);
        size_t made = 0;
        bool all = true;
        for (size_t i = 0; i < n; i++) {
            if (flags[i] != '1') { all = false; continue; }
            Ent e; e.kind = k; e.parent = -1; e.name = names[i]; e.live = true;
            ents.push_back(e);
            try { fetch(ents.size() - 1); ents.back().id0 = ent_id(ents.back()); } catch (...) { ents.back().id0 = "?"; }
            ents.back().last = ents.back().id0;
            made++;
        }
        return std::string(all ? "ok" : "rej") + " n=" + std::to_string(made) + " " + observe();
    }
    throw std::logic_error("bad command " + c);
}

// ---------------------------------------------------------------------------------------------
// --child <file> <t> <kind> <out> <names...>: another process working on the same file
static int child_main(int argc, char **argv) {
    if (argc < 6) return 2;
    vclock = std::stoll(argv[3]);
    std::vector<std::string> names;
    for (int i = 6; i < argc; i++) names.push_back(dec_str(argv[i]));
    return other_process_work(argv[2], parse_kind(argv[4]), names, argv[5]);
}

// --genids <n> <dir>: the runtime experiment, real clock: n ids through the public API on an own file
static int genids_main(int argc, char **argv) {
    if (argc < 4) return 2;
    long n = std::stol(argv[2]);
    std::string dir = argv[3];
    time_t started = time(nullptr);
    std::vector<std::string> ids;
    nix::File f = nix::File::open(dir + "/ids.nix", nix::FileMode::Overwrite);
    ids.push_back(f.id());
    for (long i = 0; i + 1 < n; i++) ids.push_back(f.createBlock("b" + std::to_string(i), "t").id());
    f.close();
    std::ofstream out(dir + "/ids.txt");
    out << static_cast<long long>(started) << "\n";
    for (const std::string &s : ids) out << s << " " << (wellformed(s) ? 1 : 0) << "\n";
    out.close();
    std::cout << static_cast<long long>(started) << "\n";
    return 0;
}

// procs <k> <n>: start k copies of --genids together; do two that saw the same second share an id?
static std::string procs(long k, long n) {
    int shared = 0, common = 0, wf = 1;
    for (int attempt = 0; attempt < 5 && !shared; attempt++) {
        struct timespec ts; clock_gettime(CLOCK_REALTIME, &ts);
        long wait_ns = 1000000000L - ts.tv_nsec + 30000000L;           // just after the next full second
        struct timespec sl = { wait_ns / 1000000000L, wait_ns % 1000000000L };
        nanosleep(&sl, nullptr);
        std::vector<pid_t> pids;
        std::vector<std::string> dirs;
        for (long i = 0; i < k; i++) {
            std::string d = workdir + "/p" + std::to_string(attempt) + "_" + std::to_string(i);
            mkdir(d.c_str(), 0700);
            dirs.push_back(d);
        }
        for (long i = 0; i < k; i++) {
            std::string ns = std::to_string(n);
            char *argv[] = {const_cast<char *>(self_exe.c_str()), const_cast<char *>("--genids"),
                            const_cast<char *>(ns.c_str()), const_cast<char *>(dirs[i].c_str()), nullptr};
            pid_t pid;
            posix_spawn_file_actions_t fa;
            posix_spawn_file_actions_init(&fa);
            posix_spawn_file_actions_addopen(&fa, 1, "/dev/null", O_WRONLY, 0);
            if (posix_spawn(&pid, self_exe.c_str(), &fa, nullptr, argv, environ) == 0) pids.push_back(pid);
            posix_spawn_file_actions_destroy(&fa);
        }
        for (pid_t p : pids) { int st; while (waitpid(p, &st, 0) < 0) {} }
        std::map<std::string, std::set<long>> who;         // id -> processes
        std::map<long long, int> seconds;
        std::vector<long long> sec(k, -1);
        for (long i = 0; i < k; i++) {
            std::ifstream in(dirs[i] + "/ids.txt");
            long long s; if (!(in >> s)) continue;
            sec[i] = s; seconds[s]++;
            std::string id; int w;
            while (in >> id >> w) { who[id].insert(i); if (!w) wf = 0; }
        }
        for (auto &kv : seconds) if (kv.second >= 2) shared = 1;
        for (auto &kv : who) if (kv.second.size() >= 2) common = 1;
    }
    std::ostringstream o;
    o << "procs=" << k << " n=" << n << " shared=" << shared << " wellformed=" << wf << " common=" << common;
    return o.str();
}

// forks <N> <K>, run in a process forked from the pristine driver: draw ids, THEN fork
static void write_all(int fd, const std::string &s) {
    size_t off = 0;
    while (off < s.size()) { ssize_t w = write(fd, s.data() + off, s.size() - off); if (w <= 0) break; off += static_cast<size_t>(w); }
}
static std::string read_all(int fd) {
    std::string s; char buf[4096]; ssize_t r;
    while ((r = read(fd, buf, sizeof buf)) > 0) s.append(buf, static_cast<size_t>(r));
    return s;
}
static std::string forks_experiment(long N, long K) {
    if (N < 1 || N > 64 || K < 0 || K > 1200) throw std::logic_error("bad forks arguments");
    vclock = -1;
    std::string dir = workdir + "/forks";
    mkdir(dir.c_str(), 0700);
    std::vector<std::string> mine;
    {   // the generator is initialised here: the file's id and one block
        nix::File f = nix::File::open(dir + "/parent.nix", nix::FileMode::Overwrite);
        mine.push_back(f.id());
        mine.push_back(f.createBlock("pre", "t").id());
        f.close();
    }
    std::vector<pid_t> pids; std::vector<int> fds;
    for (long i = 0; i < N; i++) {
        int pp[2];
        if (pipe(pp) != 0) throw std::logic_error("pipe failed");
        pid_t pid = fork();
        if (pid < 0) throw std::logic_error("fork failed");
        if (pid == 0) {
            close(pp[0]);
            for (int fd : fds) close(fd);
            std::string out;
            try {
                nix::File f = nix::File::open(dir + "/child" + std::to_string(i) + ".nix", nix::FileMode::Overwrite);
                out += f.id() + "\n";
                for (long j = 0; j < K; j++) out += f.createBlock("b" + std::to_string(j), "t").id() + "\n";
                f.close();
                out += nix::util::createId() + "\n";
                out += nix::util::createId() + "\n";
            } catch (...) { out += "FAILED\n"; }
            write_all(pp[1], out);
            close(pp[1]);
            _exit(0);
        }
        close(pp[1]);
        pids.push_back(pid); fds.push_back(pp[0]);
    }
    {
        nix::File f = nix::File::open(dir + "/parent.nix", nix::FileMode::ReadWrite);
        for (long j = 0; j < K; j++) mine.push_back(f.createBlock("p" + std::to_string(j), "t").id());
        f.close();
    }
    std::map<std::string, int> seen;
    int wf = 1, common = 0, failed = 0;
    auto take = [&](const std::string &id) {
        if (id == "FAILED") { failed = 1; return; }
        if (!wellformed(id)) wf = 0;
        if (seen[id]++) common = 1;
    };
    for (const std::string &id : mine) take(id);
    for (size_t i = 0; i < fds.size(); i++) {
        std::string all = read_all(fds[i]);
        close(fds[i]);
        int st; while (waitpid(pids[i], &st, 0) < 0) {}
        if (!WIFEXITED(st) || WEXITSTATUS(st) != 0) failed = 1;
        std::istringstream in(all);
        std::string id; long cnt = 0;
        while (std::getline(in, id)) if (!id.empty()) { take(id); cnt++; }
        if (cnt != K + 3) failed = 1;
    }
    if (failed) throw std::logic_error("a forked child failed");
    std::ostringstream o;
    o << "forks=" << N << " k=" << K << " wellformed=" << wf << " common=" << common;
    return o.str();
}

// ---------------------------------------------------------------------------------------------
// worker: one per case, forked before any id was drawn
static int worker_loop(int rfd, int wfd) {
    FILE *in = fdopen(rfd, "r");
    char *buf = nullptr; size_t cap = 0;
    ssize_t len;
    while ((len = getline(&buf, &cap, in)) >= 0) {
        std::string line(buf, static_cast<size_t>(len));
        while (!line.empty() && (line.back() == '\n' || line.back() == '\r')) line.pop_back();
        std::vector<std::string> t = split(line);
        std::string out;
        try { out = "OK " + handle(t); }
        catch (...) { out = "ERR " + classify(); }
        out.push_back('\n');
        if (write(wfd, out.data(), out.size()) < 0) break;
    }
    drop_handles(); ents.clear();
    try { if (file) file.close(); } catch (...) {}
    _exit(0);
}

int main(int argc, char **argv) {
    self_exe = "/proc/self/exe";
    { char buf[4096]; ssize_t n = readlink("/proc/self/exe", buf, sizeof buf - 1); if (n > 0) { buf[n] = 0; self_exe = buf; } }
    H5Eset_auto2(H5E_DEFAULT, nullptr, nullptr);
    if (argc >= 2 && std::string(argv[1]) == "--child") return child_main(argc, argv);
    if (argc >= 2 && std::string(argv[1]) == "--genids") return genids_main(argc, argv);
    if (argc < 3) { std::cerr << "usage: drv_C12 <casefile> <workdir>\n"; return 2; }
    workdir = argv[2];
    std::ifstream in(argv[1]);
    if (!in) { std::cerr << "cannot open " << argv[1] << std::endl; return 2; }
    pid_t wpid = -1; int to_w = -1, from_w = -1;
    FILE *from = nullptr;
    auto stop_worker = [&]() {
        if (wpid < 0) return;
        close(to_w); if (from) fclose(from);
        int st; while (waitpid(wpid, &st, 0) < 0) {}
        wpid = -1; from = nullptr;
    };
    std::string line;
    long n = 0;
    while (std::getline(in, line)) {
        n++;
        if (line.empty() || line[0] == '#') continue;
        std::vector<std::string> t = split(line);
        if (t.empty()) continue;
        std::string out;
        if (t[0] == "procs") {
            try { out = "OK " + procs(dec_int(t.at(1)), dec_int(t.at(2))); } catch (...) { out = "ERR " + classify(); }
            std::cout << n << " " << out << "\n" << std::flush;
            continue;
        }
        if (t[0] == "reset") {          // no file, no process: what follows (until the next "new") is refused
            stop_worker();
            std::cout << n << " OK -\n" << std::flush;
            continue;
        }
        if (t[0] == "forks") {
            // in a process of its own, so that this one never initialises its id generator
            int pp[2];
            if (pipe(pp) != 0) { std::cerr << "pipe failed\n"; return 2; }
            std::cout << std::flush;
            pid_t pid = fork();
            if (pid == 0) {
                close(pp[0]);
                std::string res;
                try { res = "OK " + forks_experiment(dec_int(t.at(1)), dec_int(t.at(2))); } catch (...) { res = "ERR " + classify(); }
                write_all(pp[1], res);
                _exit(0);
            }
            close(pp[1]);
            std::string res = read_all(pp[0]);
            close(pp[0]);
            int st = 0; while (waitpid(pid, &st, 0) < 0) {}
            if (res.empty()) { std::cout << std::flush; return WIFEXITED(st) && WEXITSTATUS(st) ? WEXITSTATUS(st) : 99; }
            std::cout << n << " " << res << "\n" << std::flush;
            continue;
        }
        if (t[0] == "new") {
            stop_worker();
            int a[2], b[2];
            if (pipe(a) != 0 || pipe(b) != 0) { std::cerr << "pipe failed\n"; return 2; }
            std::cout << std::flush;
            wpid = fork();
            if (wpid == 0) { close(a[1]); close(b[0]); worker_loop(a[0], b[1]); }
            close(a[0]); close(b[1]);
            to_w = a[1]; from_w = b[0]; from = fdopen(from_w, "r");
        }
        if (wpid < 0) { std::cout << n << " ERR std::logic_error\n" << std::flush; continue; }
        std::string msg = line + "\n";
        char *buf = nullptr; size_t cap = 0;
        if (write(to_w, msg.data(), msg.size()) < 0 || getline(&buf, &cap, from) < 0) {
            // the worker died (sanitizer report on stderr): die the same way, the engine restarts after this case
            int st = 0; while (waitpid(wpid, &st, 0) < 0) {}
            std::cout << std::flush;
            return WIFEXITED(st) && WEXITSTATUS(st) ? WEXITSTATUS(st) : 99;
        }
        std::string reply(buf); free(buf);
        while (!reply.empty() && (reply.back() == '\n' || reply.back() == '\r')) reply.pop_back();
        std::cout << n << " " << reply << "\n" << std::flush;
    }
    stop_worker();
    return 0;
}
