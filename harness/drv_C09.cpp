// C09 implementation driver — file open modes.  The command interpreter is shared with C11
// (harness/fileio_common.hpp, fileio_tables.hpp, fileio_stale.hpp, fileio_driver.hpp).
#include "fileio_common.hpp"
int main(int argc, char **argv) { return fio::driver_main(argc, argv); }
