// C11 implementation driver — after close or flush the file is complete and released.  The command
// interpreter (handle populations, stale-handle calls, kill harness) is shared with C09
// (harness/fileio_common.hpp, fileio_tables.hpp, fileio_stale.hpp, fileio_driver.hpp).
#include "fileio_common.hpp"
int main(int argc, char **argv) { return fio::driver_main(argc, argv); }
