// C10 correspondence driver: FormatVersion operators and the open gate of FileHDF5.
//   ops a1 a2 a3 b1 b2 b3           -> eq lt ne gt le ge canRead canWrite   (a is *this / the library)
//   idx a1 a2 a3 i                  -> a[i]
//   ctor n v1..vn                   -> x y z | asVector | operator<<   (the std::vector constructor; n != 3 throws)
//   open x y z <rw|ro|ow> <force 0|1> <defect>
//        defect: none | noformat | badformat | fmt=s:<hex> (format attribute set to that string) | noversion | noid | ver2 | ver4 | plainh5 | nonh5
#include "common.hpp"
#include <hdf5.h>
#include <unistd.h>

using namespace nixv;

static std::string workdir;

static void copy_file(const std::string &from, const std::string &to) {
    std::ifstream src(from, std::ios::binary);
    std::ofstream dst(to, std::ios::binary | std::ios::trunc);
    dst << src.rdbuf();
}

static void set_version(hid_t root, const std::vector<int> &v) {
    if (H5Aexists(root, "version") > 0) H5Adelete(root, "version");
    hsize_t dims[1] = { v.size() };
    hid_t sp = H5Screate_simple(1, dims, nullptr);
    hid_t at = H5Acreate2(root, "version", H5T_STD_I32LE, sp, H5P_DEFAULT, H5P_DEFAULT);
    H5Awrite(at, H5T_NATIVE_INT, v.data());
    H5Aclose(at);
    H5Sclose(sp);
}

static void set_str_attr(hid_t root, const char *name, const std::string &val) {
    if (H5Aexists(root, name) > 0) H5Adelete(root, name);
    hid_t ty = H5Tcopy(H5T_C_S1);
    H5Tset_size(ty, H5T_VARIABLE);
    H5Tset_cset(ty, H5T_CSET_UTF8);   // as the library writes its strings; an ASCII attribute is read differently
    hid_t sp = H5Screate(H5S_SCALAR);
    hid_t at = H5Acreate2(root, name, ty, sp, H5P_DEFAULT, H5P_DEFAULT);
    const char *p = val.c_str();
    H5Awrite(at, ty, &p);
    H5Aclose(at); H5Sclose(sp); H5Tclose(ty);
}

static std::string handle(const std::vector<std::string> &t) {
    std::ostringstream o;
    if (t[0] == "ops") {
        nix::FormatVersion a({(int)dec_int(t[1]), (int)dec_int(t[2]), (int)dec_int(t[3])});
        nix::FormatVersion b({(int)dec_int(t[4]), (int)dec_int(t[5]), (int)dec_int(t[6])});
        o << (a == b) << " " << (a < b) << " " << (a != b) << " " << (a > b) << " " << (a <= b) << " " << (a >= b)
          << " " << a.canRead(b) << " " << a.canWrite(b);
        return o.str();
    }
    if (t[0] == "idx") {
        nix::FormatVersion a({(int)dec_int(t[1]), (int)dec_int(t[2]), (int)dec_int(t[3])});
        o << a[(size_t)dec_u64(t[4])];
        return o.str();
    }
    if (t[0] == "ctor") {            // ctor <n> <v1..vn>   FormatVersion(const std::vector<int>&), accessors, asVector, operator<<
        std::vector<int> v;
        for (size_t i = 0; i < (size_t)dec_int(t[1]); i++) v.push_back((int)dec_int(t[2 + i]));
        nix::FormatVersion a(v);
        std::vector<int> back = a.asVector();
        std::ostringstream txt;
        txt << a;
        o << a.x() << " " << a.y() << " " << a.z() << " | " << back.size();
        for (int x : back) o << " " << x;
        o << " | " << txt.str();
        return o.str();
    }
    if (t[0] == "open") {
        std::vector<int> ver = {(int)dec_int(t[1]), (int)dec_int(t[2]), (int)dec_int(t[3])};
        std::string mode = t[4];
        bool force = t[5] == "1";
        std::string defect = t[6];
        std::string base = workdir + "/base.nix";
        std::string f = workdir + "/case.nix";
        {
            nix::File fb = nix::File::open(base, nix::FileMode::Overwrite);
            fb.createBlock("b", "t");
            fb.close();
        }
        if (defect == "nonh5") {
            std::ofstream x(f, std::ios::trunc); x << "this is not an hdf5 file\n";
        } else if (defect == "plainh5") {
            hid_t h = H5Fcreate(f.c_str(), H5F_ACC_TRUNC, H5P_DEFAULT, H5P_DEFAULT);
            H5Fclose(h);
        } else {
            copy_file(base, f);
            hid_t h = H5Fopen(f.c_str(), H5F_ACC_RDWR, H5P_DEFAULT);
            hid_t root = H5Gopen2(h, "/", H5P_DEFAULT);
            if (defect == "ver2") ver.pop_back();
            if (defect == "ver4") ver.push_back(0);
            set_version(root, ver);
            if (defect == "noformat") H5Adelete(root, "format");
            if (defect == "badformat") set_str_attr(root, "format", "xin");
            if (defect.compare(0, 4, "fmt=") == 0) set_str_attr(root, "format", dec_str(defect.substr(4)));
            if (defect == "noversion") H5Adelete(root, "version");
            if (defect == "noid") H5Adelete(root, "id");
            H5Gclose(root);
            H5Fclose(h);
        }
        nix::FileMode m = mode == "rw" ? nix::FileMode::ReadWrite : mode == "ro" ? nix::FileMode::ReadOnly : nix::FileMode::Overwrite;
        nix::File file = nix::File::open(f, m, "hdf5", nix::Compression::Auto, force ? nix::OpenFlags::Force : nix::OpenFlags::None);
        // an opened file must be usable: count its blocks (Overwrite must yield none)
        o << "blocks=" << file.blockCount();
        file.close();
        return o.str();
    }
    throw std::logic_error("bad command " + t[0]);
}

int main(int argc, char **argv) {
    if (argc < 3) { std::cerr << "usage: drv_C10 <casefile> <workdir>\n"; return 2; }
    workdir = argv[2];
    H5Eset_auto2(H5E_DEFAULT, nullptr, nullptr);
    return run_file(argv[1], handle);
}
