// C17 correspondence driver: position-based slices (util::dataSlice) and DataView windows over the public nix API.
// One case = one or more lines; the first line of every case is `arr`, which builds a fresh array.
//   arr <shape...> ; <dim> ; <dim> ...        Int64 array filled with its own flat (row-major) index, with the given
//                                             dimension descriptors:   S <d:interval> <d:offset|-> <unit|->
//                                                                      R <unit|-> <d:tick>...
//                                                                      L <nlabels>          (set dimension)
//                                                                      F <nrows>            (data-frame dimension)
//   slice <starts...> ; <ends...> ; <units...> ; <incl|excl|default>
//                                             util::dataSlice -> "<extent...> | <element ids...>"
//   indata <position...> ; <count...>         util::positionAndExtentInData -> 0/1
//   view <count...> ; <offset...>             DataView(array, count, offset)
//   vextent                                   DataView::dataExtent()
//   vread <count...> ; <offset...>            DataView::getData(Int64, buf, count, offset) -> "[ ids ]"
//   vwrite <count...> ; <offset...> ; <v0>    DataView::setData(Int64, buf, count, offset) with buf = v0, v0+1, ...
//   aread                                     whole array (shows the frame condition)
//   vget <s|n> ; <offset...>                  the TEMPLATE DataSet::getData(T &value, offset) through the view: value = one int64_t (s)
//                                             on the heap, or a std::vector<int64_t> of n elements (capacity n)
//   vset <s|n> ; <offset...> ; <v0>           the TEMPLATE DataSet::setData(const T &value, offset), value(s) v0, v0+1, ...
//   aget / aset                               the same calls on the DataArray itself (control)
// every template route of DataSet.hpp through the view, for every typed container (Hydra data_traits):
//   route = sc (int64_t) | c1 (int64_t[N], N in {3,5}) | c2 (int64_t[2][3]) | vec | val (std::valarray) | ma (boost::multi_array,
//           rank = number of extents, 1..3) | nd (nix::NDArray);  <ext0...> = the container's extents before the call
//   tgetall <route> <ext0...>                          getData(value)           -> "<extents after> | [ values ]"
//   tget3 <route> <ext0...> ; <cnt...> ; <off...>      getData(value, count, offset)
//   tgetat <route> <ext...> ; <off...>                 getData(value, offset)
//   tsetall <route> <ext...> ; <v0>                    setData(value)           (values v0, v0+1, ...)
//   tset <route> <ext...> ; <off...> ; <v0>            setData(value, offset)
//   vsetextent <shape...>                              DataView::dataExtent(const NDSize &)
//   vtype                                              DataView::dataType()
// further routes of util/dataAccess:
//   slice3 <starts...> ; <ends...>                     util::dataSlice(array, start, end)   (units and mode defaulted)
//   posin <position...>                                util::positionInData
//   dimunit <j>                                        util::getDimensionUnit(array.getDimension(j + 1))
//   p2i <j> <d:position> <unit> <rule>                 util::positionToIndex(position, unit, PositionMatch, const Dimension &)
//   p2iv <j> <incl|excl> ; <starts...> ; <ends...> ; <units...>   util::positionToIndex(starts, ends, units, RangeMatch, const Dimension &)
// Doubles as d:<16 hex>; integers decimal or 0x-hex; units as plain tokens (none, s, ms, ...).
#include "common.hpp"
#include <nix/util/dataAccess.hpp>
#include <hdf5.h>
#include <memory>
#include <valarray>
#include <boost/multi_array.hpp>
#include <nix/hydra/multiArray.hpp>
#include <nix/NDArray.hpp>

// exported by the library, not declared in dataAccess.hpp: the generic-Dimension dispatchers
namespace nix { namespace util {
boost::optional<ndsize_t> positionToIndex(double position, const std::string &unit, const PositionMatch match, const Dimension &dimension);
std::vector<boost::optional<std::pair<ndsize_t, ndsize_t>>> positionToIndex(const std::vector<double> &start_positions,
                                                                           const std::vector<double> &end_positions,
                                                                           const std::vector<std::string> &units,
                                                                           const RangeMatch range_matching,
                                                                           const Dimension &dimension);
} }

using namespace nixv;
using nix::NDSize;
using nix::DataType;

static nix::File file;
static nix::Block block;
static nix::DataArray arr;
static std::unique_ptr<nix::DataView> view;
static long serial = 0;
static const size_t CAP = 1u << 16;          // largest buffer the driver hands to the library
static const int64_t SENTINEL = -7777777777LL;

typedef std::vector<std::vector<std::string>> Sections;

static Sections sections(const std::vector<std::string> &t, size_t from) {
    Sections out(1);
    for (size_t i = from; i < t.size(); i++) {
        if (t[i] == ";") out.emplace_back();
        else out.back().push_back(t[i]);
    }
    return out;
}

static NDSize ndsize(const std::vector<std::string> &v) {
    NDSize s(v.size());
    for (size_t i = 0; i < v.size(); i++) s[i] = dec_u64(v[i]);
    return s;
}

static std::vector<double> dbls(const std::vector<std::string> &v, size_t from = 0) {
    std::vector<double> o;
    o.reserve(v.size() > from ? v.size() - from : 0);      // capacity == size: a read past the end is a heap overflow ASan sees
    for (size_t i = from; i < v.size(); i++) o.push_back(dec_dbl(v[i]));
    return o;
}

static std::string show_nd(const NDSize &s) {
    std::string o;
    for (size_t i = 0; i < s.size(); i++) { if (i) o += " "; o += enc_u64(s[i]); }
    return o;
}

static std::string show_vals(const std::vector<int64_t> &b, size_t n) {
    std::string o = "[";
    for (size_t i = 0; i < n; i++) { o += " "; o += std::to_string(static_cast<long long>(b[i])); }
    return o + " ]";
}

// number of elements of a count vector, saturating at CAP + 1
static size_t capped_nelms(const NDSize &c) {
    unsigned __int128 p = 1;
    for (size_t i = 0; i < c.size(); i++) {
        p *= c[i];
        if (p > CAP && c[i] != 0) {
            // a later zero entry still makes the product zero
            bool zero = false;
            for (size_t j = i + 1; j < c.size(); j++) zero = zero || c[j] == 0;
            return zero ? 0 : CAP + 1;
        }
    }
    return static_cast<size_t>(p);
}

static std::string do_arr(const std::vector<std::string> &t) {
    Sections s = sections(t, 1);
    view.reset();
    if (arr) { block.deleteDataArray(arr); arr = nix::none; }
    serial++;
    NDSize shape = ndsize(s.at(0));
    arr = block.createDataArray("a" + std::to_string(serial), "t", DataType::Int64, shape);
    size_t n = static_cast<size_t>(shape.nelms());
    std::vector<int64_t> data(n + 1);
    for (size_t i = 0; i < n; i++) data[i] = static_cast<int64_t>(i);
    arr.setData(DataType::Int64, data.data(), shape, NDSize(shape.size(), 0));
    for (size_t k = 1; k < s.size(); k++) {
        const std::vector<std::string> &d = s[k];
        if (d.empty()) continue;
        if (d[0] == "S") {
            nix::SampledDimension sd = arr.appendSampledDimension(dec_dbl(d.at(1)));
            if (d.at(2) != "-") sd.offset(dec_dbl(d[2]));
            if (d.at(3) != "-") sd.unit(d[3]);
        } else if (d[0] == "R") {
            nix::RangeDimension rd = arr.appendRangeDimension(dbls(d, 2));
            if (d.at(1) != "-") rd.unit(d[1]);
        } else if (d[0] == "L") {
            std::vector<std::string> labels;
            for (long i = 0; i < dec_int(d.at(1)); i++) labels.push_back("l" + std::to_string(i));
            arr.appendSetDimension(labels);
        } else if (d[0] == "F") {
            std::vector<nix::Column> cols = {{"c", "", DataType::Double}};
            nix::DataFrame f = block.createDataFrame("f" + std::to_string(serial) + "_" + std::to_string(k), "t", cols);
            f.rows(dec_u64(d.at(1)));
            arr.appendDataFrameDimension(f);
        } else {
            throw std::logic_error("bad dimension kind " + d[0]);
        }
    }
    return "done";
}

static std::string do_slice(const std::vector<std::string> &t) {
    Sections s = sections(t, 1);
    if (s.size() != 4 || s[3].size() != 1) throw std::logic_error("bad slice line");
    std::vector<double> starts = dbls(s[0]), ends = dbls(s[1]);
    std::vector<std::string> units = s[2];
    const std::string &m = s[3][0];
    nix::DataView dv = m == "incl" ? nix::util::dataSlice(arr, starts, ends, units, nix::RangeMatch::Inclusive)
                     : m == "excl" ? nix::util::dataSlice(arr, starts, ends, units, nix::RangeMatch::Exclusive)
                     : nix::util::dataSlice(arr, starts, ends, units);
    NDSize ext = dv.dataExtent();
    size_t n = capped_nelms(ext);
    if (n > CAP) return show_nd(ext) + " | OVERSIZE";
    std::vector<int64_t> buf(n + 1, SENTINEL);
    dv.getData(DataType::Int64, buf.data(), ext, NDSize());
    std::string o = show_nd(ext) + " |";
    for (size_t i = 0; i < n; i++) o += " " + std::to_string(static_cast<long long>(buf[i]));
    return o;
}

static bool untouched(const std::vector<int64_t> &b) {
    for (int64_t x : b) if (x != SENTINEL) return false;
    return true;
}

// ---- typed container routes through the view
struct TCall { std::string cmd; NDSize cnt, off; };

template<typename C> static void tcall(nix::DataSet &ds, const TCall &k, C &c) {
    if (k.cmd == "tgetall") ds.getData(c);
    else if (k.cmd == "tget3") ds.getData(c, k.cnt, k.off);
    else if (k.cmd == "tgetat") ds.getData(c, k.off);
    else if (k.cmd == "tsetall") ds.setData(c);
    else ds.setData(c, k.off);
}

static std::string show_ptr(const std::string &ext, const int64_t *p, size_t n) {
    std::string o = ext + " | [";
    for (size_t i = 0; i < n; i++) { o += " "; o += std::to_string(static_cast<long long>(p[i])); }
    return o + " ]";
}

template<size_t N> static std::string typed_ma(nix::DataSet &ds, const TCall &k, const std::vector<size_t> &ext, bool get, long long v0) {
    boost::array<typename boost::multi_array<int64_t, N>::index, N> e;
    for (size_t i = 0; i < N; i++) e[i] = static_cast<typename boost::multi_array<int64_t, N>::index>(ext[i]);
    boost::multi_array<int64_t, N> m(e);
    for (size_t i = 0; i < m.num_elements(); i++) m.data()[i] = get ? SENTINEL : static_cast<int64_t>(v0 + static_cast<long long>(i));
    tcall(ds, k, m);
    if (!get) return "done";
    std::string es;
    for (size_t i = 0; i < N; i++) { if (i) es += " "; es += std::to_string(m.shape()[i]); }
    return show_ptr(es, m.data(), m.num_elements());
}

static std::string typed(const std::vector<std::string> &t) {
    if (!view) throw std::logic_error("no view");
    Sections s = sections(t, 1);
    TCall k; k.cmd = t[0];
    const std::string route = s.at(0).at(0);
    std::vector<size_t> ext;
    for (size_t i = 1; i < s[0].size(); i++) ext.push_back(static_cast<size_t>(dec_u64(s[0][i])));
    bool get = k.cmd[1] == 'g';
    long long v0 = 0;
    if (k.cmd == "tget3") { k.cnt = ndsize(s.at(1)); k.off = ndsize(s.at(2)); }
    else if (k.cmd == "tgetat") { k.off = ndsize(s.at(1)); }
    else if (k.cmd == "tsetall") { v0 = dec_int(s.at(1).at(0)); }
    else if (k.cmd == "tset") { k.off = ndsize(s.at(1)); v0 = dec_int(s.at(2).at(0)); }
    nix::DataSet &ds = *view;
    size_t n = 1;
    for (size_t e : ext) n *= e;
    auto fill = [&](int64_t *p, size_t cnt) { for (size_t i = 0; i < cnt; i++) p[i] = get ? SENTINEL : static_cast<int64_t>(v0 + static_cast<long long>(i)); };
    if (route == "sc") {
        std::unique_ptr<int64_t> px(new int64_t(0)); fill(px.get(), 1);
        tcall(ds, k, *px);
        return get ? show_ptr("", px.get(), 1) : std::string("done");
    }
    if (route == "c1") {
        if (ext.size() != 1 || (ext[0] != 3 && ext[0] != 5)) throw std::logic_error("driver: c1 is int64_t[3] or int64_t[5]");
        std::unique_ptr<int64_t[]> store(new int64_t[ext[0]]); fill(store.get(), ext[0]);
        if (ext[0] == 3) { typedef int64_t A[3]; tcall(ds, k, *reinterpret_cast<A *>(store.get())); }
        else { typedef int64_t A[5]; tcall(ds, k, *reinterpret_cast<A *>(store.get())); }
        return get ? show_ptr(std::to_string(ext[0]), store.get(), ext[0]) : std::string("done");
    }
    if (route == "c2") {
        if (ext.size() != 2 || ext[0] != 2 || ext[1] != 3) throw std::logic_error("driver: c2 is int64_t[2][3]");
        std::unique_ptr<int64_t[]> store(new int64_t[6]); fill(store.get(), 6);
        typedef int64_t A[2][3];
        tcall(ds, k, *reinterpret_cast<A *>(store.get()));
        return get ? show_ptr("2 3", store.get(), 6) : std::string("done");
    }
    if (route == "vec") {
        if (ext.size() != 1) throw std::logic_error("driver: a vector has one extent");
        std::vector<int64_t> v(ext[0]); fill(v.data(), v.size());
        tcall(ds, k, v);
        return get ? show_ptr(std::to_string(v.size()), v.data(), v.size()) : std::string("done");
    }
    if (route == "val") {
        if (ext.size() != 1) throw std::logic_error("driver: a valarray has one extent");
        std::valarray<int64_t> v(ext[0]); if (ext[0]) fill(&v[0], v.size());
        tcall(ds, k, v);
        return get ? show_ptr(std::to_string(v.size()), v.size() ? &v[0] : nullptr, v.size()) : std::string("done");
    }
    if (route == "ma") {
        switch (ext.size()) {
        case 1: return typed_ma<1>(ds, k, ext, get, v0);
        case 2: return typed_ma<2>(ds, k, ext, get, v0);
        case 3: return typed_ma<3>(ds, k, ext, get, v0);
        default: throw std::logic_error("driver: multi_array of rank 1..3 only");
        }
    }
    if (route == "nd") {
        NDSize dims(ext.size());
        for (size_t i = 0; i < ext.size(); i++) dims[i] = ext[i];
        nix::NDArray a(DataType::Int64, dims);
        fill(reinterpret_cast<int64_t *>(a.data()), n);
        tcall(ds, k, a);
        if (!get) return "done";
        NDSize sh = a.shape();
        return show_ptr(show_nd(sh), reinterpret_cast<const int64_t *>(a.data()), static_cast<size_t>(sh.nelms()));
    }
    throw std::logic_error("bad route " + route);
}

static nix::PositionMatch rule(const std::string &r) {
    if (r == "L") return nix::PositionMatch::Less;
    if (r == "LE") return nix::PositionMatch::LessOrEqual;
    if (r == "GE") return nix::PositionMatch::GreaterOrEqual;
    if (r == "G") return nix::PositionMatch::Greater;
    if (r == "EQ") return nix::PositionMatch::Equal;
    throw std::logic_error("bad rule " + r);
}

static std::string handle(const std::vector<std::string> &t) {
    const std::string &c = t[0];
    if (c == "tgetall" || c == "tget3" || c == "tgetat" || c == "tsetall" || c == "tset") return typed(t);
    if (c == "vsetextent") {
        if (!view) throw std::logic_error("no view");
        view->dataExtent(ndsize(std::vector<std::string>(t.begin() + 1, t.end())));
        return "done";
    }
    if (c == "vtype") {
        if (!view) throw std::logic_error("no view");
        std::ostringstream os; os << view->dataType(); return os.str();
    }
    if (c == "slice3") {
        Sections s = sections(t, 1);
        nix::DataView dv = nix::util::dataSlice(arr, dbls(s.at(0)), dbls(s.at(1)));
        NDSize ext = dv.dataExtent();
        size_t n = capped_nelms(ext);
        if (n > CAP) return show_nd(ext) + " | OVERSIZE";
        std::vector<int64_t> buf(n + 1, SENTINEL);
        dv.getData(DataType::Int64, buf.data(), ext, NDSize());
        std::string o = show_nd(ext) + " |";
        for (size_t i = 0; i < n; i++) o += " " + std::to_string(static_cast<long long>(buf[i]));
        return o;
    }
    if (c == "posin") return nix::util::positionInData(arr, ndsize(std::vector<std::string>(t.begin() + 1, t.end()))) ? "1" : "0";
    if (c == "dimunit") return nix::util::getDimensionUnit(arr.getDimension(static_cast<size_t>(dec_u64(t.at(1))) + 1));
    if (c == "p2i") {
        nix::Dimension d = arr.getDimension(static_cast<size_t>(dec_u64(t.at(1))) + 1);
        boost::optional<nix::ndsize_t> r = nix::util::positionToIndex(dec_dbl(t.at(2)), t.at(3), rule(t.at(4)), d);
        return r ? enc_u64(*r) : std::string("none");
    }
    if (c == "p2iv") {
        Sections s = sections(t, 1);
        nix::Dimension d = arr.getDimension(static_cast<size_t>(dec_u64(s.at(0).at(0))) + 1);
        nix::RangeMatch m = s.at(0).at(1) == "incl" ? nix::RangeMatch::Inclusive : nix::RangeMatch::Exclusive;
        auto r = nix::util::positionToIndex(dbls(s.at(1)), dbls(s.at(2)), s.at(3), m, d);
        std::string o = std::to_string(r.size());
        for (auto &x : r) o += x ? " [" + enc_u64(x->first) + " " + enc_u64(x->second) + "]" : std::string(" [none]");
        return o;
    }
    if (c == "arr") return do_arr(t);
    if (c == "slice") return do_slice(t);
    if (c == "indata") {
        Sections s = sections(t, 1);
        return nix::util::positionAndExtentInData(arr, ndsize(s.at(0)), ndsize(s.at(1))) ? "1" : "0";
    }
    if (c == "view") {
        Sections s = sections(t, 1);
        view.reset();
        view.reset(new nix::DataView(arr, ndsize(s.at(0)), ndsize(s.at(1))));
        return "done";
    }
    if (c == "aread") {
        NDSize ext = arr.dataExtent();
        size_t n = static_cast<size_t>(ext.nelms());
        std::vector<int64_t> buf(n + 1, SENTINEL);
        arr.getData(DataType::Int64, buf.data(), ext, NDSize(ext.size(), 0));
        return show_vals(buf, n);
    }
    if (c == "vget" || c == "vset" || c == "aget" || c == "aset") {
        Sections s = sections(t, 1);
        const std::string &kind = s.at(0).at(0);
        NDSize off = ndsize(s.at(1));
        bool on_view = c[0] == 'v';
        if (on_view && !view) throw std::logic_error("no view");
        nix::DataSet &ds = on_view ? static_cast<nix::DataSet &>(*view) : static_cast<nix::DataSet &>(arr);
        bool get = c[1] == 'g';
        long long v0 = get ? 0 : dec_int(s.at(2).at(0));
        if (kind == "s") {
            // one element on the heap: a transfer of more than one element is a heap-buffer-overflow ASan sees
            std::unique_ptr<int64_t> px(new int64_t(get ? SENTINEL : static_cast<int64_t>(v0)));
            if (get) { ds.getData(*px, off); return "[ " + std::to_string(static_cast<long long>(*px)) + " ]"; }
            ds.setData(*px, off);
            return "done";
        }
        size_t n = static_cast<size_t>(dec_u64(kind));
        std::vector<int64_t> vec(n, SENTINEL);      // capacity == size
        if (get) { ds.getData(vec, off); return show_vals(vec, n); }
        for (size_t i = 0; i < n; i++) vec[i] = static_cast<int64_t>(v0 + static_cast<long long>(i));
        ds.setData(vec, off);
        return "done";
    }
    if (!view) throw std::logic_error("no view");
    if (c == "vextent") return show_nd(view->dataExtent());
    if (c == "vread" || c == "vwrite") {
        Sections s = sections(t, 1);
        NDSize cnt = ndsize(s.at(0)), off = ndsize(s.at(1));
        size_t n = capped_nelms(cnt ? cnt : view->dataExtent());
        size_t have = n > CAP ? CAP : n;
        if (c == "vread") {
            std::vector<int64_t> buf(have + 1, SENTINEL);
            try {
                view->getData(DataType::Int64, buf.data(), cnt, off);
            } catch (...) {
                // a refused read must not have transferred anything
                if (!untouched(buf)) return "DIRTY-BUFFER after " + classify();
                throw;
            }
            if (n > CAP) return "OVERSIZE";
            return show_vals(buf, n);
        }
        long long v0 = dec_int(s.at(2).at(0));
        std::vector<int64_t> buf(have + 1);
        for (size_t i = 0; i < buf.size(); i++) buf[i] = static_cast<int64_t>(v0 + static_cast<long long>(i));
        view->setData(DataType::Int64, buf.data(), cnt, off);
        if (n > CAP) return "OVERSIZE";
        return "done";
    }
    throw std::logic_error("bad command " + c);
}

int main(int argc, char **argv) {
    if (argc < 3) { std::cerr << "usage: drv_C17 <casefile> <workdir>\n"; return 2; }
    H5Eset_auto2(H5E_DEFAULT, nullptr, nullptr);
    std::string f = std::string(argv[2]) + "/c17.nix";
    file = nix::File::open(f, nix::FileMode::Overwrite);
    block = file.createBlock("b", "t");
    int rc = run_file(argv[1], handle);
    view.reset();
    arr = nix::none;
    file.close();
    return rc;
}
