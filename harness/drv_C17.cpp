// C17 correspondence driver: position-based slices (util::dataSlice) and DataView windows over the public nix API.
// One case = one or more lines; the first line of every case is `arr`, which builds a fresh array.
//   arr <shape...> ; <dim> ; <dim> ...        Int64 array filled with its own flat (row-major) index, with the given
//                                             dimension descriptors:   S <d:interval> <d:offset|-> <unit|->
//                                                                      R <unit|-> <d:tick>...
//                                                                      L <nlabels>          (set dimension)
//                                                                      F <nrows>            (data-frame dimension)
//   slice <starts...> ; <ends...> ; <units...> ; <incl|excl|default>
//                                             util::dataSlice -> "<extent...> | <element ids...>"
//   indata <position...> ; <count...>         util::positionAndExtentInData -> 0/1
//   view <count...> ; <offset...>             DataView(array, count, offset)
//   vextent                                   DataView::dataExtent()
//   vread <count...> ; <offset...>            DataView::getData(Int64, buf, count, offset) -> "[ ids ]"
//   vwrite <count...> ; <offset...> ; <v0>    DataView::setData(Int64, buf, count, offset) with buf = v0, v0+1, ...
//   aread                                     whole array (shows the frame condition)
//   vget <s|n> ; <offset...>                  the TEMPLATE DataSet::getData(T &value, offset) through the view: value = one int64_t (s)
//                                             on the heap, or a std::vector<int64_t> of n elements (capacity n)
//   vset <s|n> ; <offset...> ; <v0>           the TEMPLATE DataSet::setData(const T &value, offset), value(s) v0, v0+1, ...
//   aget / aset                               the same calls on the DataArray itself (control)
// Doubles as d:<16 hex>; integers decimal or 0x-hex; units as plain tokens (none, s, ms, ...).
#include "common.hpp"
#include <nix/util/dataAccess.hpp>
#include <hdf5.h>
#include <memory>

using namespace nixv;
using nix::NDSize;
using nix::DataType;

static nix::File file;
static nix::Block block;
static nix::DataArray arr;
static std::unique_ptr<nix::DataView> view;
static long serial = 0;
static const size_t CAP = 1u << 16;          // largest buffer the driver hands to the library
static const int64_t SENTINEL = -7777777777LL;

typedef std::vector<std::vector<std::string>> Sections;

static Sections sections(const std::vector<std::string> &t, size_t from) {
    Sections out(1);
    for (size_t i = from; i < t.size(); i++) {
        if (t[i] == ";") out.emplace_back();
        else out.back().push_back(t[i]);
    }
    return out;
}

static NDSize ndsize(const std::vector<std::string> &v) {
    NDSize s(v.size());
    for (size_t i = 0; i < v.size(); i++) s[i] = dec_u64(v[i]);
    return s;
}

static std::vector<double> dbls(const std::vector<std::string> &v, size_t from = 0) {
    std::vector<double> o;
    o.reserve(v.size() > from ? v.size() - from : 0);      // capacity == size: a read past the end is a heap overflow ASan sees
    for (size_t i = from; i < v.size(); i++) o.push_back(dec_dbl(v[i]));
    return o;
}

static std::string show_nd(const NDSize &s) {
    std::string o;
    for (size_t i = 0; i < s.size(); i++) { if (i) o += " "; o += enc_u64(s[i]); }
    return o;
}

static std::string show_vals(const std::vector<int64_t> &b, size_t n) {
    std::string o = "[";
    for (size_t i = 0; i < n; i++) { o += " "; o += std::to_string(static_cast<long long>(b[i])); }
    return o + " ]";
}

// number of elements of a count vector, saturating at CAP + 1
static size_t capped_nelms(const NDSize &c) {
    unsigned __int128 p = 1;
    for (size_t i = 0; i < c.size(); i++) {
        p *= c[i];
        if (p > CAP && c[i] != 0) {
            // a later zero entry still makes the product zero
            bool zero = false;
            for (size_t j = i + 1; j < c.size(); j++) zero = zero || c[j] == 0;
            return zero ? 0 : CAP + 1;
        }
    }
    return static_cast<size_t>(p);
}

static std::string do_arr(const std::vector<std::string> &t) {
    Sections s = sections(t, 1);
    view.reset();
    if (arr) { block.deleteDataArray(arr); arr = nix::none; }
    serial++;
    NDSize shape = ndsize(s.at(0));
    arr = block.createDataArray("a" + std::to_string(serial), "t", DataType::Int64, shape);
    size_t n = static_cast<size_t>(shape.nelms());
    std::vector<int64_t> data(n + 1);
    for (size_t i = 0; i < n; i++) data[i] = static_cast<int64_t>(i);
    arr.setData(DataType::Int64, data.data(), shape, NDSize(shape.size(), 0));
    for (size_t k = 1; k < s.size(); k++) {
        const std::vector<std::string> &d = s[k];
        if (d.empty()) continue;
        if (d[0] == "S") {
            nix::SampledDimension sd = arr.appendSampledDimension(dec_dbl(d.at(1)));
            if (d.at(2) != "-") sd.offset(dec_dbl(d[2]));
            if (d.at(3) != "-") sd.unit(d[3]);
        } else if (d[0] == "R") {
            nix::RangeDimension rd = arr.appendRangeDimension(dbls(d, 2));
            if (d.at(1) != "-") rd.unit(d[1]);
        } else if (d[0] == "L") {
            std::vector<std::string> labels;
            for (long i = 0; i < dec_int(d.at(1)); i++) labels.push_back("l" + std::to_string(i));
            arr.appendSetDimension(labels);
        } else if (d[0] == "F") {
            std::vector<nix::Column> cols = {{"c", "", DataType::Double}};
            nix::DataFrame f = block.createDataFrame("f" + std::to_string(serial) + "_" + std::to_string(k), "t", cols);
            f.rows(dec_u64(d.at(1)));
            arr.appendDataFrameDimension(f);
        } else {
            throw std::logic_error("bad dimension kind " + d[0]);
        }
    }
    return "done";
}

static std::string do_slice(const std::vector<std::string> &t) {
    Sections s = sections(t, 1);
    if (s.size() != 4 || s[3].size() != 1) throw std::logic_error("bad slice line");
    std::vector<double> starts = dbls(s[0]), ends = dbls(s[1]);
    std::vector<std::string> units = s[2];
    const std::string &m = s[3][0];
    nix::DataView dv = m == "incl" ? nix::util::dataSlice(arr, starts, ends, units, nix::RangeMatch::Inclusive)
                     : m == "excl" ? nix::util::dataSlice(arr, starts, ends, units, nix::RangeMatch::Exclusive)
                     : nix::util::dataSlice(arr, starts, ends, units);
    NDSize ext = dv.dataExtent();
    size_t n = capped_nelms(ext);
    if (n > CAP) return show_nd(ext) + " | OVERSIZE";
    std::vector<int64_t> buf(n + 1, SENTINEL);
    dv.getData(DataType::Int64, buf.data(), ext, NDSize());
    std::string o = show_nd(ext) + " |";
    for (size_t i = 0; i < n; i++) o += " " + std::to_string(static_cast<long long>(buf[i]));
    return o;
}

static bool untouched(const std::vector<int64_t> &b) {
    for (int64_t x : b) if (x != SENTINEL) return false;
    return true;
}

static std::string handle(const std::vector<std::string> &t) {
    const std::string &c = t[0];
    if (c == "arr") return do_arr(t);
    if (c == "slice") return do_slice(t);
    if (c == "indata") {
        Sections s = sections(t, 1);
        return nix::util::positionAndExtentInData(arr, ndsize(s.at(0)), ndsize(s.at(1))) ? "1" : "0";
    }
    if (c == "view") {
        Sections s = sections(t, 1);
        view.reset();
        view.reset(new nix::DataView(arr, ndsize(s.at(0)), ndsize(s.at(1))));
        return "done";
    }
    if (c == "aread") {
        NDSize ext = arr.dataExtent();
        size_t n = static_cast<size_t>(ext.nelms());
        std::vector<int64_t> buf(n + 1, SENTINEL);
        arr.getData(DataType::Int64, buf.data(), ext, NDSize(ext.size(), 0));
        return show_vals(buf, n);
    }
    if (c == "vget" || c == "vset" || c == "aget" || c == "aset") {
        Sections s = sections(t, 1);
        const std::string &kind = s.at(0).at(0);
        NDSize off = ndsize(s.at(1));
        bool on_view = c[0] == 'v';
        if (on_view && !view) throw std::logic_error("no view");
        nix::DataSet &ds = on_view ? static_cast<nix::DataSet &>(*view) : static_cast<nix::DataSet &>(arr);
        bool get = c[1] == 'g';
        long long v0 = get ? 0 : dec_int(s.at(2).at(0));
        if (kind == "s") {
            // one element on the heap: a transfer of more than one element is a heap-buffer-overflow ASan sees
            std::unique_ptr<int64_t> px(new int64_t(get ? SENTINEL : static_cast<int64_t>(v0)));
            if (get) { ds.getData(*px, off); return "[ " + std::to_string(static_cast<long long>(*px)) + " ]"; }
            ds.setData(*px, off);
            return "done";
        }
        size_t n = static_cast<size_t>(dec_u64(kind));
        std::vector<int64_t> vec(n, SENTINEL);      // capacity == size
        if (get) { ds.getData(vec, off); return show_vals(vec, n); }
        for (size_t i = 0; i < n; i++) vec[i] = static_cast<int64_t>(v0 + static_cast<long long>(i));
        ds.setData(vec, off);
        return "done";
    }
    if (!view) throw std::logic_error("no view");
    if (c == "vextent") return show_nd(view->dataExtent());
    if (c == "vread" || c == "vwrite") {
        Sections s = sections(t, 1);
        NDSize cnt = ndsize(s.at(0)), off = ndsize(s.at(1));
        size_t n = capped_nelms(cnt ? cnt : view->dataExtent());
        size_t have = n > CAP ? CAP : n;
        if (c == "vread") {
            std::vector<int64_t> buf(have + 1, SENTINEL);
            try {
                view->getData(DataType::Int64, buf.data(), cnt, off);
            } catch (...) {
                // a refused read must not have transferred anything
                if (!untouched(buf)) return "DIRTY-BUFFER after " + classify();
                throw;
            }
            if (n > CAP) return "OVERSIZE";
            return show_vals(buf, n);
        }
        long long v0 = dec_int(s.at(2).at(0));
        std::vector<int64_t> buf(have + 1);
        for (size_t i = 0; i < buf.size(); i++) buf[i] = static_cast<int64_t>(v0 + static_cast<long long>(i));
        view->setData(DataType::Int64, buf.data(), cnt, off);
        if (n > CAP) return "OVERSIZE";
        return "done";
    }
    throw std::logic_error("bad command " + c);
}

int main(int argc, char **argv) {
    if (argc < 3) { std::cerr << "usage: drv_C17 <casefile> <workdir>\n"; return 2; }
    H5Eset_auto2(H5E_DEFAULT, nullptr, nullptr);
    std::string f = std::string(argv[2]) + "/c17.nix";
    file = nix::File::open(f, nix::FileMode::Overwrite);
    block = file.createBlock("b", "t");
    int rc = run_file(argv[1], handle);
    view.reset();
    arr = nix::none;
    file.close();
    return rc;
}
