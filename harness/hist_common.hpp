// Script interpreter over the public nix API for the history-based checks built on the entity-database
// model (coq/Store/Db*.v): C03, C08 (and meant for C04, C02, C12).  ocaml/hist_common.ml replays the same
// language on the extracted model and prints the same text.
//
// Entities are named by ORDINAL: the k-th `mk` line of a case (k from 0, counted whether or not the create
// succeeds) binds ordinal k when it succeeds.  Real ids never leave the driver.
//   <ref>  = <k> | -                (an ordinal, or the none handle; a never-bound ordinal is a none handle too)
//   <p>    = F | <k>                (parent: the file or an entity)
//   <K>    = B S P A D T M G R X    (block section property array frame tag multi-tag group source feature)
//   <str>  = s:<hex> | n:<k> | i:<k>     (literal | the name given on mk line k | the id of ordinal k)
//   <sl>   = ref src ga gd gt gm    (references | entity sources | group arrays / frames / tags / multi-tags)
// Lines (every line is answered by one line):
//   new | reopen | observe | uuid <s:hex>
//   mk <p> <K> <name:str> <type:str> <extra>    extra: B S G R: nothing; A: <dtype> <rank> <dims>; D: <n> {<s:name> <dtype> <s:unit>}
//                                               T: <n> {<d:hex>}; M: <ref>; P: t <dtype> | v <n> {<dtype>}; X: h <ref> <lt> | s <str> <lt>
//   del|has|get <p> <K> <str> ; delh|hash <p> <K> <ref> ; geti <p> <K> <i> ; cnt|ls|chk <p> <K>
//   ladd|lrm|lhas <h> <sl> <ref> ; ladds|lrms|lhass|lget <h> <sl> <str> ; lgeti <h> <sl> <i> ; lcnt|lls|lchk <h> <sl>
//   lset <h> <sl> <n> {<ref>}
//   settype <o> <str> ; setdef <o> <str>|- ; setmeta|setlink|setpos|setext|setdata <o> <ref> ;
//   setmetas|setlinks|setposs|setexts|setdatas <o> <str> ; setunits <o> -|<n> {<s:hex>} ; setextent <o> <rank> <dims>
//   setvals <o> <n> {<dtype>} ; settpos <o> <n> {<d:hex>} ; settext <o> -|<n> {<d:hex>}
//   dim <a> set|range|sampled|alias ; dim <a> frame <ref> ; deldims <a>          (dimension descriptors: kind + frame link only)
//   writes of fields the model does not carry (answer OK - ; they show only in the raw dump of C02):
//     setlabel|setunit <a> <str>|- ; setorigin <a> <d:hex>|- ; setpoly <a> <n> {<d:hex>} ; wdata <a> <seed> ; frows <d> <n> (modelled)
//     wrow <d> <row> <seed> ; punit <p> <str>|- ; puncert <p> <d:hex>|- ; setrepo <s> <str>|- ; dimset <a> <i> <seed> ;
//     forcecreated <o>|F <seconds>
//   lsf <p> <K> <fk> <arg> ; llsf <h> <sl> <fk> <arg>      enumeration with a filter; fk: name notname id type (arg: <str>) | meta src (arg: <ref>)
//   dimsf <a> set|range|sampled|alias|frame               DataArray::dimensions(filter) by descriptor kind
//   posq <m> ; colq <d> <n> {<s:name>} <k> {<index>}       MultiTag::hasPositions / positionCount ; DataFrame::colIndex(names) / colName(indices)
//   setlt <x> <lt> ; touchupd <o> set|force ; wrowbad <d> <row> row|type|many ; `none` instead of a <ref>: the none_t overload
//   mk <b> A <name> <type> from <memtype> <n> <dtype|->    the template createDataArray(name, type, data, data_type)
//   mk ... z                                              (A with a shape, D) the explicit Compression argument ; dim <a> frame <ref> <col>
//   quiet on                                              from here to the next reopen the interpreter observes NOTHING (no dump, no digest,
//                                                         no liveness walk; deletes are not allowed): the next reopen is the first look at the file
//   hobs <o>                                              the entity seen through the handle the driver KEPT (the one that made the calls) against
//                                                         the fresh handles of the dump: same=<0|1> diff=<first differing field>
//   reopen def                                            File::open(path) with every argument defaulted
//   sdata <a> <memtype> <n>                       template DataSet::setData(std::vector<T>(n)): resize to {n}, write  (modelled)
//   adata <a> <memtype> <axis> <rank> <count..>   DataArray::appendData(memtype, buffer, count, axis)                  (modelled)
//   flush ; reopen [rw|ro|other]     (C02; `reopen` = `reopen rw`; ro: the session stays read-only until the next reopen;
//                                     other: a child process opens the file, dumps it, exits; then this process reopens rw)
// Answer:  OK <value> t=<0|1> h=<digest>   or   ERR <class> t=<0|1> h=<digest>
//   in mode C04 a successful delete answers  OK 1 dead=[..] dang=[..] zv=[..] frame=<0|1>  (see delete_report)
//   reopen answers  OK - same=<0|1> diff=<what> n=<entities>   (raw dump before the close against the raw dump after)
//   t = 1 iff the canonical dump of the whole file differs before / after the call (computed here, from the
//   implementation's own two dumps); h = 32-bit FNV-1a of the dump after the call.
// The driver refuses, before calling the library: a receiver that is not a live entity of a fitting kind
// (ERR driver::receiver), an argument of the wrong kind (ERR driver::kind), and an argument that is dead
// because one of its ancestors was deleted (ERR driver::orphan; such handles stay valid inside HDF5).
// A deleted entity whose parent is alive is passed as the stale handle it is.
// Index getters without a front-end bound check (Section::getProperty, Source::getSource, MultiTag::getFeature,
// EntityWithSources::getSource) answer ERR nix::OutOfBounds for an index >= count, whatever the library did.
#ifndef NIXV_HIST_COMMON_HPP
#define NIXV_HIST_COMMON_HPP
#include "common.hpp"
#include <hdf5.h>
#include <nix/util/filter.hpp>
#include <cstring>
#include <map>
#include <set>
#include <algorithm>
#include <sstream>
#include <memory>
#include <unistd.h>
#include <cstdio>

namespace nixv {
namespace hist {

static std::string workdir;
static std::string mode_ = "C03";       // which property's driver this is (C04: delete report)
static bool read_only = false;
static bool quiet = false;               // blind build: only the mutating calls are made, nothing is observed (no dump, no digest)
static std::vector<std::string> last_raw;      // C08: the raw dump (everything but updated_at) taken before a call that writes data / attributes
static std::vector<std::string> raw_at_open;   // the raw dump right after the last open (C02: a read-only session changes nothing)
static nix::File file;
static int file_serial = 0;
static std::string path;

struct H {
    char kind = 0;
    int parent = -2;          // -1 = the file
    std::string name;         // the name given on the mk line
    bool bound = false;
    bool alive = false;
    bool linked = false;      // some link may have pointed to it at some time (see mark_linked)
    std::string id;
    nix::Block b; nix::Section s; nix::Property p; nix::DataArray a; nix::DataFrame d;
    nix::Tag t; nix::MultiTag m; nix::Group g; nix::Source r; nix::Feature x;
};
static std::vector<H> hs;
static std::map<std::string, int> ord_of_id;
static std::string last_dump;

static const char *NOID = "00000000-0000-0000-0000-000000000000";

[[noreturn]] static void refuse(const char *what) { throw std::domain_error(what); }

// ---- tokens ----
static nix::DataType dec_dtype(const std::string &t) {
    static const std::map<std::string, nix::DataType> m = {
        {"Bool", nix::DataType::Bool}, {"Char", nix::DataType::Char}, {"Float", nix::DataType::Float},
        {"Double", nix::DataType::Double}, {"Int8", nix::DataType::Int8}, {"Int16", nix::DataType::Int16},
        {"Int32", nix::DataType::Int32}, {"Int64", nix::DataType::Int64}, {"UInt8", nix::DataType::UInt8},
        {"UInt16", nix::DataType::UInt16}, {"UInt32", nix::DataType::UInt32}, {"UInt64", nix::DataType::UInt64},
        {"String", nix::DataType::String}, {"Opaque", nix::DataType::Opaque}, {"Nothing", nix::DataType::Nothing}};
    auto it = m.find(t);
    if (it == m.end()) throw std::logic_error("bad dtype " + t);
    return it->second;
}
static std::string enc_dtype(nix::DataType t) {
    switch (t) {
    case nix::DataType::Bool: return "Bool"; case nix::DataType::Char: return "Char";
    case nix::DataType::Float: return "Float"; case nix::DataType::Double: return "Double";
    case nix::DataType::Int8: return "Int8"; case nix::DataType::Int16: return "Int16";
    case nix::DataType::Int32: return "Int32"; case nix::DataType::Int64: return "Int64";
    case nix::DataType::UInt8: return "UInt8"; case nix::DataType::UInt16: return "UInt16";
    case nix::DataType::UInt32: return "UInt32"; case nix::DataType::UInt64: return "UInt64";
    case nix::DataType::String: return "String"; case nix::DataType::Opaque: return "Opaque";
    case nix::DataType::Nothing: return "Nothing";
    }
    return "?";
}
static nix::Variant sample_value(nix::DataType t) {
    switch (t) {
    case nix::DataType::Bool: return nix::Variant(true);
    case nix::DataType::Int32: return nix::Variant(int32_t(3));
    case nix::DataType::UInt32: return nix::Variant(uint32_t(3));
    case nix::DataType::Int64: return nix::Variant(int64_t(3));
    case nix::DataType::UInt64: return nix::Variant(uint64_t(3));
    case nix::DataType::Double: return nix::Variant(1.5);
    case nix::DataType::String: return nix::Variant(std::string("v"));
    default: throw std::logic_error("no Variant of that type");
    }
}
static nix::LinkType dec_lt(const std::string &t) {
    if (t == "tagged") return nix::LinkType::Tagged;
    if (t == "untagged") return nix::LinkType::Untagged;
    if (t == "indexed") return nix::LinkType::Indexed;
    throw std::logic_error("bad link type " + t);
}
static std::string enc_lt(nix::LinkType t) {
    return t == nix::LinkType::Tagged ? "tagged" : t == nix::LinkType::Untagged ? "untagged" : "indexed";
}

static int dec_ref(const std::string &t) {     // -1 = none
    if (t == "-" || t == "none") return -1;
    return (int)dec_int(t);
}
static bool is_bound(int k) { return k >= 0 && k < (int)hs.size() && hs[k].bound; }
static bool is_live(int k) { return is_bound(k) && hs[k].alive; }

static std::string dec_sarg(const std::string &t) {
    if (t.size() >= 2 && t[1] == ':') {
        if (t[0] == 's') return dec_str(t);
        int k = (int)dec_int(t.substr(2));
        if (t[0] == 'n') { if (k < 0 || k >= (int)hs.size()) throw std::logic_error("n: of a future line"); return hs[k].name; }
        if (t[0] == 'i') return is_bound(k) ? hs[k].id : std::string(NOID);
    }
    throw std::logic_error("bad string argument " + t);
}

// receiver: a live entity whose kind is one of `kinds`
static H &recv(int k, const char *kinds) {
    if (!is_live(k)) refuse("driver::receiver");
    if (!std::strchr(kinds, hs[k].kind)) refuse("driver::receiver");
    return hs[k];
}
// argument: none (-1 / unbound) | live | deleted-with-live-parent; returns index or -1
static int arg(int k, char kind) {
    if (k < 0) return -1;
    if (k >= (int)hs.size()) throw std::logic_error("reference to a future line");
    if (hs[k].kind != kind) refuse("driver::kind");
    if (!hs[k].bound) return -1;
    if (!hs[k].alive) {
        int p = hs[k].parent;
        if (p >= 0 && !is_live(p)) refuse("driver::orphan");
        // a deleted entity that a DELETED holder (or the entity itself) still links to keeps a positive HDF5 link
        // count: isValidEntity() stays true.  The model does not follow such links, so these handles are not used.
        if (hs[k].linked) refuse("driver::zombie");
    }
    return k;
}
// after a successful call that creates links: every entity the arguments may have named counts as linked
static void mark_linked_ref(int k) { if (k >= 0 && k < (int)hs.size()) hs[k].linked = true; }
static void mark_linked_str(const std::string &s) {
    for (auto &h : hs) if (h.bound && (h.id == s || h.name == s)) h.linked = true;
}
static nix::DataArray argA(int k) { int i = arg(k, 'A'); return i < 0 ? nix::DataArray() : hs[i].a; }
static nix::DataFrame argD(int k) { int i = arg(k, 'D'); return i < 0 ? nix::DataFrame() : hs[i].d; }
static nix::Tag argT(int k) { int i = arg(k, 'T'); return i < 0 ? nix::Tag() : hs[i].t; }
static nix::MultiTag argM(int k) { int i = arg(k, 'M'); return i < 0 ? nix::MultiTag() : hs[i].m; }
static nix::Group argG(int k) { int i = arg(k, 'G'); return i < 0 ? nix::Group() : hs[i].g; }
static nix::Source argR(int k) { int i = arg(k, 'R'); return i < 0 ? nix::Source() : hs[i].r; }
static nix::Section argS(int k) { int i = arg(k, 'S'); return i < 0 ? nix::Section() : hs[i].s; }
static nix::Block argB(int k) { int i = arg(k, 'B'); return i < 0 ? nix::Block() : hs[i].b; }
static nix::Property argP(int k) { int i = arg(k, 'P'); return i < 0 ? nix::Property() : hs[i].p; }
static nix::Feature argX(int k) { int i = arg(k, 'X'); return i < 0 ? nix::Feature() : hs[i].x; }

// ---- ordinals of what the library returns ----
static std::string ord_str(const std::string &id) {
    auto it = ord_of_id.find(id);
    return it == ord_of_id.end() ? "?" : std::to_string(it->second);
}
template<typename E> static std::string ordof(const E &e) {
    if (!e) return "-";
    try { return ord_str(e.id()); } catch (...) { return "!"; }
}
template<typename E> static std::string ords(const std::vector<E> &v) {
    std::string o = "[";
    for (size_t i = 0; i < v.size(); i++) { if (i) o += " "; o += ordof(v[i]); }
    return o + "]";
}

// ---- the canonical dump ----
#define SAFE(expr) ([&]() -> std::string { try { return (expr); } catch (...) { return "!"; } })()
#define SAFE0(expr) ([&]() -> std::string { try { return (expr); } catch (...) { return "[]"; } })()
static std::string b01(bool b) { return b ? "1" : "0"; }
static std::string ostr(const boost::optional<std::string> &o) { return o ? enc_str(*o) : "-"; }
static std::string dbls(const std::vector<double> &v) {
    std::string o = "[";
    for (size_t i = 0; i < v.size(); i++) { if (i) o += " "; o += enc_dbl(v[i]); }
    return o + "]";
}
static std::string strs(const std::vector<std::string> &v) {
    std::string o = "[";
    for (size_t i = 0; i < v.size(); i++) { if (i) o += " "; o += enc_str(v[i]); }
    return o + "]";
}
static std::string ndsz(const nix::NDSize &v) {
    std::string o = "[";
    for (size_t i = 0; i < v.size(); i++) { if (i) o += " "; o += enc_u64(v[i]); }
    return o + "]";
}

// a name that is the id of a known entity is printed as i:<ordinal> (real ids never leave the driver)
static std::string enc_name(const std::string &n) {
    auto it = ord_of_id.find(n);
    return it == ord_of_id.end() ? enc_str(n) : "i:" + std::to_string(it->second);
}

struct Walk {
    std::vector<std::pair<long, std::string>> lines;   // (ordinal or 1e9+serial, text)
    std::set<std::string> ids;
    bool rebind = false;
    long unknown = 0;

    long key(const std::string &id) {
        auto it = ord_of_id.find(id);
        return it == ord_of_id.end() ? 1000000000L + unknown++ : it->second;
    }
    template<typename E> std::string head(char K, const E &e, const std::string &parent, std::string &id, long &k) {
        id = SAFE(e.id());
        ids.insert(id);
        k = key(id);
        return std::string(1, K) + (k >= 1000000000L ? std::string("?") : std::to_string(k)) + " p=" + parent;
    }
    template<typename E> std::string named(const E &e) {
        return " n=" + SAFE(enc_name(e.name())) + " t=" + SAFE(enc_str(e.type())) + " d=" + SAFE(ostr(e.definition()));
    }
    template<typename E> std::string meta_src(const E &e) {
        return " meta=" + SAFE(ordof(e.metadata())) + " src=" + SAFE(ords(e.sources()));
    }
    template<typename C, typename F> std::string kids(size_t n, const F &get, std::vector<C> &out) {
        std::string o = "[";
        for (size_t i = 0; i < n; i++) {
            C c;
            try { c = get(i); } catch (...) { o += (i ? " !" : "!"); continue; }
            if (!c) continue;
            out.push_back(c);
            if (o.size() > 1) o += " ";
            o += ordof(c);
        }
        return o + "]";
    }
    void feature(const nix::Feature &f, const std::string &parent) {
        std::string id; long k;
        std::string l = head('X', f, parent, id, k);
        if (rebind && k < 1000000000L) { hs[k].x = f; }
        l += " lt=" + SAFE(enc_str(enc_lt(f.linkType()))) + " data=" + SAFE(ordof(f.data()));
        lines.push_back({k, l});
    }
    void source(const nix::Source &r, const std::string &parent) {
        std::string id; long k;
        std::string l = head('R', r, parent, id, k);
        if (rebind && k < 1000000000L) { hs[k].r = r; }
        std::string me = k >= 1000000000L ? "?" : std::to_string(k);
        std::vector<nix::Source> ks;
        l += named(r) + " meta=" + SAFE(ordof(r.metadata()));
        l += " R=" + SAFE(kids<nix::Source>((size_t)r.sourceCount(), [&](size_t i) { return r.getSource(i); }, ks));
        lines.push_back({k, l});
        for (auto &c : ks) source(c, me);
    }
    void section(const nix::Section &s, const std::string &parent) {
        std::string id; long k;
        std::string l = head('S', s, parent, id, k);
        if (rebind && k < 1000000000L) { hs[k].s = s; }
        std::string me = k >= 1000000000L ? "?" : std::to_string(k);
        std::vector<nix::Section> ks; std::vector<nix::Property> ps;
        l += named(s) + " link=" + SAFE(ordof(s.link()));
        l += " S=" + SAFE(kids<nix::Section>((size_t)s.sectionCount(), [&](size_t i) { return s.getSection(i); }, ks));
        l += " P=" + SAFE(kids<nix::Property>((size_t)s.propertyCount(), [&](size_t i) { return s.getProperty(i); }, ps));
        lines.push_back({k, l});
        for (auto &p : ps) {
            std::string pid; long pk;
            std::string pl = head('P', p, me, pid, pk);
            if (rebind && pk < 1000000000L) { hs[pk].p = p; }
            pl += " n=" + SAFE(enc_name(p.name())) + " d=" + SAFE(ostr(p.definition())) + " dt=" + SAFE(enc_dtype(p.dataType()));
            pl += " cnt=[" + SAFE(enc_u64(p.valueCount())) + "]";
            lines.push_back({pk, pl});
        }
        for (auto &c : ks) section(c, me);
    }
    // the descriptors of an array: kind, and for a data-frame dimension the frame it links to
    std::string dims_of(const nix::DataArray &a) {
        std::string o = "[";
        size_t n = (size_t)a.dimensionCount();
        for (size_t i = 1; i <= n; i++) {
            if (i > 1) o += " ";
            nix::Dimension d = a.getDimension(i);
            switch (d.dimensionType()) {
            case nix::DimensionType::Set: o += "set"; break;
            case nix::DimensionType::Sample: o += "sampled"; break;
            case nix::DimensionType::Range: { nix::RangeDimension r; r = d; o += r.alias() ? "alias" : "range"; break; }
            case nix::DimensionType::DataFrame: {
                nix::DataFrameDimension f; f = d;
                std::string tgt = "-";
                try { nix::DataFrame df(f.data()); tgt = ordof(df); } catch (...) { tgt = "-"; }
                // every getter of a descriptor whose frame is gone has to fail cleanly (an exception; never a crash)
                try { (void)f.label(); } catch (...) {}
                try { (void)f.unit(0u); } catch (...) {}
                try { (void)f.size(); } catch (...) {}
                try { (void)f.columnIndex(); } catch (...) {}
                try { (void)f.indexOf(0.0, nix::PositionMatch::GreaterOrEqual); } catch (...) {}
                o += "frame:" + tgt; break; }
            default: o += "?";
            }
        }
        return o + "]";
    }
    template<typename TG> void features_of(const TG &t, const std::string &me, std::string &l, std::vector<nix::Feature> &fs) {
        l += " X=" + SAFE(kids<nix::Feature>((size_t)t.featureCount(), [&](size_t i) { return t.getFeature(i); }, fs));
    }
    void block(const nix::Block &b) {
        std::string id; long k;
        std::string l = head('B', b, "F", id, k);
        if (rebind && k < 1000000000L) { hs[k].b = b; }
        std::string me = k >= 1000000000L ? "?" : std::to_string(k);
        std::vector<nix::DataArray> as; std::vector<nix::DataFrame> ds; std::vector<nix::Tag> ts;
        std::vector<nix::MultiTag> ms; std::vector<nix::Group> gs; std::vector<nix::Source> rs;
        l += named(b) + " meta=" + SAFE(ordof(b.metadata()));
        l += " A=" + SAFE(kids<nix::DataArray>((size_t)b.dataArrayCount(), [&](size_t i) { return b.getDataArray(i); }, as));
        l += " D=" + SAFE(kids<nix::DataFrame>((size_t)b.dataFrameCount(), [&](size_t i) { return b.getDataFrame(i); }, ds));
        l += " T=" + SAFE(kids<nix::Tag>((size_t)b.tagCount(), [&](size_t i) { return b.getTag(i); }, ts));
        l += " M=" + SAFE(kids<nix::MultiTag>((size_t)b.multiTagCount(), [&](size_t i) { return b.getMultiTag(i); }, ms));
        l += " G=" + SAFE(kids<nix::Group>((size_t)b.groupCount(), [&](size_t i) { return b.getGroup(i); }, gs));
        l += " R=" + SAFE(kids<nix::Source>((size_t)b.sourceCount(), [&](size_t i) { return b.getSource(i); }, rs));
        lines.push_back({k, l});
        for (auto &a : as) {
            std::string aid; long ak;
            std::string al = head('A', a, me, aid, ak);
            if (rebind && ak < 1000000000L) { hs[ak].a = a; }
            al += named(a) + " dt=" + SAFE(enc_dtype(a.dataType())) + " ext=" + SAFE(ndsz(a.dataExtent()));
            al += " dims=" + SAFE(dims_of(a)) + meta_src(a);
            lines.push_back({ak, al});
        }
        for (auto &d : ds) {
            std::string did; long dk;
            std::string dl = head('D', d, me, did, dk);
            if (rebind && dk < 1000000000L) { hs[dk].d = d; }
            // a frame without its dataset (half-built by a rejected create) reads as "no columns, no rows"
            dl += named(d) + " cols=" + SAFE0(([&]() {
                std::string o = "[";
                auto cs = d.columns();
                for (size_t i = 0; i < cs.size(); i++) {
                    if (i) o += " ";
                    o += enc_str(cs[i].name) + ":" + enc_dtype(cs[i].dtype) + ":" + enc_str(cs[i].unit);
                }
                return o + "]"; })());
            dl += " rows=" + SAFE0("[" + enc_u64(d.rows()) + "]") + meta_src(d);
            lines.push_back({dk, dl});
        }
        for (auto &t : ts) {
            std::string tid; long tk;
            std::string tl = head('T', t, me, tid, tk);
            if (rebind && tk < 1000000000L) { hs[tk].t = t; }
            std::string tme = tk >= 1000000000L ? "?" : std::to_string(tk);
            std::vector<nix::Feature> fs;
            tl += named(t) + " pos=" + SAFE(dbls(t.position()));
            tl += " ext=" + SAFE(([&]() { auto e = t.extent(); return e.empty() ? std::string("-") : dbls(e); })());
            tl += " units=" + SAFE(([&]() { auto u = t.units(); return u.empty() ? std::string("-") : strs(u); })());
            tl += " refs=" + SAFE(ords(t.references()));
            features_of(t, tme, tl, fs);
            tl += meta_src(t);
            lines.push_back({tk, tl});
            for (auto &f : fs) feature(f, tme);
        }
        for (auto &m : ms) {
            std::string mid; long mk;
            std::string ml = head('M', m, me, mid, mk);
            if (rebind && mk < 1000000000L) { hs[mk].m = m; }
            std::string mme = mk >= 1000000000L ? "?" : std::to_string(mk);
            std::vector<nix::Feature> fs;
            ml += named(m);
            ml += " pos=" + ([&]() -> std::string { try { return ordof(m.positions()); } catch (...) { return "-"; } })();
            ml += " ext=" + ([&]() -> std::string { try { return ordof(m.extents()); } catch (...) { return "-"; } })();
            ml += " units=" + SAFE(([&]() { auto u = m.units(); return u.empty() ? std::string("-") : strs(u); })());
            ml += " refs=" + SAFE(ords(m.references()));
            features_of(m, mme, ml, fs);
            ml += meta_src(m);
            lines.push_back({mk, ml});
            for (auto &f : fs) feature(f, mme);
        }
        for (auto &g : gs) {
            std::string gid; long gk;
            std::string gl = head('G', g, me, gid, gk);
            if (rebind && gk < 1000000000L) { hs[gk].g = g; }
            gl += named(g) + " ga=" + SAFE(ords(g.dataArrays())) + " gd=" + SAFE(ords(g.dataFrames()));
            gl += " gt=" + SAFE(ords(g.tags())) + " gm=" + SAFE(ords(g.multiTags())) + meta_src(g);
            lines.push_back({gk, gl});
        }
        for (auto &r : rs) source(r, me);
    }
    std::string run() {
        std::vector<nix::Block> bs; std::vector<nix::Section> ss;
        std::string root = "F B=" + SAFE(kids<nix::Block>((size_t)file.blockCount(), [&](size_t i) { return file.getBlock(i); }, bs));
        root += " S=" + SAFE(kids<nix::Section>((size_t)file.sectionCount(), [&](size_t i) { return file.getSection(i); }, ss));
        for (auto &b : bs) block(b);
        for (auto &s : ss) section(s, "F");
        // known entities by ordinal; entities the driver does not know (half-built, re-identified) after them, by text
        std::stable_sort(lines.begin(), lines.end(), [](const std::pair<long, std::string> &x, const std::pair<long, std::string> &y) {
            long a = std::min(x.first, 1000000000L), b = std::min(y.first, 1000000000L);
            if (a != b) return a < b;
            return a == 1000000000L && x.second < y.second; });
        std::string out = root;
        for (auto &l : lines) out += " | " + l.second;
        return out;
    }
};

static std::string dump() { Walk w; return w.run(); }
// liveness of every bound ordinal = its id is reachable from the root (after a delete / reopen)
static void refresh_liveness(bool rebind) {
    Walk w; w.rebind = rebind;
    last_dump = w.run();
    for (auto &h : hs) if (h.bound) h.alive = w.ids.count(h.id) > 0;
}
static unsigned fnv(const std::string &s) {
    unsigned h = 2166136261u;
    for (unsigned char c : s) { h ^= c; h *= 16777619u; }
    return h;
}


static size_t nelms(const nix::NDSize &e) { size_t n = 1; for (size_t i = 0; i < e.size(); i++) n *= (size_t)e[i]; return e.size() ? n : 0; }

// ---- the raw dump (C02): everything the property lists, with the real ids and times, in container order ----
// Used only to compare the file with ITSELF: before a close and after the reopen (same process, or another one).
struct Raw {
    std::vector<std::string> lines;
    bool with_updated = true;      // updated_at is left out when a dump is used to judge a REJECTED call (whole seconds)
    static std::string tm(time_t t) { return std::to_string((long long)t); }
    static std::string od(const boost::optional<double> &o) { return o ? enc_dbl(*o) : "-"; }
    static std::string variant(const nix::Variant &v) {
        switch (v.type()) {
        case nix::DataType::Bool: return std::string("b:") + (v.get<bool>() ? "1" : "0");
        case nix::DataType::Int32: return "i32:" + std::to_string(v.get<int32_t>());
        case nix::DataType::UInt32: return "u32:" + std::to_string(v.get<uint32_t>());
        case nix::DataType::Int64: return "i64:" + std::to_string(v.get<int64_t>());
        case nix::DataType::UInt64: return "u64:" + std::to_string(v.get<uint64_t>());
        case nix::DataType::Double: return enc_dbl(v.get<double>());
        case nix::DataType::String: return enc_str(v.get<std::string>());
        default: return "nothing";
        }
    }
    template<typename E> static std::string idof(const E &e) { if (!e) return "-"; try { return e.id(); } catch (...) { return "!"; } }
    template<typename E> static std::string idsof(const std::vector<E> &v) { std::string o = "["; for (auto &e : v) o += idof(e) + ","; return o + "]"; }
    template<typename E> std::string head(const char *K, const E &e, const std::string &parent) {
        return std::string(K) + " id=" + SAFE(e.id()) + " in=" + parent + " created=" + SAFE(tm(e.createdAt())) +
               (with_updated ? " updated=" + SAFE(tm(e.updatedAt())) : std::string());
    }
    template<typename E> std::string named(const E &e) {
        return " name=" + SAFE(enc_str(e.name())) + " type=" + SAFE(enc_str(e.type())) + " def=" + SAFE(ostr(e.definition()));
    }
    template<typename E> std::string meta_src(const E &e) {
        return " meta=" + SAFE(idof(e.metadata())) + " src=" + SAFE(idsof(e.sources()));
    }
    static std::string data_hash(const nix::DataArray &a) {
        nix::NDSize ext = a.dataExtent();
        size_t n = nelms(ext);
        if (n == 0) return "empty";
        nix::NDSize off(ext.size(), 0);
        nix::DataType dt = a.dataType();
        std::string bytes;
        if (dt == nix::DataType::String) {
            std::vector<std::string> v(n);
            a.getDataDirect(dt, v.data(), ext, off);
            for (auto &x : v) { bytes += x; bytes.push_back('\0'); }
        } else {
            size_t sz = nix::data_type_to_size(dt);
            bytes.resize(n * sz);
            a.getDataDirect(dt, &bytes[0], ext, off);
        }
        char buf[32]; std::snprintf(buf, sizeof buf, "%08x/%zu", fnv(bytes), bytes.size());
        return buf;
    }
    std::string dims(const nix::DataArray &a) {
        std::string o = "[";
        size_t n = (size_t)a.dimensionCount();
        for (size_t i = 1; i <= n; i++) {
            nix::Dimension d = a.getDimension(i);
            o += SAFE(([&]() -> std::string {
                switch (d.dimensionType()) {
                case nix::DimensionType::Set: { nix::SetDimension x; x = d; return "set(" + strs(x.labels()) + ")"; }
                case nix::DimensionType::Sample: { nix::SampledDimension x; x = d;
                    return "sampled(" + enc_dbl(x.samplingInterval()) + "," + od(x.offset()) + "," + ostr(x.label()) + "," + ostr(x.unit()) + ")"; }
                case nix::DimensionType::Range: { nix::RangeDimension x; x = d;
                    if (x.alias()) return std::string("alias");
                    return "range(" + dbls(x.ticks()) + "," + ostr(x.label()) + "," + ostr(x.unit()) + ")"; }
                case nix::DimensionType::DataFrame: { nix::DataFrameDimension x; x = d;
                    std::string f = "-"; try { f = nix::DataFrame(x.data()).id(); } catch (...) {}
                    auto ci = x.columnIndex();
                    return "frame(" + f + "," + (ci ? std::to_string(*ci) : std::string("-")) + ")"; }
                }
                return std::string("?"); })()) + ";";
        }
        return o + "]";
    }
    void feature(const nix::Feature &f, const std::string &parent) {
        lines.push_back(head("X", f, parent) + " lt=" + SAFE(enc_lt(f.linkType())) + " data=" + SAFE(idof(f.data())));
    }
    void source(const nix::Source &r, const std::string &parent) {
        std::string me = SAFE(r.id());
        lines.push_back(head("R", r, parent) + named(r) + " meta=" + SAFE(idof(r.metadata())) + " n=" + SAFE(std::to_string(r.sourceCount())));
        size_t n = 0; try { n = (size_t)r.sourceCount(); } catch (...) {}
        for (size_t i = 0; i < n; i++) { try { source(r.getSource(i), me); } catch (...) { lines.push_back("R ! in=" + me); } }
    }
    void section(const nix::Section &s, const std::string &parent) {
        std::string me = SAFE(s.id());
        lines.push_back(head("S", s, parent) + named(s) + " repo=" + SAFE(ostr(s.repository())) + " link=" + SAFE(idof(s.link())));
        size_t np = 0; try { np = (size_t)s.propertyCount(); } catch (...) {}
        for (size_t i = 0; i < np; i++) {
            try {
                nix::Property p = s.getProperty(i);
                std::string l = head("P", p, me) + " name=" + SAFE(enc_str(p.name())) + " def=" + SAFE(ostr(p.definition()));
                l += " unit=" + SAFE(ostr(p.unit())) + " unc=" + SAFE(od(p.uncertainty())) + " dt=" + SAFE(enc_dtype(p.dataType()));
                l += " vals=" + SAFE(([&]() { std::string o = "["; for (auto &v : p.values()) o += variant(v) + ","; return o + "]"; })());
                lines.push_back(l);
            } catch (const std::exception &e) { if (std::getenv("NIXV_DEBUG_RAW")) std::cerr << "RAWEXC getProperty(" << i << ") of " << me << ": " << e.what() << "\n"; lines.push_back("P ! in=" + me); }
              catch (...) { lines.push_back("P ! in=" + me); }
        }
        size_t n = 0; try { n = (size_t)s.sectionCount(); } catch (...) {}
        for (size_t i = 0; i < n; i++) { try { section(s.getSection(i), me); } catch (...) { lines.push_back("S ! in=" + me); } }
    }
    template<typename TG> void tagcommon(const TG &t, const std::string &me, std::string &l) {
        l += " units=" + SAFE(strs(t.units())) + " refs=" + SAFE(idsof(t.references())) + meta_src(t);
        lines.push_back(l);
        size_t n = 0; try { n = (size_t)t.featureCount(); } catch (...) {}
        for (size_t i = 0; i < n; i++) { try { feature(t.getFeature(i), me); } catch (...) { lines.push_back("X ! in=" + me); } }
    }
    void block(const nix::Block &b) {
        std::string me = SAFE(b.id());
        lines.push_back(head("B", b, "file") + named(b) + " meta=" + SAFE(idof(b.metadata())));
        for (auto &a : b.dataArrays()) {
            std::string l = head("A", a, me) + named(a) + " label=" + SAFE(ostr(a.label())) + " unit=" + SAFE(ostr(a.unit()));
            l += " origin=" + SAFE(od(a.expansionOrigin())) + " poly=" + SAFE(dbls(a.polynomCoefficients()));
            l += " dt=" + SAFE(enc_dtype(a.dataType())) + " ext=" + SAFE(ndsz(a.dataExtent())) + " data=" + SAFE(data_hash(a));
            l += " dims=" + SAFE(dims(a)) + meta_src(a);
            lines.push_back(l);
        }
        for (auto &dd : b.dataFrames()) {
            nix::DataFrame d = dd;
            std::string l = head("D", d, me) + named(d);
            l += " cols=" + SAFE(([&]() { std::string o = "["; for (auto &c : d.columns()) o += enc_str(c.name) + ":" + enc_dtype(c.dtype) + ":" + enc_str(c.unit) + ","; return o + "]"; })());
            l += " rows=" + SAFE(std::to_string(d.rows()));
            // the vector overloads: every name to its index and back
            l += " colidx=" + SAFE(([&]() { std::vector<std::string> ns; for (auto &c : d.columns()) ns.push_back(c.name);
                std::vector<unsigned> ix = d.colIndex(ns); std::string o = "["; for (unsigned x : ix) o += std::to_string(x) + ","; return o + "]" + strs(d.colName(ix)); })());
            l += " cells=" + SAFE(([&]() { std::string o; nix::ndsize_t n = d.rows();
                for (nix::ndsize_t i = 0; i < n; i++) { o += "("; for (auto &v : d.readRow(i)) o += variant(v) + ","; o += ")"; }
                char buf[32]; std::snprintf(buf, sizeof buf, "%08x/%zu", fnv(o), o.size()); return std::string(buf); })());
            l += meta_src(d);
            lines.push_back(l);
        }
        for (auto &t : b.tags()) {
            std::string l = head("T", t, me) + named(t) + " pos=" + SAFE(dbls(t.position())) + " ext=" + SAFE(dbls(t.extent()));
            tagcommon(t, SAFE(t.id()), l);
        }
        for (auto &m : b.multiTags()) {
            std::string l = head("M", m, me) + named(m);
            l += " pos=" + ([&]() -> std::string { try { return idof(m.positions()); } catch (...) { return "-"; } })();
            l += " ext=" + ([&]() -> std::string { try { return idof(m.extents()); } catch (...) { return "-"; } })();
            l += " haspos=" + SAFE(b01(m.hasPositions())) + " npos=" + SAFE(std::to_string(m.positionCount()));
            tagcommon(m, SAFE(m.id()), l);
        }
        for (auto &g : b.groups()) {
            lines.push_back(head("G", g, me) + named(g) + " ga=" + SAFE(idsof(g.dataArrays())) + " gd=" + SAFE(idsof(g.dataFrames())) +
                            " gt=" + SAFE(idsof(g.tags())) + " gm=" + SAFE(idsof(g.multiTags())) + meta_src(g));
        }
        size_t n = 0; try { n = (size_t)b.sourceCount(); } catch (...) {}
        for (size_t i = 0; i < n; i++) { try { source(b.getSource(i), me); } catch (...) { lines.push_back("R ! in=" + me); } }
    }
    void run(nix::File &f) {
        lines.push_back("F format=" + SAFE(f.format()) + " version=" + SAFE(([&]() { std::string o; for (int x : f.version()) o += std::to_string(x) + "."; return o; })()) +
                        " created=" + SAFE(tm(f.createdAt())) + (with_updated ? " updated=" + SAFE(tm(f.updatedAt())) : std::string()) +
                        " loc=" + SAFE(enc_str(f.location())));
        size_t nb = 0; try { nb = (size_t)f.blockCount(); } catch (...) {}
        for (size_t i = 0; i < nb; i++) { try { block(f.getBlock(i)); } catch (...) { lines.push_back("B !"); } }
        size_t ns = 0; try { ns = (size_t)f.sectionCount(); } catch (...) {}
        for (size_t i = 0; i < ns; i++) { try { section(f.getSection(i), "file"); } catch (...) { lines.push_back("S !"); } }
    }
};

static std::vector<std::string> rawdump(nix::File &f, bool with_updated = true) { Raw r; r.with_updated = with_updated; r.run(f); return r.lines; }

// the first difference of two raw dumps as "<kind>.<field>" (or "-"): a label only, never an id or a time
static std::string raw_diff(const std::vector<std::string> &a, const std::vector<std::string> &b) {
    if (a.size() != b.size()) return "entities";
    for (size_t i = 0; i < a.size(); i++) {
        if (a[i] == b[i]) continue;
        std::vector<std::string> x = split(a[i]), y = split(b[i]);
        if (std::getenv("NIXV_DEBUG_RAW")) std::cerr << "RAWDIFF before: " << a[i] << "\nRAWDIFF after : " << b[i] << "\n";
        // an entity that was there before the close and cannot be read at all after the reopen (its dump line is "<K> ! in=...")
        if (y.size() >= 2 && y[1] == "!" && !(x.size() >= 2 && x[1] == "!")) return "unreadable-after-reopen:" + x[0];
        if (x.size() != y.size()) return x[0] + ".fields";
        for (size_t j = 0; j < x.size(); j++) if (x[j] != y[j]) return x[0] + "." + x[j].substr(0, x[j].find('='));
        return x[0] + ".?";
    }
    return "-";
}

// child process of `reopen other`: open, dump, exit
static int rawdump_main(const char *file_path, const char *m) {
    H5Eset_auto2(H5E_DEFAULT, nullptr, nullptr);
    try {
        nix::File f = nix::File::open(file_path, std::string(m) == "ro" ? nix::FileMode::ReadOnly : nix::FileMode::ReadWrite);
        for (auto &l : rawdump(f)) std::cout << l << "\n";
        f.close();
    } catch (const std::exception &e) { std::cout << "EXCEPTION " << e.what() << "\n"; return 3; }
    std::cout << "END\n" << std::flush;
    return 0;
}

static bool other_process_dump(const std::string &m, std::vector<std::string> &out) {
    char exe[4096];
    ssize_t n = readlink("/proc/self/exe", exe, sizeof exe - 1);
    if (n <= 0) return false;
    exe[n] = 0;
    std::string cmd = std::string("'") + exe + "' --rawdump '" + path + "' " + m + " 2>/dev/null";
    FILE *p = popen(cmd.c_str(), "r");
    if (!p) return false;
    char buf[65536];
    std::string all;
    size_t k;
    while ((k = fread(buf, 1, sizeof buf, p)) > 0) all.append(buf, k);
    int rc = pclose(p);
    std::stringstream ss(all);
    std::string l;
    bool ended = false;
    while (std::getline(ss, l)) { if (l == "END") { ended = true; break; } out.push_back(l); }
    return ended && rc == 0;
}


// ---- enumerations with a non-default filter (ImplContainer::getEntities: candidate && filter) ----
struct FSpec { std::string kind; std::string s; };      // kind: name notname id type meta src ; s: the string (meta / src: an id)
template<typename E> struct Traits { static const bool named = true, typed = true, meta = true, src = true; };
template<> struct Traits<nix::Block> { static const bool named = true, typed = true, meta = true, src = false; };
template<> struct Traits<nix::Section> { static const bool named = true, typed = true, meta = false, src = false; };
template<> struct Traits<nix::Source> { static const bool named = true, typed = true, meta = true, src = false; };
template<> struct Traits<nix::Property> { static const bool named = true, typed = false, meta = false, src = false; };
template<> struct Traits<nix::Feature> { static const bool named = false, typed = false, meta = false, src = false; };
template<typename E, bool> struct MkName { static std::function<bool(const E &)> mk(const FSpec &, bool) { refuse("driver::kind"); } };
template<typename E> struct MkName<E, true> { static std::function<bool(const E &)> mk(const FSpec &f, bool neg) {
    if (!neg) return nix::util::NameFilter<E>(f.s);
    nix::util::NameFilter<E> nf(f.s);
    return [nf](const E &e) mutable { return !nf(e); }; } };
template<typename E, bool> struct MkType { static std::function<bool(const E &)> mk(const FSpec &) { refuse("driver::kind"); } };
template<typename E> struct MkType<E, true> { static std::function<bool(const E &)> mk(const FSpec &f) {
    // the argument of TypeFilter is a regular expression: quote it
    std::string q; for (char ch : f.s) { if (std::strchr(".[]{}()\\*+?|^$", ch)) q += '\\'; q += ch; }
    return nix::util::TypeFilter<E>(q); } };
template<typename E, bool> struct MkMeta { static std::function<bool(const E &)> mk(const FSpec &) { refuse("driver::kind"); } };
template<typename E> struct MkMeta<E, true> { static std::function<bool(const E &)> mk(const FSpec &f) { return nix::util::MetadataFilter<E>(f.s); } };
template<typename E, bool> struct MkSrc { static std::function<bool(const E &)> mk(const FSpec &) { refuse("driver::kind"); } };
template<typename E> struct MkSrc<E, true> { static std::function<bool(const E &)> mk(const FSpec &f) { return nix::util::SourceFilter<E>(f.s); } };
template<typename E> static std::function<bool(const E &)> make_filter(const FSpec &f) {
    if (f.kind == "id") return nix::util::IdFilter<E>(f.s);
    if (f.kind == "name") return MkName<E, Traits<E>::named>::mk(f, false);
    if (f.kind == "notname") return MkName<E, Traits<E>::named>::mk(f, true);
    if (f.kind == "type") return MkType<E, Traits<E>::typed>::mk(f);
    if (f.kind == "meta") return MkMeta<E, Traits<E>::meta>::mk(f);
    if (f.kind == "src") return MkSrc<E, Traits<E>::src>::mk(f);
    throw std::logic_error("bad filter " + f.kind);
}
// the answer of a filtered enumeration: what X::ys(filter) returns, and the get(index) loop restricted by the same predicate
template<typename E, typename LS, typename GI> static std::string filtered_answer(const FSpec &f, const LS &ls, size_t n, const GI &geti) {
    std::function<bool(const E &)> flt = make_filter<E>(f);
    std::string a = ords(ls(flt));
    std::vector<std::string> idx;
    for (size_t i = 0; i < n; i++) {
        try { E e = geti(i); if (e && flt(e)) idx.push_back(ordof(e)); } catch (...) { idx.push_back("!"); }
    }
    std::string o = "[";
    for (size_t i = 0; i < idx.size(); i++) { if (i) o += " "; o += idx[i]; }
    return "flt=" + a + " idx=" + o + "]";
}

// ---- containers ----
struct Cont {
    std::function<bool(const std::string &)> has, del;
    std::function<std::string(const std::string &)> get;
    std::function<std::string(size_t)> geti;
    std::function<size_t()> cnt;
    std::function<std::string()> ls;
    std::function<std::string(const FSpec &)> lsf;
    std::function<bool(int)> hash, delh;
    std::function<std::string(size_t, std::string &, std::string &, bool &)> geti_full;  // -> ordinal; name, id, has(handle)
    bool checked_index = true;
    bool named = true;
};

#define CONT_COMMON(RECV, Name, countFn, listFn, ARGFN, ETYPE, CHECKED) \
    c.has = [=](const std::string &k) { return RECV.has##Name(k); }; \
    c.del = [=](const std::string &k) mutable { return RECV.delete##Name(k); }; \
    c.get = [=](const std::string &k) { return ordof(RECV.get##Name(k)); }; \
    c.cnt = [=]() { return (size_t)RECV.countFn(); }; \
    c.geti = [=](size_t i) { \
        if ((CHECKED) != 1 && i >= (size_t)RECV.countFn()) { \
            if ((CHECKED) == 0) { try { (void)RECV.get##Name(i); } catch (...) {} } \
            throw nix::OutOfBounds("index past the end"); } \
        return ordof(RECV.get##Name(i)); }; \
    c.ls = [=]() { return ords(RECV.listFn()); }; \
    c.lsf = [=](const FSpec &f) { return filtered_answer<ETYPE>(f, [=](const std::function<bool(const ETYPE &)> &q) { return RECV.listFn(q); }, \
                                                                 (size_t)RECV.countFn(), [=](size_t i) { return RECV.get##Name(i); }); }; \
    c.hash = [=](int k) { return RECV.has##Name(ARGFN(k)); }; \
    c.delh = [=](int k) mutable { return RECV.delete##Name(ARGFN(k)); }; \
    c.geti_full = [=](size_t i, std::string &nm, std::string &id, bool &hh) { \
        ETYPE e = RECV.get##Name(i); if (!e) return std::string("-"); \
        id = e.id(); nm = name_of(e); hh = RECV.has##Name(e); return ord_str(id); }; \
    c.checked_index = (CHECKED) == 1;

template<typename E> static std::string name_of(const E &e) { return e.name(); }
template<> inline std::string name_of<nix::Feature>(const nix::Feature &) { return ""; }

static Cont container(const std::string &ptok, char K) {
    Cont c;
    if (ptok == "F") {
        if (K == 'B') { CONT_COMMON(file, Block, blockCount, blocks, argB, nix::Block, 1) return c; }
        if (K == 'S') { CONT_COMMON(file, Section, sectionCount, sections, argS, nix::Section, 1) return c; }
        refuse("driver::receiver");
    }
    int pk = (int)dec_int(ptok);
    if (!is_live(pk)) refuse("driver::receiver");
    H &h = hs[pk];
    switch (h.kind) {
    case 'S': {
        nix::Section s = h.s;
        if (K == 'S') { CONT_COMMON(s, Section, sectionCount, sections, argS, nix::Section, 1) return c; }
        if (K == 'P') { CONT_COMMON(s, Property, propertyCount, properties, argP, nix::Property, 0) return c; }
        break; }
    case 'B': {
        nix::Block b = h.b;
        if (K == 'A') { CONT_COMMON(b, DataArray, dataArrayCount, dataArrays, argA, nix::DataArray, 1) return c; }
        if (K == 'D') { CONT_COMMON(b, DataFrame, dataFrameCount, dataFrames, argD, nix::DataFrame, 1) return c; }
        if (K == 'T') { CONT_COMMON(b, Tag, tagCount, tags, argT, nix::Tag, 1) return c; }
        if (K == 'M') { CONT_COMMON(b, MultiTag, multiTagCount, multiTags, argM, nix::MultiTag, 1) return c; }
        if (K == 'G') { CONT_COMMON(b, Group, groupCount, groups, argG, nix::Group, 1) return c; }
        if (K == 'R') { CONT_COMMON(b, Source, sourceCount, sources, argR, nix::Source, 1) return c; }
        break; }
    case 'R': {
        nix::Source r = h.r;
        if (K == 'R') { CONT_COMMON(r, Source, sourceCount, sources, argR, nix::Source, 0) return c; }
        break; }
    case 'T': {
        nix::Tag t = h.t;
        if (K == 'X') { CONT_COMMON(t, Feature, featureCount, features, argX, nix::Feature, 1) c.named = false; return c; }
        break; }
    case 'M': {
        nix::MultiTag m = h.m;
        if (K == 'X') { CONT_COMMON(m, Feature, featureCount, features, argX, nix::Feature, 2 /* never called out of range: aborts (DESIGN.md #30) */) c.named = false; return c; }
        break; }
    }
    refuse("driver::receiver");
}

// ---- link containers ----
struct LCont {
    std::function<void(int)> add; std::function<void(const std::string &)> adds;
    std::function<std::string(int)> rm; std::function<std::string(const std::string &)> rms;
    std::function<bool(int)> has; std::function<bool(const std::string &)> hass;
    std::function<std::string(const std::string &)> get;
    std::function<std::string(size_t)> geti;
    std::function<size_t()> cnt;
    std::function<std::string()> ls;
    std::function<std::string(const FSpec &)> lsf;
    std::function<void(const std::vector<int> &)> set;
    std::function<std::string(size_t, std::string &, std::string &, bool &)> geti_full;
};

#define LREFS(RECV) \
    c.add = [=](int k) mutable { RECV.addReference(argA(k)); }; \
    c.adds = [=](const std::string &s) mutable { RECV.addReference(s); }; \
    c.rm = [=](int k) mutable { return b01(RECV.removeReference(argA(k))); }; \
    c.rms = [=](const std::string &s) mutable { return b01(RECV.removeReference(s)); }; \
    c.has = [=](int k) { return RECV.hasReference(argA(k)); }; \
    c.hass = [=](const std::string &s) { return RECV.hasReference(s); }; \
    c.get = [=](const std::string &s) { return ordof(RECV.getReference(s)); }; \
    c.geti = [=](size_t i) { return ordof(RECV.getReference(i)); }; \
    c.cnt = [=]() { return (size_t)RECV.referenceCount(); }; \
    c.ls = [=]() { return ords(RECV.references()); }; \
    c.lsf = [=](const FSpec &f) { return filtered_answer<nix::DataArray>(f, [=](const std::function<bool(const nix::DataArray &)> &q) { return RECV.references(q); }, \
                                                                          (size_t)RECV.referenceCount(), [=](size_t i) { return RECV.getReference(i); }); }; \
    c.set = [=](const std::vector<int> &v) mutable { std::vector<nix::DataArray> l; for (int k : v) l.push_back(argA(k)); RECV.references(l); }; \
    c.geti_full = [=](size_t i, std::string &nm, std::string &id, bool &hh) { \
        nix::DataArray e = RECV.getReference(i); if (!e) return std::string("-"); \
        id = e.id(); nm = e.name(); hh = RECV.hasReference(e); return ord_str(id); };

#define LSRCS(RECV) \
    c.add = [=](int k) mutable { RECV.addSource(argR(k)); }; \
    c.adds = [=](const std::string &s) mutable { RECV.addSource(s); }; \
    c.rm = [=](int k) mutable { RECV.removeSource(argR(k)); return std::string("-"); }; \
    c.rms = [=](const std::string &s) mutable { RECV.removeSource(s); return std::string("-"); }; \
    c.has = [=](int k) { return RECV.hasSource(argR(k)); }; \
    c.hass = [=](const std::string &s) { return RECV.hasSource(s); }; \
    c.get = [=](const std::string &s) { return ordof(RECV.getSource(s)); }; \
    c.geti = [=](size_t i) { \
        if (i >= (size_t)RECV.sourceCount()) { try { (void)RECV.getSource(i); } catch (...) {} throw nix::OutOfBounds("index past the end"); } \
        return ordof(RECV.getSource(i)); }; \
    c.cnt = [=]() { return (size_t)RECV.sourceCount(); }; \
    c.ls = [=]() { return ords(RECV.sources()); }; \
    c.lsf = [=](const FSpec &f) { return filtered_answer<nix::Source>(f, [=](const std::function<bool(const nix::Source &)> &q) { return RECV.sources(q); }, \
                                                                       (size_t)RECV.sourceCount(), [=](size_t i) { return RECV.getSource(i); }); }; \
    c.set = [=](const std::vector<int> &v) mutable { std::vector<nix::Source> l; for (int k : v) l.push_back(argR(k)); RECV.sources(l); }; \
    c.geti_full = [=](size_t i, std::string &nm, std::string &id, bool &hh) { \
        nix::Source e = RECV.getSource(i); if (!e) return std::string("-"); \
        id = e.id(); nm = e.name(); hh = RECV.hasSource(e); return ord_str(id); };

#define LGRP(Name, countFn, listFn, ARGFN, ETYPE) \
    c.add = [=](int k) mutable { g.add##Name(ARGFN(k)); }; \
    c.adds = [=](const std::string &s) mutable { g.add##Name(s); }; \
    c.rm = [=](int k) mutable { return b01(g.remove##Name(ARGFN(k))); }; \
    c.rms = [=](const std::string &s) mutable { return b01(g.remove##Name(s)); }; \
    c.has = [=](int k) { return g.has##Name(ARGFN(k)); }; \
    c.hass = [=](const std::string &s) { return g.has##Name(s); }; \
    c.get = [=](const std::string &s) { return ordof(g.get##Name(s)); }; \
    c.geti = [=](size_t i) { return ordof(g.get##Name(i)); }; \
    c.cnt = [=]() { return (size_t)g.countFn(); }; \
    c.ls = [=]() { return ords(g.listFn()); }; \
    c.lsf = [=](const FSpec &f) { return filtered_answer<ETYPE>(f, [=](const std::function<bool(const ETYPE &)> &q) { return g.listFn(q); }, \
                                                                 (size_t)g.countFn(), [=](size_t i) { return g.get##Name(i); }); }; \
    c.set = [=](const std::vector<int> &v) mutable { std::vector<ETYPE> l; for (int k : v) l.push_back(ARGFN(k)); g.listFn(l); }; \
    c.geti_full = [=](size_t i, std::string &nm, std::string &id, bool &hh) { \
        ETYPE e = g.get##Name(i); if (!e) return std::string("-"); \
        id = e.id(); nm = e.name(); hh = g.has##Name(e); return ord_str(id); };

static LCont lcontainer(int hk, const std::string &sl) {
    LCont c;
    if (!is_live(hk)) refuse("driver::receiver");
    H &h = hs[hk];
    if (sl == "ref") {
        if (h.kind == 'T') { nix::Tag t = h.t; LREFS(t) return c; }
        if (h.kind == 'M') { nix::MultiTag m = h.m; LREFS(m) return c; }
    } else if (sl == "src") {
        if (h.kind == 'A') { nix::DataArray holder_ = h.a; LSRCS(holder_) return c; }
        if (h.kind == 'D') { nix::DataFrame holder_ = h.d; LSRCS(holder_) return c; }
        if (h.kind == 'T') { nix::Tag holder_ = h.t; LSRCS(holder_) return c; }
        if (h.kind == 'M') { nix::MultiTag holder_ = h.m; LSRCS(holder_) return c; }
        if (h.kind == 'G') { nix::Group holder_ = h.g; LSRCS(holder_) return c; }
    } else if (h.kind == 'G') {
        nix::Group g = h.g;
        if (sl == "ga") { LGRP(DataArray, dataArrayCount, dataArrays, argA, nix::DataArray) return c; }
        if (sl == "gd") { LGRP(DataFrame, dataFrameCount, dataFrames, argD, nix::DataFrame) return c; }
        if (sl == "gt") { LGRP(Tag, tagCount, tags, argT, nix::Tag) return c; }
        if (sl == "gm") { LGRP(MultiTag, multiTagCount, multiTags, argM, nix::MultiTag) return c; }
    }
    refuse("driver::receiver");
}

// ---- the agreement line of a container (C03) ----
// for every index i below the count: the entity by index; then by its name, by its id, has by name / id / handle;
// then the enumeration; then, for every ordinal that was created in this container and is no longer alive,
// has by id and has by handle (must both be 0)
static std::string lst(const std::vector<std::string> &v) {
    std::string o = "[";
    for (size_t i = 0; i < v.size(); i++) { if (i) o += " "; o += v[i]; }
    return o + "]";
}
template<typename F> static std::string tryit(const F &f) { try { return f(); } catch (...) { return "!"; } }

static std::string chk(const std::string &ptok, char K) {
    Cont c = container(ptok, K);
    size_t n = c.cnt();
    std::vector<std::string> idx, byname, byid, hasn, hasi, hash;
    for (size_t i = 0; i < n; i++) {
        std::string nm, id; bool hh = false;
        std::string o = tryit([&]() { return c.geti_full(i, nm, id, hh); });
        idx.push_back(o);
        if (o == "-" || o == "!") { byname.push_back("!"); byid.push_back("!"); hasn.push_back("!"); hasi.push_back("!"); hash.push_back("!"); continue; }
        byid.push_back(tryit([&]() { return c.get(id); }));
        hasi.push_back(tryit([&]() { return b01(c.has(id)); }));
        hash.push_back(b01(hh));
        if (c.named) {
            byname.push_back(tryit([&]() { return c.get(nm); }));
            hasn.push_back(tryit([&]() { return b01(c.has(nm)); }));
        }
    }
    std::string out = "cnt=" + std::to_string(n) + " idx=" + lst(idx);
    if (c.named) out += " byname=" + lst(byname);
    out += " byid=" + lst(byid);
    if (c.named) out += " hasn=" + lst(hasn);
    out += " hasi=" + lst(hasi) + " hash=" + lst(hash) + " enum=" + tryit([&]() { return c.ls(); });
    int pk = ptok == "F" ? -1 : (int)dec_int(ptok);
    std::vector<std::string> gone;
    for (size_t k = 0; k < hs.size(); k++) {
        if (hs[k].bound && !hs[k].alive && hs[k].kind == K && hs[k].parent == pk) {
            gone.push_back(std::to_string(k) + ":" + tryit([&]() { return b01(c.has(hs[k].id)); }) + ":" +
                           tryit([&]() { return c.get(hs[k].id); }) + ":" + tryit([&]() { return b01(c.hash((int)k)); }));
        }
    }
    return out + " gone=" + lst(gone);
}

static std::string lchk(int hk, const std::string &sl) {
    LCont c = lcontainer(hk, sl);
    size_t n = c.cnt();
    std::vector<std::string> idx, byname, byid, hasn, hasi, hash;
    for (size_t i = 0; i < n; i++) {
        std::string nm, id; bool hh = false;
        std::string o = tryit([&]() { return c.geti_full(i, nm, id, hh); });
        idx.push_back(o);
        if (o == "-" || o == "!") { byname.push_back("!"); byid.push_back("!"); hasn.push_back("!"); hasi.push_back("!"); hash.push_back("!"); continue; }
        byname.push_back(tryit([&]() { return c.get(nm); }));
        byid.push_back(tryit([&]() { return c.get(id); }));
        hasn.push_back(tryit([&]() { return b01(c.hass(nm)); }));
        hasi.push_back(tryit([&]() { return b01(c.hass(id)); }));
        hash.push_back(b01(hh));
    }
    return "cnt=" + std::to_string(n) + " idx=" + lst(idx) + " byname=" + lst(byname) + " byid=" + lst(byid) +
           " hasn=" + lst(hasn) + " hasi=" + lst(hasi) + " hash=" + lst(hash) + " enum=" + tryit([&]() { return c.ls(); });
}

// ---- creation ----
static void bind_new(int k, const std::string &id) {
    hs[k].bound = true; hs[k].alive = true; hs[k].id = id;
    ord_of_id[id] = k;
}

static std::string do_mk(const std::vector<std::string> &t) {
    int k = (int)hs.size();
    hs.push_back(H());
    const std::string &ptok = t.at(1);
    char K = t.at(2).at(0);
    hs[k].kind = K;
    hs[k].parent = ptok == "F" ? -1 : (int)dec_int(ptok);
    std::string name = dec_sarg(t.at(3));
    hs[k].name = name;
    std::string type = dec_sarg(t.at(4));
    if (ptok == "F") {
        if (K == 'B') { hs[k].b = file.createBlock(name, type); bind_new(k, hs[k].b.id()); }
        else if (K == 'S') { hs[k].s = file.createSection(name, type); bind_new(k, hs[k].s.id()); }
        else refuse("driver::receiver");
        return std::to_string(k);
    }
    int pk = hs[k].parent;
    if (!is_live(pk)) refuse("driver::receiver");
    char P = hs[pk].kind;
    if (P == 'S' && K == 'S') { hs[k].s = hs[pk].s.createSection(name, type); bind_new(k, hs[k].s.id()); }
    else if (P == 'S' && K == 'P') {
        if (t.at(5) == "t") hs[k].p = hs[pk].s.createProperty(name, dec_dtype(t.at(6)));
        else {
            size_t n = (size_t)dec_u64(t.at(6));
            std::vector<nix::Variant> vs;
            for (size_t i = 0; i < n; i++) vs.push_back(sample_value(dec_dtype(t.at(7 + i))));
            hs[k].p = hs[pk].s.createProperty(name, vs);
        }
        bind_new(k, hs[k].p.id());
    }
    else if (P == 'B' && K == 'A' && t.at(5) == "from") {
        // the header template Block::createDataArray(name, type, data, data_type): shape and (default) type from the data
        nix::DataType mt = dec_dtype(t.at(6));
        size_t n = (size_t)dec_u64(t.at(7));
        nix::DataType dt = t.at(8) == "-" ? nix::DataType::Nothing : dec_dtype(t.at(8));
        switch (mt) {
        case nix::DataType::Double: hs[k].a = hs[pk].b.createDataArray(name, type, std::vector<double>(n, 1.5), dt); break;
        case nix::DataType::Float: hs[k].a = hs[pk].b.createDataArray(name, type, std::vector<float>(n, 1.5f), dt); break;
        case nix::DataType::Int32: hs[k].a = hs[pk].b.createDataArray(name, type, std::vector<int32_t>(n, 3), dt); break;
        case nix::DataType::Int64: hs[k].a = hs[pk].b.createDataArray(name, type, std::vector<int64_t>(n, 3), dt); break;
        case nix::DataType::UInt8: hs[k].a = hs[pk].b.createDataArray(name, type, std::vector<uint8_t>(n, 3), dt); break;
        case nix::DataType::String: hs[k].a = hs[pk].b.createDataArray(name, type, std::vector<std::string>(n, "x"), dt); break;
        default: throw std::logic_error("mk A from: memory type");
        }
        bind_new(k, hs[k].a.id());
    }
    else if (P == 'B' && K == 'A') {
        nix::DataType dt = dec_dtype(t.at(5));
        size_t rank = (size_t)dec_u64(t.at(6));
        std::vector<nix::ndsize_t> dims;
        for (size_t i = 0; i < rank; i++) dims.push_back(dec_u64(t.at(7 + i)));
        // NDSize(vector) of an empty vector leaves its pointer uninitialised (bad free): use the default constructor
        if (t.back() == "z" && t.size() == 8 + rank)       // the explicit compression argument
            hs[k].a = hs[pk].b.createDataArray(name, type, dt, rank == 0 ? nix::NDSize() : nix::NDSize(dims), nix::Compression::DeflateNormal);
        else
        hs[k].a = hs[pk].b.createDataArray(name, type, dt, rank == 0 ? nix::NDSize() : nix::NDSize(dims));
        bind_new(k, hs[k].a.id());
    }
    else if (P == 'B' && K == 'D') {
        size_t n = (size_t)dec_u64(t.at(5));
        std::vector<nix::Column> cols;
        for (size_t i = 0; i < n; i++) {
            nix::Column c; c.name = dec_str(t.at(6 + 3 * i)); c.dtype = dec_dtype(t.at(7 + 3 * i)); c.unit = dec_str(t.at(8 + 3 * i));
            cols.push_back(c);
        }
        if (t.back() == "z" && t.size() == 7 + 3 * n)
            hs[k].d = hs[pk].b.createDataFrame(name, type, cols, n % 2 ? nix::Compression::DeflateNormal : nix::Compression::None);
        else
        hs[k].d = hs[pk].b.createDataFrame(name, type, cols);
        bind_new(k, hs[k].d.id());
    }
    else if (P == 'B' && K == 'T') {
        size_t n = (size_t)dec_u64(t.at(5));
        std::vector<double> pos;
        for (size_t i = 0; i < n; i++) pos.push_back(dec_dbl(t.at(6 + i)));
        hs[k].t = hs[pk].b.createTag(name, type, pos);
        bind_new(k, hs[k].t.id());
    }
    else if (P == 'B' && K == 'M') { hs[k].m = hs[pk].b.createMultiTag(name, type, argA(dec_ref(t.at(5)))); bind_new(k, hs[k].m.id()); }
    else if (P == 'B' && K == 'G') { hs[k].g = hs[pk].b.createGroup(name, type); bind_new(k, hs[k].g.id()); }
    else if (P == 'B' && K == 'R') { hs[k].r = hs[pk].b.createSource(name, type); bind_new(k, hs[k].r.id()); }
    else if (P == 'R' && K == 'R') { hs[k].r = hs[pk].r.createSource(name, type); bind_new(k, hs[k].r.id()); }
    else if ((P == 'T' || P == 'M') && K == 'X') {
        nix::LinkType lt = dec_lt(t.at(7));
        if (t.at(5) == "h") {
            nix::DataArray a = argA(dec_ref(t.at(6)));
            hs[k].x = P == 'T' ? hs[pk].t.createFeature(a, lt) : hs[pk].m.createFeature(a, lt);
        } else {
            std::string s = dec_sarg(t.at(6));
            hs[k].x = P == 'T' ? hs[pk].t.createFeature(s, lt) : hs[pk].m.createFeature(s, lt);
        }
        bind_new(k, hs[k].x.id());
    }
    else refuse("driver::receiver");
    return std::to_string(k);
}

// ---- writes of data the model does not carry ----
static unsigned lcg(unsigned &s) { s = s * 1664525u + 1013904223u; return s >> 8; }

static void write_array(nix::DataArray &a, unsigned seed) {
    nix::NDSize ext = a.dataExtent();
    size_t n = nelms(ext);
    if (n == 0) return;
    nix::NDSize off(ext.size(), 0);
    nix::DataType dt = a.dataType();
    if (dt == nix::DataType::String) {
        std::vector<std::string> v(n);
        for (auto &x : v) x = "s" + std::to_string(lcg(seed) % 1000);
        a.setDataDirect(nix::DataType::String, v.data(), ext, off);
    } else if (dt == nix::DataType::Bool) {
        std::unique_ptr<bool[]> v(new bool[n]);
        for (size_t i = 0; i < n; i++) v[i] = (lcg(seed) & 1) != 0;
        a.setDataDirect(nix::DataType::Bool, v.get(), ext, off);
    } else {
        std::vector<int32_t> v(n);
        for (auto &x : v) x = (int32_t)(lcg(seed) % 100);
        a.setDataDirect(nix::DataType::Int32, v.data(), ext, off);
    }
}

static void write_row(nix::DataFrame &d, nix::ndsize_t row, unsigned seed) {
    std::vector<nix::Variant> vs;
    for (auto &col : d.columns()) {
        unsigned r = lcg(seed) % 100;
        switch (col.dtype) {
        case nix::DataType::Bool: vs.push_back(nix::Variant((r & 1) != 0)); break;
        case nix::DataType::Int32: vs.push_back(nix::Variant(int32_t(r))); break;
        case nix::DataType::UInt32: vs.push_back(nix::Variant(uint32_t(r))); break;
        case nix::DataType::Int64: vs.push_back(nix::Variant(int64_t(r))); break;
        case nix::DataType::UInt64: vs.push_back(nix::Variant(uint64_t(r))); break;
        case nix::DataType::Double: vs.push_back(nix::Variant(double(r) / 4.0)); break;
        case nix::DataType::String: vs.push_back(nix::Variant("v" + std::to_string(r))); break;
        default: throw std::logic_error("column type");
        }
    }
    d.writeRow(row, vs);
}

// well-formed values for the fields of descriptor i (1-based); nothing happens when there is no such descriptor
static void set_dim_fields(nix::DataArray &a, size_t i, unsigned seed) {
    if (i < 1 || i > (size_t)a.dimensionCount()) return;
    nix::Dimension d = a.getDimension(i);
    unsigned r = lcg(seed);
    switch (d.dimensionType()) {
    case nix::DimensionType::Set: { nix::SetDimension x; x = d; x.labels({"a" + std::to_string(r % 10), "b", "c"}); if (r & 16) x.label("set-label"); break; }
    case nix::DimensionType::Sample: { nix::SampledDimension x; x = d;
        // the order of the two numeric writes depends on the seed: on a read-only file the FIRST one is the refused one
        if (r & 32) { x.offset(double(r % 5) - 2.0); x.samplingInterval(0.25 * (1 + r % 7)); }
        else { x.samplingInterval(0.25 * (1 + r % 7)); x.offset(double(r % 5) - 2.0); }
        x.label("time"); x.unit((r & 16) ? "ms" : "s"); break; }
    case nix::DimensionType::Range: { nix::RangeDimension x; x = d; if (!x.alias()) { x.ticks({0.5, 1.0 + (r % 3), 10.0}); x.label("ticks"); x.unit("mV"); } break; }
    default: break;
    }
}

static FSpec dec_fspec(const std::vector<std::string> &t, size_t i) {
    FSpec f; f.kind = t.at(i);
    if (f.kind == "meta" || f.kind == "src") { int k = dec_ref(t.at(i + 1)); f.s = is_bound(k) ? hs[k].id : std::string(NOID); }
    else f.s = dec_sarg(t.at(i + 1));
    return f;
}

// ---- setters ----
#define WITH_META(H_, CALL) \
    switch (H_.kind) { \
    case 'B': H_.b.CALL; break; case 'R': H_.r.CALL; break; case 'A': H_.a.CALL; break; case 'D': H_.d.CALL; break; \
    case 'T': H_.t.CALL; break; case 'M': H_.m.CALL; break; case 'G': H_.g.CALL; break; default: refuse("driver::receiver"); }
#define WITH_NAMED(H_, CALL) \
    switch (H_.kind) { \
    case 'B': H_.b.CALL; break; case 'S': H_.s.CALL; break; case 'R': H_.r.CALL; break; case 'A': H_.a.CALL; break; case 'D': H_.d.CALL; break; \
    case 'T': H_.t.CALL; break; case 'M': H_.m.CALL; break; case 'G': H_.g.CALL; break; default: refuse("driver::receiver"); }

static std::string do_line(const std::vector<std::string> &t, bool &maybe_deleted) {
    const std::string &c = t[0];
    if (c == "mk") return do_mk(t);
    if (c == "del") { Cont k = container(t.at(1), t.at(2).at(0)); bool r = k.del(dec_sarg(t.at(3))); maybe_deleted = r; return b01(r); }
    if (c == "delh") { Cont k = container(t.at(1), t.at(2).at(0)); bool r = k.delh(dec_ref(t.at(3))); maybe_deleted = r; return b01(r); }
    if (c == "has") { Cont k = container(t.at(1), t.at(2).at(0)); return b01(k.has(dec_sarg(t.at(3)))); }
    if (c == "hash") { Cont k = container(t.at(1), t.at(2).at(0)); return b01(k.hash(dec_ref(t.at(3)))); }
    if (c == "get") { Cont k = container(t.at(1), t.at(2).at(0)); return k.get(dec_sarg(t.at(3))); }
    if (c == "geti") { Cont k = container(t.at(1), t.at(2).at(0)); return k.geti((size_t)dec_u64(t.at(3))); }
    if (c == "cnt") { Cont k = container(t.at(1), t.at(2).at(0)); return std::to_string(k.cnt()); }
    if (c == "ls") { Cont k = container(t.at(1), t.at(2).at(0)); return k.ls(); }
    if (c == "chk") return chk(t.at(1), t.at(2).at(0));
    if (c == "lsf") { Cont k = container(t.at(1), t.at(2).at(0)); return k.lsf(dec_fspec(t, 3)); }
    if (c == "llsf") { LCont k = lcontainer((int)dec_int(t.at(1)), t.at(2)); return k.lsf(dec_fspec(t, 3)); }
    if (c == "dimsf") {
        H &h = recv((int)dec_int(t.at(1)), "A");
        const std::string want = t.at(2);
        auto kind_of = [](const nix::Dimension &d) -> std::string {
            switch (d.dimensionType()) {
            case nix::DimensionType::Set: return "set"; case nix::DimensionType::Sample: return "sampled";
            case nix::DimensionType::Range: { nix::RangeDimension r; r = d; return r.alias() ? "alias" : "range"; }
            case nix::DimensionType::DataFrame: return "frame"; }
            return "?"; };
        std::vector<nix::Dimension> ds = h.a.dimensions([&](const nix::Dimension &d) { return kind_of(d) == want; });
        std::string o = "[";
        for (size_t i = 0; i < ds.size(); i++) { if (i) o += " "; o += std::to_string(ds[i].index()) + ":" + kind_of(ds[i]); }
        // the same through getDimension(i), i = 1 .. dimensionCount()
        std::string o2 = "[";
        size_t n = (size_t)h.a.dimensionCount(), m = 0;
        for (size_t i = 1; i <= n; i++) { nix::Dimension d = h.a.getDimension(i); if (kind_of(d) == want) { if (m++) o2 += " "; o2 += std::to_string(i) + ":" + kind_of(d); } }
        return "flt=" + o + "] idx=" + o2 + "]";
    }
    if (c == "posq") {
        H &h = recv((int)dec_int(t.at(1)), "M");
        std::string np; try { np = enc_u64(h.m.positionCount()); } catch (...) { np = "!"; }
        return "hp=" + b01(h.m.hasPositions()) + " np=" + np;
    }
    if (c == "colq") {
        H &h = recv((int)dec_int(t.at(1)), "D");
        // colIndex(vector<string>) for the given names, colName(vector<unsigned>) for the given indices; an unknown one: the call throws
        size_t nn = (size_t)dec_u64(t.at(2));
        std::vector<std::string> names; for (size_t i = 0; i < nn; i++) names.push_back(dec_str(t.at(3 + i)));
        size_t ni = (size_t)dec_u64(t.at(3 + nn));
        std::vector<unsigned> idx; for (size_t i = 0; i < ni; i++) idx.push_back((unsigned)dec_u64(t.at(4 + nn + i)));
        std::string a, b;
        try { std::vector<unsigned> r = h.d.colIndex(names); a = "["; for (size_t i = 0; i < r.size(); i++) { if (i) a += " "; a += std::to_string(r[i]); } a += "]"; } catch (...) { a = "!"; }
        try { b = strs(h.d.colName(idx)); } catch (...) { b = "!"; }
        return "ci=" + a + " cn=" + b;
    }
    if (c == "setlt") { H &h = recv((int)dec_int(t.at(1)), "X"); h.x.linkType(dec_lt(t.at(2))); return "-"; }
    if (c == "touchupd") {
        H &h = recv((int)dec_int(t.at(1)), "BSRADTMGPX");
        bool force = t.at(2) == "force";
#define UPD(E) do { if (force) E.forceUpdatedAt(); else E.setUpdatedAt(); (void)E.updatedAt(); } while (0)
        switch (h.kind) {
        case 'B': UPD(h.b); break; case 'S': UPD(h.s); break; case 'R': UPD(h.r); break; case 'A': UPD(h.a); break; case 'D': UPD(h.d); break;
        case 'T': UPD(h.t); break; case 'M': UPD(h.m); break; case 'G': UPD(h.g); break; case 'P': UPD(h.p); break; case 'X': UPD(h.x); break; }
#undef UPD
        return "-";
    }
    if (c == "wrowbad") {
        // a DataFrame write that has to be refused: a row past the end, a string into a numeric column (or a number into a
        // string column), more values than columns
        H &h = recv((int)dec_int(t.at(1)), "D");
        nix::ndsize_t row = dec_u64(t.at(2));
        const std::string &how = t.at(3);
        std::vector<nix::Variant> vs;
        std::vector<nix::Column> cols = h.d.columns();
        for (auto &col : cols) vs.push_back(col.dtype == nix::DataType::String ? nix::Variant(std::string("v")) : sample_value(col.dtype));
        if (how == "type") { if (cols[0].dtype == nix::DataType::String) vs[0] = nix::Variant(1.5); else vs[0] = nix::Variant(std::string("no number")); }
        else if (how == "many") vs.push_back(nix::Variant(int32_t(1)));
        // more values than columns: the library builds a std::string from a null column name (std::logic_error), which this
        // interpreter otherwise reserves for malformed script lines
        try { h.d.writeRow(row, vs); } catch (const std::logic_error &e) { if (classify() == "std::logic_error") throw std::runtime_error(e.what()); throw; }
        return "-";
    }
    if (c[0] == 'l' && c != "ls") {
        int hk = (int)dec_int(t.at(1));
        const std::string &sl = t.at(2);
        if (c == "lchk") return lchk(hk, sl);
        LCont k = lcontainer(hk, sl);
        if (c == "ladd") { k.add(dec_ref(t.at(3))); return "-"; }
        if (c == "ladds") { k.adds(dec_sarg(t.at(3))); return "-"; }
        if (c == "lrm") return k.rm(dec_ref(t.at(3)));
        if (c == "lrms") return k.rms(dec_sarg(t.at(3)));
        if (c == "lhas") return b01(k.has(dec_ref(t.at(3))));
        if (c == "lhass") return b01(k.hass(dec_sarg(t.at(3))));
        if (c == "lget") return k.get(dec_sarg(t.at(3)));
        if (c == "lgeti") return k.geti((size_t)dec_u64(t.at(3)));
        if (c == "lcnt") return std::to_string(k.cnt());
        if (c == "lls") return k.ls();
        if (c == "lset") {
            size_t n = (size_t)dec_u64(t.at(3));
            std::vector<int> v;
            for (size_t i = 0; i < n; i++) v.push_back(dec_ref(t.at(4 + i)));
            k.set(v);
            return "-";
        }
        throw std::logic_error("bad command " + c);
    }
    if (c == "settype") { H &h = recv((int)dec_int(t.at(1)), "BSRADTMG"); std::string s = dec_sarg(t.at(2)); WITH_NAMED(h, type(s)) return "-"; }
    if (c == "setdef") {
        H &h = recv((int)dec_int(t.at(1)), "BSRADTMGP");
        if (t.at(2) == "-") { if (h.kind == 'P') h.p.definition(nix::none); else { WITH_NAMED(h, definition(nix::none)) } }
        else { std::string s = dec_sarg(t.at(2)); if (h.kind == 'P') h.p.definition(s); else { WITH_NAMED(h, definition(s)) } }
        return "-";
    }
    if (c == "setmeta" && t.at(2) == "none") { H &h = recv((int)dec_int(t.at(1)), "BRADTMG"); WITH_META(h, metadata(nix::none)) return "-"; }   // the none_t overload
    if (c == "setmeta") { H &h = recv((int)dec_int(t.at(1)), "BRADTMG"); nix::Section s = argS(dec_ref(t.at(2))); WITH_META(h, metadata(s)) return "-"; }
    if (c == "setmetas") { H &h = recv((int)dec_int(t.at(1)), "BRADTMG"); std::string s = dec_sarg(t.at(2)); WITH_META(h, metadata(s)) return "-"; }
    if (c == "setlink" && t.at(2) == "none") { H &h = recv((int)dec_int(t.at(1)), "S"); h.s.link(nix::none); return "-"; }
    if (c == "setlink") { H &h = recv((int)dec_int(t.at(1)), "S"); h.s.link(argS(dec_ref(t.at(2)))); return "-"; }
    if (c == "setlinks") { H &h = recv((int)dec_int(t.at(1)), "S"); h.s.link(dec_sarg(t.at(2))); return "-"; }
    if (c == "setpos") { H &h = recv((int)dec_int(t.at(1)), "M"); h.m.positions(argA(dec_ref(t.at(2)))); return "-"; }
    if (c == "setposs") { H &h = recv((int)dec_int(t.at(1)), "M"); h.m.positions(dec_sarg(t.at(2))); return "-"; }
    if (c == "setext" && t.at(2) == "none") { H &h = recv((int)dec_int(t.at(1)), "M"); h.m.extents(nix::none); return "-"; }
    if (c == "setext") { H &h = recv((int)dec_int(t.at(1)), "M"); h.m.extents(argA(dec_ref(t.at(2)))); return "-"; }
    if (c == "setexts") { H &h = recv((int)dec_int(t.at(1)), "M"); h.m.extents(dec_sarg(t.at(2))); return "-"; }
    if (c == "setdata") { H &h = recv((int)dec_int(t.at(1)), "X"); h.x.data(argA(dec_ref(t.at(2)))); return "-"; }
    if (c == "setdatas") { H &h = recv((int)dec_int(t.at(1)), "X"); h.x.data(dec_sarg(t.at(2))); return "-"; }
    if (c == "setunits") {
        H &h = recv((int)dec_int(t.at(1)), "TM");
        if (t.at(2) == "-") { if (h.kind == 'T') h.t.units(nix::none); else h.m.units(nix::none); return "-"; }
        size_t n = (size_t)dec_u64(t.at(2));
        std::vector<std::string> us;
        for (size_t i = 0; i < n; i++) us.push_back(dec_str(t.at(3 + i)));
        if (h.kind == 'T') h.t.units(us); else h.m.units(us);
        return "-";
    }
    if (c == "setextent") {
        H &h = recv((int)dec_int(t.at(1)), "A");
        size_t rank = (size_t)dec_u64(t.at(2));
        std::vector<nix::ndsize_t> dims;
        for (size_t i = 0; i < rank; i++) dims.push_back(dec_u64(t.at(3 + i)));
        h.a.dataExtent(rank == 0 ? nix::NDSize() : nix::NDSize(dims));
        return "-";
    }
    if (c == "setvals") {
        H &h = recv((int)dec_int(t.at(1)), "P");
        size_t n = (size_t)dec_u64(t.at(2));
        std::vector<nix::Variant> vs;
        for (size_t i = 0; i < n; i++) vs.push_back(sample_value(dec_dtype(t.at(3 + i))));
        h.p.values(vs);
        return "-";
    }
    if (c == "settpos") {
        H &h = recv((int)dec_int(t.at(1)), "T");
        size_t n = (size_t)dec_u64(t.at(2));
        std::vector<double> v;
        for (size_t i = 0; i < n; i++) v.push_back(dec_dbl(t.at(3 + i)));
        h.t.position(v);
        return "-";
    }
    if (c == "settext") {
        H &h = recv((int)dec_int(t.at(1)), "T");
        if (t.at(2) == "-") { h.t.extent(nix::none); return "-"; }
        size_t n = (size_t)dec_u64(t.at(2));
        std::vector<double> v;
        for (size_t i = 0; i < n; i++) v.push_back(dec_dbl(t.at(3 + i)));
        h.t.extent(v);
        return "-";
    }
    if (c == "dim") {
        H &h = recv((int)dec_int(t.at(1)), "A");
        const std::string &k = t.at(2);
        if (k == "set") h.a.appendSetDimension({"l1", "l2"});
        else if (k == "range") h.a.appendRangeDimension({1.0, 2.5, 4.0});
        else if (k == "sampled") h.a.appendSampledDimension(0.5);
        else if (k == "alias") h.a.appendAliasRangeDimension();
        else if (k == "frame" && t.size() > 4) h.a.appendDataFrameDimension(argD(dec_ref(t.at(3))), (unsigned)dec_u64(t.at(4)));
        else if (k == "frame") h.a.appendDataFrameDimension(argD(dec_ref(t.at(3))));
        else throw std::logic_error("bad dimension kind " + k);
        return "-";
    }
    if (c == "deldims") { H &h = recv((int)dec_int(t.at(1)), "A"); return b01(h.a.deleteDimensions()); }
    if (c == "frows") { H &h = recv((int)dec_int(t.at(1)), "D"); h.d.rows(dec_u64(t.at(2))); return "-"; }
    // ---- writes outside the model ----
    if (c == "setlabel") { H &h = recv((int)dec_int(t.at(1)), "A"); if (t.at(2) == "-") h.a.label(nix::none); else h.a.label(dec_sarg(t.at(2))); return "-"; }
    if (c == "setunit") { H &h = recv((int)dec_int(t.at(1)), "A"); if (t.at(2) == "-") h.a.unit(nix::none); else h.a.unit(dec_sarg(t.at(2))); return "-"; }
    if (c == "setorigin") { H &h = recv((int)dec_int(t.at(1)), "A"); if (t.at(2) == "-") h.a.expansionOrigin(nix::none); else h.a.expansionOrigin(dec_dbl(t.at(2))); return "-"; }
    if (c == "setpoly") {
        H &h = recv((int)dec_int(t.at(1)), "A");
        size_t n = (size_t)dec_u64(t.at(2));
        std::vector<double> v;
        for (size_t i = 0; i < n; i++) v.push_back(dec_dbl(t.at(3 + i)));
        h.a.polynomCoefficients(v);
        return "-";
    }
    if (c == "wdata") { H &h = recv((int)dec_int(t.at(1)), "A"); write_array(h.a, (unsigned)dec_u64(t.at(2))); return "-"; }
    if (c == "wrow") { H &h = recv((int)dec_int(t.at(1)), "D"); write_row(h.d, dec_u64(t.at(2)), (unsigned)dec_u64(t.at(3))); return "-"; }
    if (c == "punit") { H &h = recv((int)dec_int(t.at(1)), "P"); if (t.at(2) == "-") h.p.unit(nix::none); else h.p.unit(dec_sarg(t.at(2))); return "-"; }
    if (c == "puncert") { H &h = recv((int)dec_int(t.at(1)), "P"); if (t.at(2) == "-") h.p.uncertainty(nix::none); else h.p.uncertainty(dec_dbl(t.at(2))); return "-"; }
    if (c == "setrepo") { H &h = recv((int)dec_int(t.at(1)), "S"); if (t.at(2) == "-") h.s.repository(nix::none); else h.s.repository(dec_sarg(t.at(2))); return "-"; }
    if (c == "dimset") { H &h = recv((int)dec_int(t.at(1)), "A"); set_dim_fields(h.a, (size_t)dec_u64(t.at(2)), (unsigned)dec_u64(t.at(3))); return "-"; }
    if (c == "forcecreated") {
        time_t tm = (time_t)dec_u64(t.at(2));
        if (t.at(1) == "F") { file.forceCreatedAt(tm); return "-"; }
        H &h = recv((int)dec_int(t.at(1)), "BSRADTMGPX");
        switch (h.kind) {
        case 'B': h.b.forceCreatedAt(tm); break; case 'S': h.s.forceCreatedAt(tm); break; case 'R': h.r.forceCreatedAt(tm); break;
        case 'A': h.a.forceCreatedAt(tm); break; case 'D': h.d.forceCreatedAt(tm); break; case 'T': h.t.forceCreatedAt(tm); break;
        case 'M': h.m.forceCreatedAt(tm); break; case 'G': h.g.forceCreatedAt(tm); break; case 'P': h.p.forceCreatedAt(tm); break;
        case 'X': h.x.forceCreatedAt(tm); break; }
        return "-";
    }
    if (c == "sdata") {
        H &h = recv((int)dec_int(t.at(1)), "A");
        nix::DataType mt = dec_dtype(t.at(2));
        size_t n = (size_t)dec_u64(t.at(3));
        switch (mt) {
        case nix::DataType::Double: h.a.setData(std::vector<double>(n, 1.5)); break;
        case nix::DataType::Float: h.a.setData(std::vector<float>(n, 1.5f)); break;
        case nix::DataType::Int32: h.a.setData(std::vector<int32_t>(n, 3)); break;
        case nix::DataType::Int64: h.a.setData(std::vector<int64_t>(n, 3)); break;
        case nix::DataType::UInt8: h.a.setData(std::vector<uint8_t>(n, 3)); break;
        case nix::DataType::String: h.a.setData(std::vector<std::string>(n, "x")); break;
        default: throw std::logic_error("sdata: memory type");
        }
        return "-";
    }
    if (c == "adata") {
        H &h = recv((int)dec_int(t.at(1)), "A");
        nix::DataType mt = dec_dtype(t.at(2));
        size_t axis = (size_t)dec_u64(t.at(3));
        size_t rank = (size_t)dec_u64(t.at(4));
        std::vector<nix::ndsize_t> cnt;
        size_t n = 1;
        for (size_t i = 0; i < rank; i++) { cnt.push_back(dec_u64(t.at(5 + i))); n *= (size_t)cnt.back(); }
        nix::NDSize count = rank == 0 ? nix::NDSize() : nix::NDSize(cnt);
        if (mt == nix::DataType::String) { std::vector<std::string> v(n + 1, "x"); h.a.appendData(mt, v.data(), count, axis); }
        else if (mt == nix::DataType::Bool) { std::unique_ptr<bool[]> v(new bool[n + 1]); for (size_t i = 0; i <= n; i++) v[i] = true; h.a.appendData(mt, v.get(), count, axis); }
        else if (mt == nix::DataType::Double) { std::vector<double> v(n + 1, 1.5); h.a.appendData(mt, v.data(), count, axis); }
        else if (mt == nix::DataType::Int32) { std::vector<int32_t> v(n + 1, 3); h.a.appendData(mt, v.data(), count, axis); }
        else throw std::logic_error("adata: memory type");
        return "-";
    }
    if (c == "flush") return b01(file.flush());
    throw std::logic_error("bad command " + c);
}

// ---- the delete report (C04): judged on the implementation's own dumps ----
static std::vector<std::string> split_fields(const std::string &line) {      // by blanks outside brackets
    std::vector<std::string> out; std::string cur; int depth = 0;
    for (char ch : line) {
        if (ch == '[') depth++;
        if (ch == ']') depth--;
        if (ch == ' ' && depth == 0) { if (!cur.empty()) out.push_back(cur); cur.clear(); }
        else cur.push_back(ch);
    }
    if (!cur.empty()) out.push_back(cur);
    return out;
}
static std::vector<std::string> split_bar(const std::string &dump) {
    std::vector<std::string> out; size_t i = 0;
    for (;;) { size_t j = dump.find(" | ", i); if (j == std::string::npos) { out.push_back(dump.substr(i)); break; } out.push_back(dump.substr(i, j - i)); i = j + 3; }
    return out;
}
static bool is_num(const std::string &s) { return !s.empty() && std::all_of(s.begin(), s.end(), [](char c) { return c >= '0' && c <= '9'; }); }
// 1 = list of ordinals, 2 = one ordinal, 3 = dimension descriptors, 0 = no reference
static int ref_class(char K, const std::string &label) {
    static const std::set<std::string> lists = {"B", "S", "P", "A", "D", "T", "M", "G", "R", "X", "refs", "src", "ga", "gd", "gt", "gm"};
    if (lists.count(label)) return 1;
    if (label == "meta" || label == "link" || label == "data") return 2;
    if (K == 'M' && (label == "pos" || label == "ext")) return 2;
    if (label == "dims") return 3;
    return 0;
}
static std::vector<std::string> list_items(const std::string &v) {      // "[a b c]" -> a b c
    std::vector<std::string> out;
    if (v.size() < 2 || v.front() != '[') return out;
    return split(v.substr(1, v.size() - 2));
}
// every "<holder>.<label>:<target>" with a target in `dead`
static std::vector<std::string> dangling_in(const std::string &dump, const std::set<int> &dead) {
    std::vector<std::string> out;
    for (auto &ln : split_bar(dump)) {
        std::vector<std::string> fs = split_fields(ln);
        if (fs.empty()) continue;
        char K = fs[0][0];
        for (size_t i = 1; i < fs.size(); i++) {
            size_t eq = fs[i].find('=');
            if (eq == std::string::npos) continue;
            std::string label = fs[i].substr(0, eq), v = fs[i].substr(eq + 1);
            int rc = ref_class(K, label);
            std::vector<std::string> items;
            if (rc == 1) items = list_items(v);
            else if (rc == 2) items.push_back(v);
            else if (rc == 3) { for (auto &x : list_items(v)) if (x.compare(0, 6, "frame:") == 0) items.push_back(x.substr(6)); }
            for (auto &x : items) if (is_num(x) && dead.count(std::stoi(x))) out.push_back(fs[0] + "." + label + ":" + x);
        }
    }
    return out;
}
// the dump without the lines of `dead` and with their ordinals erased from every reference
static std::string scrub_dump(const std::string &dump, const std::set<int> &dead) {
    std::string out;
    bool first = true;
    for (auto &ln : split_bar(dump)) {
        std::vector<std::string> fs = split_fields(ln);
        if (fs.empty()) continue;
        char K = fs[0][0];
        if (K != 'F' || fs[0].size() > 1) { std::string o = fs[0].substr(1); if (is_num(o) && dead.count(std::stoi(o))) continue; }
        std::string l = fs[0];
        for (size_t i = 1; i < fs.size(); i++) {
            size_t eq = fs[i].find('=');
            std::string label = eq == std::string::npos ? fs[i] : fs[i].substr(0, eq), v = eq == std::string::npos ? "" : fs[i].substr(eq + 1);
            int rc = eq == std::string::npos ? 0 : ref_class(K, label);
            auto gone = [&](const std::string &x) { return is_num(x) && dead.count(std::stoi(x)) > 0; };
            if (rc == 1) { std::vector<std::string> keep; for (auto &x : list_items(v)) if (!gone(x)) keep.push_back(x); v = lst(keep); }
            else if (rc == 2) { if (gone(v)) v = "-"; }
            else if (rc == 3) { std::vector<std::string> ds; for (auto &x : list_items(v)) ds.push_back(x.compare(0, 6, "frame:") == 0 && gone(x.substr(6)) ? "frame:-" : x); v = lst(ds); }
            l += " " + (eq == std::string::npos ? fs[i] : label + "=" + v);
        }
        out += (first ? "" : " | ") + l;
        first = false;
    }
    return out;
}
static std::string valid_of(H &h) {
    try {
        switch (h.kind) {
        case 'B': return b01(h.b.isValidEntity()); case 'S': return b01(h.s.isValidEntity()); case 'P': return b01(h.p.isValidEntity());
        case 'A': return b01(h.a.isValidEntity()); case 'D': return b01(h.d.isValidEntity()); case 'T': return b01(h.t.isValidEntity());
        case 'M': return b01(h.m.isValidEntity()); case 'G': return b01(h.g.isValidEntity()); case 'R': return b01(h.r.isValidEntity());
        case 'X': return b01(h.x.isValidEntity());
        }
    } catch (...) { return "!"; }
    return "?";
}
// dead = the ordinals this call removed; dang = links (of any kind) the dump still shows to a removed ordinal;
// zv = removed ordinals whose handle still says isValidEntity(); frame = the dump afterwards is the dump before without them
static std::string delete_report(const std::string &before, const std::string &after, const std::vector<bool> &was_alive) {
    std::set<int> now_dead, all_dead;
    std::vector<std::string> dead_l, zv;
    for (size_t k = 0; k < hs.size(); k++) {
        if (!hs[k].bound || hs[k].alive) continue;
        all_dead.insert((int)k);
        if (k < was_alive.size() && was_alive[k]) { now_dead.insert((int)k); dead_l.push_back(std::to_string(k)); }
        std::string v = valid_of(hs[k]);
        if (v != "0") zv.push_back(std::to_string(k) + (v == "1" ? "" : v));
    }
    return " dead=" + lst(dead_l) + " dang=" + lst(dangling_in(after, all_dead)) + " zv=" + lst(zv) +
           " frame=" + b01(scrub_dump(before, now_dead) == after);
}

// ---- the entity through the kept handle (C02 / C03: a handle carries no state of its own) ----
static std::vector<std::string> kept_fields(H &h) {
    std::vector<std::string> f;
    Walk w;
    auto meta_src = [&](const std::string &m, const std::string &s) { f.push_back("meta=" + m); f.push_back("src=" + s); };
    switch (h.kind) {
    case 'T': {
        f.push_back("pos=" + SAFE(dbls(h.t.position())));
        f.push_back("refs=" + SAFE(ords(h.t.references())));
        f.push_back("X=" + SAFE(ords(h.t.features())));
        meta_src(SAFE(ordof(h.t.metadata())), SAFE(ords(h.t.sources())));
        break; }
    case 'M': {
        f.push_back("pos=" + ([&]() -> std::string { try { return ordof(h.m.positions()); } catch (...) { return "-"; } })());
        f.push_back("ext=" + ([&]() -> std::string { try { return ordof(h.m.extents()); } catch (...) { return "-"; } })());
        f.push_back("refs=" + SAFE(ords(h.m.references())));
        f.push_back("X=" + SAFE(ords(h.m.features())));
        meta_src(SAFE(ordof(h.m.metadata())), SAFE(ords(h.m.sources())));
        break; }
    case 'G':
        f.push_back("ga=" + SAFE(ords(h.g.dataArrays()))); f.push_back("gd=" + SAFE(ords(h.g.dataFrames())));
        f.push_back("gt=" + SAFE(ords(h.g.tags()))); f.push_back("gm=" + SAFE(ords(h.g.multiTags())));
        meta_src(SAFE(ordof(h.g.metadata())), SAFE(ords(h.g.sources())));
        break;
    case 'A':
        f.push_back("ext=" + SAFE(ndsz(h.a.dataExtent()))); f.push_back("dims=" + SAFE(w.dims_of(h.a)));
        meta_src(SAFE(ordof(h.a.metadata())), SAFE(ords(h.a.sources())));
        break;
    case 'D': meta_src(SAFE(ordof(h.d.metadata())), SAFE(ords(h.d.sources()))); break;
    case 'S':
        f.push_back("link=" + SAFE(ordof(h.s.link()))); f.push_back("S=" + SAFE(ords(h.s.sections()))); f.push_back("P=" + SAFE(ords(h.s.properties())));
        break;
    case 'R': f.push_back("meta=" + SAFE(ordof(h.r.metadata()))); f.push_back("R=" + SAFE(ords(h.r.sources()))); break;
    case 'B':
        f.push_back("meta=" + SAFE(ordof(h.b.metadata()))); f.push_back("A=" + SAFE(ords(h.b.dataArrays()))); f.push_back("D=" + SAFE(ords(h.b.dataFrames())));
        f.push_back("T=" + SAFE(ords(h.b.tags()))); f.push_back("M=" + SAFE(ords(h.b.multiTags()))); f.push_back("G=" + SAFE(ords(h.b.groups())));
        f.push_back("R=" + SAFE(ords(h.b.sources())));
        break;
    case 'P': f.push_back("cnt=[" + SAFE(enc_u64(h.p.valueCount())) + "]"); break;
    case 'X': f.push_back("data=" + SAFE(ordof(h.x.data()))); f.push_back("lt=" + SAFE(enc_str(enc_lt(h.x.linkType())))); break;
    }
    return f;
}
static std::string hobs(int k) {
    H &h = recv(k, "BSRADTMGPX");
    std::vector<std::string> kept = kept_fields(h);
    std::string now = dump();
    std::string want = std::string(1, h.kind) + std::to_string(k);
    for (auto &ln : split_bar(now)) {
        std::vector<std::string> fs = split_fields(ln);
        if (fs.empty() || fs[0] != want) continue;
        for (auto &kf : kept) {
            if (std::find(fs.begin() + 1, fs.end(), kf) == fs.end()) return "same=0 diff=" + kf.substr(0, kf.find('='));
        }
        return "same=1 diff=-";
    }
    return "same=0 diff=absent";
}

static void reset() {
    hs.clear(); ord_of_id.clear();
    if (file) file.close();
    file_serial++;
    path = workdir + "/hist" + std::to_string(file_serial % 2) + ".nix";
    file = nix::File::open(path, nix::FileMode::Overwrite);
    read_only = false;
    quiet = false;
    raw_at_open.clear();
    last_dump = dump();
    last_raw.clear();
}

static std::string tail_of(const std::string &before, const std::string &now) {
    char buf[64];
    std::snprintf(buf, sizeof buf, " t=%d h=%08x", now == before ? 0 : 1, fnv(now));
    return buf;
}

// one script line -> one answer line (without the line number)
static std::string answer(const std::vector<std::string> &t) {
    const std::string &c = t[0];
    if (c == "new") { reset(); return "OK -" + tail_of(last_dump, last_dump); }
    if (c == "uuid") return std::string("OK ") + b01(nix::util::looksLikeUUID(dec_str(t.at(1))));
    if (c == "observe") return "OK " + dump();
    if (c == "quiet") { quiet = t.at(1) == "on"; return "OK -"; }
    if (c == "hobs") { try { return "OK " + hobs((int)dec_int(t.at(1))); } catch (const std::domain_error &e) { return std::string("ERR ") + e.what(); } }
    if (c == "reopen") {
        std::string kind = t.size() > 1 ? t[1] : "rw";
        bool blind = quiet;                 // nothing of this file was observed yet: the reopen is the first look
        quiet = false;
        std::vector<std::string> raw_before;
        if (!blind) raw_before = rawdump(file);
        bool same = true;
        std::string diff = "-";
        // a read-only session, refused modifications included, shows from its first to its last call what it showed when it was opened
        if (read_only && !raw_at_open.empty() && raw_before != raw_at_open) { same = false; diff = "ro-session:" + raw_diff(raw_at_open, raw_before); }
        for (auto &h : hs) { h.b = nix::Block(); h.s = nix::Section(); h.p = nix::Property(); h.a = nix::DataArray(); h.d = nix::DataFrame();
                             h.t = nix::Tag(); h.m = nix::MultiTag(); h.g = nix::Group(); h.r = nix::Source(); h.x = nix::Feature(); }
        file.close();
        if (kind == "other" || kind == "otherw") {
            std::vector<std::string> child;
            if (!other_process_dump(kind == "other" ? "ro" : "rw", child)) { if (same) { same = false; diff = "child-failed"; } }
            else if (blind) raw_before = child;        // the fresh process saw the file first: this process has to see the same
            else if (child != raw_before && same) { same = false; diff = "other:" + raw_diff(raw_before, child); }
        }
        read_only = kind == "ro";
        try {
            if (kind == "def") file = nix::File::open(path);            // every argument defaulted: ReadWrite, "hdf5", Auto, None
            else file = nix::File::open(path, read_only ? nix::FileMode::ReadOnly : nix::FileMode::ReadWrite);
        } catch (...) {
            // the file cannot be opened again in this process (it was not really released by close)
            file = nix::File();
            raw_at_open.clear();
            return "ERR reopen-failed " + classify();
        }
        std::vector<std::string> raw_after = rawdump(file);
        raw_at_open = raw_after;
        if (!raw_before.empty() && raw_after != raw_before && same) { same = false; diff = raw_diff(raw_before, raw_after); }
        std::string before = last_dump;
        refresh_liveness(true);
        for (auto &h : hs) if (h.bound && !h.alive) h.bound = false;      // dead handles become none handles
        return "OK - same=" + b01(same) + " diff=" + diff + " n=" + std::to_string(raw_after.size() - 1) + tail_of(before, last_dump);
    }
    std::string head;
    bool maybe_deleted = false;
    if (mode_ == "C08") {
        static const std::set<std::string> writes = {"wrowbad", "wrow", "frows", "wdata", "sdata", "adata", "setlabel", "setunit", "setorigin", "setpoly",
            "punit", "puncert", "setvals", "dimset", "dim", "deldims", "setrepo", "forcecreated", "settpos", "settext", "setunits", "setextent",
            "setdef", "settype", "setlt", "touchupd"};
        last_raw.clear();
        if (writes.count(c)) last_raw = rawdump(file, false);
    }
    try {
        head = "OK " + do_line(t, maybe_deleted);
        // bookkeeping of possible link targets (see arg())
        if (c == "ladd" || c == "setmeta" || c == "setlink" || c == "setpos" || c == "setext" || c == "setdata") mark_linked_ref(dec_ref(t.at(c == "ladd" ? 3 : 2)));
        else if (c == "ladds" || c == "setmetas" || c == "setlinks" || c == "setposs" || c == "setexts" || c == "setdatas") mark_linked_str(dec_sarg(t.at(c == "ladds" ? 3 : 2)));
        else if (c == "lset") { size_t n = (size_t)dec_u64(t.at(3)); for (size_t i = 0; i < n; i++) mark_linked_ref(dec_ref(t.at(4 + i))); }
        else if (c == "dim" && t.at(2) == "frame") mark_linked_ref(dec_ref(t.at(3)));
        else if (c == "dim" && t.at(2) == "alias") mark_linked_ref((int)dec_int(t.at(1)));
        else if (c == "mk" && t.at(2) == "M") mark_linked_ref(dec_ref(t.at(5)));
        else if (c == "mk" && t.at(2) == "X") { if (t.at(5) == "h") mark_linked_ref(dec_ref(t.at(6))); else mark_linked_str(dec_sarg(t.at(6))); }
    } catch (const std::domain_error &e) {
        head = std::string("ERR ") + e.what();
    } catch (const std::logic_error &e) {
        std::string cls = classify();
        if (cls == "std::logic_error") throw;      // a malformed script line: let run_file report it
        head = "ERR " + cls;
    } catch (...) {
        head = "ERR " + classify();
    }
    if (quiet) {
        if (maybe_deleted) throw std::logic_error("no deletes in a quiet session");
        return head + " q";
    }
    std::string before = last_dump;
    if (maybe_deleted) {
        std::vector<bool> was_alive;
        for (auto &h : hs) was_alive.push_back(h.bound && h.alive);
        refresh_liveness(false);
        if (mode_ == "C04") head += delete_report(before, last_dump, was_alive);
    } else last_dump = dump();
    if (mode_ == "C08" && !last_raw.empty()) {
        // a rejected call leaves no trace in ANYTHING the API shows: data, cells, labels, descriptors ... (the raw dump)
        bool rejected = head.compare(0, 4, "ERR ") == 0 && head.compare(0, 12, "ERR driver::") != 0;
        if (rejected && before == last_dump) {
            std::vector<std::string> raw_now = rawdump(file, false);
            if (raw_now != last_raw) {
                std::string d = raw_diff(last_raw, raw_now);
                char buf[64]; std::snprintf(buf, sizeof buf, " t=1 h=%08x", fnv(last_dump));
                last_raw.clear();
                return head + " rawtrace=" + d + buf;
            }
        }
        last_raw.clear();
    }
    return head + tail_of(before, last_dump);
}

// run_file of common.hpp prefixes "OK "; our answers carry their own OK / ERR
static int run(const char *casefile, const char *wd, const char *mode = "C03") {
    workdir = wd;
    mode_ = mode;
    H5Eset_auto2(H5E_DEFAULT, nullptr, nullptr);
    std::ifstream in(casefile);
    if (!in) { std::cerr << "cannot open " << casefile << std::endl; return 2; }
    std::string line;
    long n = 0;
    while (std::getline(in, line)) {
        n++;
        if (line.empty() || line[0] == '#') continue;
        std::vector<std::string> t = split(line);
        if (t.empty()) continue;
        std::string out;
        try { out = answer(t); }
        catch (const std::exception &e) { out = std::string("ERR driver::script ") + e.what(); }
        std::cout << n << " " << out << "\n" << std::flush;
    }
    hs.clear();
    if (file) file.close();
    return 0;
}

} // namespace hist
} // namespace nixv
#endif
