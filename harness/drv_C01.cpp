// C01 correspondence driver: DataArray data round trip over the public nix API.
// One case = one history; every line is answered with one line.
//   create <dtype> <none|deflate|fileauto> <shape...>
//   write <off...> ; <cnt...> ; <values...>        DataArray::setData(dtype, ptr, count, offset)
//   writeall <shape...> ; <values...>              DataSet::setData(value): dataExtent(shape); setData(dtype, ptr, shape, {})
//                                                  (rank 1 and not Bool: the real template with std::vector<T>)
//   append <axis> <cnt...> ; <values...>           DataArray::appendData(dtype, ptr, count, axis)
//   extent <shape...>                              DataArray::dataExtent(shape)
//   shape                                          DataArray::dataExtent()  -> extents
//   read <off...> ; <cnt...>                       DataArray::getData(own dtype, ...)   (calibrated when polynomial/origin set)
//   readas <dtype> <off...> ; <cnt...>             DataArray::getData(dtype, ...)
//   raw <off...> ; <cnt...>                        DataArray::getDataDirect(own dtype, ...)
//   rawas <dtype> <off...> ; <cnt...>              DataArray::getDataDirect(dtype, ...)
//   readvec                                        DataSet::getData(std::vector<T>&)    (Hydra resize rule)
//   poly <d:..>... | poly none                     polynomCoefficients
//   origin <d:..> | origin none                    expansionOrigin
//   cal                                            -> polynomial and origin as stored
//   reopen ro|rw                                   File::close(); File::open(...)
// typed container routes (every data_traits specialisation the library ships):
//   route = sc (scalar T / std::string) | c1 (T[N], N in {5, 300}) | c2 (T[M][N], {2,3} or {260,2}) | vec (std::vector<T>)
//           | val (std::valarray<T>) | ma (boost::multi_array<T,N>, N = number of extents, 1..3) | nd (nix::NDArray)
//   tsetall <route> <ext...> ; <values...>          DataSet::setData(value)             container of extents ext
//   tset <route> <ext...> ; <off...> ; <values...>  DataSet::setData(value, offset)
//   tgetall <route> <ext0...>                       DataSet::getData(value)             container starts with extents ext0
//   tget <route> <ext0...> ; <off...> ; <cnt...>    DataSet::getData(value, count, offset)
//   tgetat <route> <ext...> ; <off...>              DataSet::getData(value, offset)
// further public routes:
//   tcreate <elem> <stored|Nothing> <compr> <route> <ext...> ; <values...>
//                                                  template Block::createDataArray(name, type, data, data_type, compression)
//                                                  (starts a case like `create`; on failure the driver looks the array up by name)
//   has                                            Block::hasDataArray("a"), Block::dataArrayCount()
//   polyc <none|deflate|auto> <d:..>...            polynomCoefficients(coefficients, compression)
//   rawwrite <off...> ; <cnt...> ; <values...>     DataArray::setDataDirect
//   ndidx <dtype> <shape...> ; <values...> ; <index...>          NDArray::get<T>(const NDSize &)   (filled by set<T>(size_t))
//   ndset <dtype> <shape...> ; <values...> ; <index...> ; <v>    NDArray::set<T>(const NDSize &, v), dump by get<T>(size_t)
//   applypoly <alias 0|1> <origin> ; <coeffs...> ; <inputs...>   util::applyPolynomial directly (alias: output == input)
//   str2dt <s:hex>                                 string_to_data_type, printed with data_type_to_string
// handle routes: a line may start with @<h>; the command then runs through that handle to the SAME array
//   @c the creating handle (default)         @p a second handle fetched by name right after creation and "peeked"
//   @n fetched now by name                   @i fetched now by id              @x fetched now by index
//   @b a stored handle obtained through a second Block handle (peeked)        @B second Block fetched now, array fetched now
//   (peek = dataExtent(), dataType(), one element read, polynomCoefficients(), expansionOrigin(): the handle has seen the
//    early state; after `reopen` the stored handles are fetched and peeked again)
// values: Bool 0/1, integers decimal, Float f:<8 hex>, Double d:<16 hex>, String s:<hex>
#include "common.hpp"
#include <hdf5.h>
#include <memory>
#include <limits>
#include <valarray>
#include <nix/hydra/multiArray.hpp>
#include <nix/NDArray.hpp>

using namespace nixv;
using nix::DataType;
using nix::NDSize;

static std::string workdir;

struct Session {
    nix::File file;
    nix::Block block;
    nix::DataArray arr;           // the handle the current line uses
    nix::DataArray h_create;      // @c
    nix::DataArray h_peek;        // @p
    nix::DataArray h_block2;      // @b
    nix::Block block2;
    std::string id;
    DataType dt = DataType::Nothing;
    std::string path;
    bool fileauto = false;
};
static Session S;

static DataType parse_dtype(const std::string &s) {
    if (s == "Bool") return DataType::Bool;
    if (s == "Int8") return DataType::Int8;
    if (s == "Int16") return DataType::Int16;
    if (s == "Int32") return DataType::Int32;
    if (s == "Int64") return DataType::Int64;
    if (s == "UInt8") return DataType::UInt8;
    if (s == "UInt16") return DataType::UInt16;
    if (s == "UInt32") return DataType::UInt32;
    if (s == "UInt64") return DataType::UInt64;
    if (s == "Float") return DataType::Float;
    if (s == "Double") return DataType::Double;
    if (s == "String") return DataType::String;
    throw std::logic_error("bad dtype " + s);
}

static size_t esize(DataType dt) {
    switch (dt) {
    case DataType::Bool: return sizeof(bool);
    case DataType::Int8: case DataType::UInt8: return 1;
    case DataType::Int16: case DataType::UInt16: return 2;
    case DataType::Int32: case DataType::UInt32: case DataType::Float: return 4;
    case DataType::Int64: case DataType::UInt64: case DataType::Double: return 8;
    default: return 0;
    }
}

// a typed element buffer without templates: POD types in `raw`, strings in `str`
struct Buf {
    DataType dt;
    size_t n;
    std::vector<unsigned char> raw;
    std::vector<std::string> str;
    Buf(DataType d, size_t count) : dt(d), n(count) {
        if (dt == DataType::String) str.resize(n);
        else raw.assign(n * esize(dt) + 8, 0);      // +8: never hand a null pointer to the library
    }
    void *ptr() { return dt == DataType::String ? static_cast<void *>(str.data()) : static_cast<void *>(raw.data()); }
};

static unsigned long long hex_bits(const std::string &t, size_t digits) {
    if (t.size() != digits + 2 || t[1] != ':') throw std::logic_error("bad bit pattern " + t);
    unsigned long long b = 0;
    for (size_t i = 2; i < t.size(); i++) b = (b << 4) | static_cast<unsigned long long>(hexval(t[i]));
    return b;
}

template<typename T> static void put(Buf &b, size_t i, T v) { std::memcpy(&b.raw[i * sizeof(T)], &v, sizeof(T)); }
template<typename T> static T get(const Buf &b, size_t i) { T v; std::memcpy(&v, &b.raw[i * sizeof(T)], sizeof(T)); return v; }

template<typename T> static T signed_tok(const std::string &t) {
    long long v = std::stoll(t, nullptr, 0);
    if (v < static_cast<long long>(std::numeric_limits<T>::min()) || v > static_cast<long long>(std::numeric_limits<T>::max()))
        throw std::logic_error("value out of range for the element type: " + t);
    return static_cast<T>(v);
}
template<typename T> static T unsigned_tok(const std::string &t) {
    if (!t.empty() && t[0] == '-') throw std::logic_error("negative value for an unsigned element type: " + t);
    unsigned long long v = std::stoull(t, nullptr, 0);
    if (v > static_cast<unsigned long long>(std::numeric_limits<T>::max()))
        throw std::logic_error("value out of range for the element type: " + t);
    return static_cast<T>(v);
}

static void set_val(Buf &b, size_t i, const std::string &t) {
    switch (b.dt) {
    case DataType::Bool: { if (t != "0" && t != "1") throw std::logic_error("bad bool " + t); bool v = t == "1"; put<bool>(b, i, v); break; }
    case DataType::Int8: put<int8_t>(b, i, signed_tok<int8_t>(t)); break;
    case DataType::Int16: put<int16_t>(b, i, signed_tok<int16_t>(t)); break;
    case DataType::Int32: put<int32_t>(b, i, signed_tok<int32_t>(t)); break;
    case DataType::Int64: put<int64_t>(b, i, signed_tok<int64_t>(t)); break;
    case DataType::UInt8: put<uint8_t>(b, i, unsigned_tok<uint8_t>(t)); break;
    case DataType::UInt16: put<uint16_t>(b, i, unsigned_tok<uint16_t>(t)); break;
    case DataType::UInt32: put<uint32_t>(b, i, unsigned_tok<uint32_t>(t)); break;
    case DataType::UInt64: put<uint64_t>(b, i, unsigned_tok<uint64_t>(t)); break;
    case DataType::Float: { if (t[0] != 'f') throw std::logic_error("expected f:<8hex>"); uint32_t u = static_cast<uint32_t>(hex_bits(t, 8)); put<uint32_t>(b, i, u); break; }
    case DataType::Double: { double d = dec_dbl(t); put<double>(b, i, d); break; }
    case DataType::String: b.str[i] = dec_str(t); break;
    default: throw std::logic_error("bad dtype");
    }
}

static std::string show_val(const Buf &b, size_t i) {
    char tmp[40];
    switch (b.dt) {
    case DataType::Bool: return std::to_string(static_cast<unsigned>(get<unsigned char>(b, i)));
    case DataType::Int8: return std::to_string(static_cast<int>(get<int8_t>(b, i)));
    case DataType::Int16: return std::to_string(get<int16_t>(b, i));
    case DataType::Int32: return std::to_string(get<int32_t>(b, i));
    case DataType::Int64: return std::to_string(static_cast<long long>(get<int64_t>(b, i)));
    case DataType::UInt8: return std::to_string(static_cast<unsigned>(get<uint8_t>(b, i)));
    case DataType::UInt16: return std::to_string(get<uint16_t>(b, i));
    case DataType::UInt32: return std::to_string(get<uint32_t>(b, i));
    case DataType::UInt64: return std::to_string(static_cast<unsigned long long>(get<uint64_t>(b, i)));
    case DataType::Float: {
        float f = get<float>(b, i);
        uint32_t u = get<uint32_t>(b, i);
        if (f != f) u = 0x7fc00000u;                  // one NaN
        std::snprintf(tmp, sizeof tmp, "f:%08x", u);
        return tmp;
    }
    case DataType::Double: return enc_dbl(get<double>(b, i));
    case DataType::String: return enc_str(b.str[i]);
    default: throw std::logic_error("bad dtype");
    }
}

static std::string show_all(const Buf &b) {
    std::string o = "[";
    for (size_t i = 0; i < b.n; i++) { o += " "; o += show_val(b, i); }
    o += " ]";
    return o;
}

// split t[from..] at ";" tokens
static std::vector<std::vector<std::string>> sections(const std::vector<std::string> &t, size_t from) {
    std::vector<std::vector<std::string>> out(1);
    for (size_t i = from; i < t.size(); i++) {
        if (t[i] == ";") out.emplace_back();
        else out.back().push_back(t[i]);
    }
    return out;
}

static NDSize to_ndsize(const std::vector<std::string> &v) {
    NDSize s(v.size());
    for (size_t i = 0; i < v.size(); i++) s[i] = dec_u64(v[i]);
    return s;
}

// number of elements of the memory buffer the library will touch for `count` (scalar when empty)
static size_t mem_elems(const NDSize &count) {
    unsigned long long n = 1;
    for (size_t i = 0; i < count.size(); i++) if (count[i] == 0) return 0;
    for (size_t i = 0; i < count.size(); i++) {
        n *= count[i];
        if (n > 4000000ULL) throw std::logic_error("case too large for the driver");
    }
    return static_cast<size_t>(n);
}

static Buf parse_buf(DataType dt, const std::vector<std::string> &vals, size_t need) {
    if (vals.size() != need) throw std::logic_error("driver: number of values does not match the count");
    Buf b(dt, need);
    for (size_t i = 0; i < need; i++) set_val(b, i, vals[i]);
    return b;
}

// a handle that has seen the state of the array at this moment
static void peek(nix::DataArray &h) {
    if (!h) return;
    try {
        NDSize e = h.dataExtent();
        DataType dt = h.dataType();
        (void) h.polynomCoefficients();
        (void) h.expansionOrigin();
        if (e.size() > 0 && e.nelms() > 0 && dt != DataType::Nothing) {
            Buf b(dt, 1);
            h.getDataDirect(dt, b.ptr(), NDSize(e.size(), 1), NDSize(e.size(), 0));
        }
    } catch (...) {}
}

// (re)establish the stored handles after the array came into being / the file was reopened
static void fetch_handles(bool keep_creator) {
    if (!keep_creator) S.h_create = S.block.getDataArray("a");
    S.arr = S.h_create;
    S.id = S.h_create ? S.h_create.id() : std::string();
    S.h_peek = S.block.getDataArray("a");
    peek(S.h_peek);
    S.block2 = S.file.getBlock("b");
    S.h_block2 = S.block2.getDataArray("a");
    peek(S.h_block2);
}

static nix::DataArray pick_handle(const std::string &h) {
    if (h == "c") return S.h_create;
    if (h == "p") return S.h_peek;
    if (h == "b") return S.h_block2;
    if (!S.block) return nix::DataArray();
    if (h == "n") return S.block.getDataArray("a");
    if (h == "i") return S.id.empty() ? S.block.getDataArray("a") : S.block.getDataArray(S.id);
    if (h == "x") return S.block.dataArrayCount() > 0 ? S.block.getDataArray(static_cast<size_t>(0)) : nix::DataArray();
    if (h == "B") { nix::Block b2 = S.file.getBlock("b"); return b2.getDataArray("a"); }
    throw std::logic_error("bad handle @" + h);
}

static void open_array(nix::FileMode m) {
    S.file = nix::File::open(S.path, m, "hdf5", S.fileauto ? nix::Compression::DeflateNormal : nix::Compression::Auto);
    S.block = S.file.getBlock("b");
    fetch_handles(false);
}

template<typename T> static std::string readvec_t() {
    std::vector<T> v;
    S.arr.getData(v);
    Buf b(S.dt, v.size());
    for (size_t i = 0; i < v.size(); i++) put<T>(b, i, v[i]);
    return show_all(b);
}

template<typename T> static void writevec_t(const Buf &b) {
    std::vector<T> v(b.n);
    for (size_t i = 0; i < b.n; i++) v[i] = get<T>(b, i);
    S.arr.setData(v);
}


// ---------------------------------------------------------------------------------------------
// typed container routes
// ---------------------------------------------------------------------------------------------
static size_t ext_elems(const std::vector<unsigned long long> &ext) {
    unsigned long long n = 1;
    for (auto e : ext) if (e == 0) return 0;
    for (auto e : ext) { n *= e; if (n > 4000000ULL) throw std::logic_error("case too large for the driver"); }
    return static_cast<size_t>(n);
}

static std::vector<unsigned long long> to_u64s(const std::vector<std::string> &v) {
    std::vector<unsigned long long> o;
    for (auto &s : v) o.push_back(dec_u64(s));
    return o;
}

static DataType ELEM = DataType::Nothing;      // element type of the container of the current typed call

template<typename T> static std::string show_typed(const T *p, size_t n) {
    Buf b(ELEM, n);
    for (size_t i = 0; i < n; i++) put<T>(b, i, p[i]);
    return show_all(b);
}

// what to do with a container once it exists
struct Call {
    std::string cmd;          // tsetall tset tgetall tget tgetat tcreate
    NDSize off, cnt;
    DataType stored = DataType::Nothing;
    nix::Compression compr = nix::Compression::Auto;
};

template<typename C> static void do_call(C &c, const Call &k) {
    if (k.cmd == "tsetall") S.arr.setData(c);
    else if (k.cmd == "tset") S.arr.setData(c, k.off);
    else if (k.cmd == "tgetall") S.arr.getData(c);
    else if (k.cmd == "tget") S.arr.getData(c, k.cnt, k.off);
    else if (k.cmd == "tgetat") S.arr.getData(c, k.off);
    else if (k.cmd == "tcreate") S.arr = S.block.createDataArray("a", "t", c, k.stored, k.compr);
    else throw std::logic_error("bad typed command");
}

static bool is_set(const Call &k) { return k.cmd == "tsetall" || k.cmd == "tset" || k.cmd == "tcreate"; }

template<typename T, size_t N> static std::string run_ma(const std::vector<unsigned long long> &ext, const Buf *in, const Call &k) {
    boost::array<typename boost::multi_array<T, N>::index, N> e;
    for (size_t i = 0; i < N; i++) e[i] = static_cast<typename boost::multi_array<T, N>::index>(ext[i]);
    boost::multi_array<T, N> m(e);
    if (in) for (size_t i = 0; i < m.num_elements(); i++) m.data()[i] = get<T>(*in, i);
    do_call(m, k);
    return is_set(k) ? "-" : show_typed<T>(m.data(), m.num_elements());
}

template<typename T, size_t N> static std::string run_c1(const Buf *in, const Call &k) {
    static T a[N];
    for (size_t i = 0; i < N; i++) a[i] = in ? get<T>(*in, i) : T();
    do_call(a, k);
    return is_set(k) ? "-" : show_typed<T>(a, N);
}

template<typename T, size_t M, size_t N> static std::string run_c2(const Buf *in, const Call &k) {
    static T a[M][N];
    T *flat = reinterpret_cast<T *>(a);
    for (size_t i = 0; i < M * N; i++) flat[i] = in ? get<T>(*in, i) : T();
    do_call(a, k);
    return is_set(k) ? "-" : show_typed<T>(flat, M * N);
}

template<typename T> struct VecRoute {
    static std::string run(size_t n, const Buf *in, const Call &k) {
        std::vector<T> v(n);
        if (in) for (size_t i = 0; i < n; i++) v[i] = get<T>(*in, i);
        do_call(v, k);
        return is_set(k) ? "-" : show_typed<T>(v.data(), v.size());
    }
};
template<> struct VecRoute<bool> {
    static std::string run(size_t, const Buf *, const Call &) { throw std::logic_error("std::vector<bool> is not supported by Hydra"); }
};

template<typename T> static std::string run_val(size_t n, const Buf *in, const Call &k) {
    std::valarray<T> v(n);
    if (in) for (size_t i = 0; i < n; i++) v[i] = get<T>(*in, i);
    do_call(v, k);
    return is_set(k) ? "-" : (v.size() ? show_typed<T>(&v[0], v.size()) : show_typed<T>(nullptr, 0));
}

template<typename T> static std::string run_scalar(const Buf *in, const Call &k) {
    T v = in ? get<T>(*in, 0) : T();
    do_call(v, k);
    return is_set(k) ? "-" : show_typed<T>(&v, 1);
}

static std::string run_scalar_string(const Buf *in, const Call &k) {
    std::string v = in ? in->str[0] : std::string();
    do_call(v, k);
    if (is_set(k)) return "-";
    Buf b(DataType::String, 1);
    b.str[0] = v;
    return show_all(b);
}

template<typename T> static std::string run_nd(const std::vector<unsigned long long> &ext, const Buf *in, const Call &k) {
    NDSize dims(ext.size());
    for (size_t i = 0; i < ext.size(); i++) dims[i] = ext[i];
    nix::NDArray a(ELEM, dims);
    if (in) for (size_t i = 0; i < in->n; i++) a.set<T>(i, get<T>(*in, i));
    do_call(a, k);
    return is_set(k) ? "-" : show_typed<T>(reinterpret_cast<const T *>(a.data()), static_cast<size_t>(a.num_elements()));
}

template<typename T> static std::string typed_t(const std::string &route, const std::vector<unsigned long long> &ext,
                                               const Buf *in, const Call &k) {
    if (route == "ma") {
        switch (ext.size()) {
        case 1: return run_ma<T, 1>(ext, in, k);
        case 2: return run_ma<T, 2>(ext, in, k);
        case 3: return run_ma<T, 3>(ext, in, k);
        default: throw std::logic_error("driver: multi_array of rank 1..3 only");
        }
    }
    if (route == "c1") {
        if (ext.size() == 1 && ext[0] == 5) return run_c1<T, 5>(in, k);
        if (ext.size() == 1 && ext[0] == 300) return run_c1<T, 300>(in, k);
        throw std::logic_error("driver: C arrays of 5 or 300 elements only");
    }
    if (route == "c2") {
        if (ext.size() == 2 && ext[0] == 2 && ext[1] == 3) return run_c2<T, 2, 3>(in, k);
        if (ext.size() == 2 && ext[0] == 260 && ext[1] == 2) return run_c2<T, 260, 2>(in, k);
        throw std::logic_error("driver: C arrays [2][3] or [260][2] only");
    }
    if (route == "vec") {
        if (ext.size() != 1) throw std::logic_error("driver: vector has one extent");
        return VecRoute<T>::run(static_cast<size_t>(ext[0]), in, k);
    }
    if (route == "val") {
        if (ext.size() != 1) throw std::logic_error("driver: valarray has one extent");
        return run_val<T>(static_cast<size_t>(ext[0]), in, k);
    }
    if (route == "sc") return run_scalar<T>(in, k);
    if (route == "nd") return run_nd<T>(ext, in, k);
    throw std::logic_error("bad route " + route);
}

static std::string typed_call(Call &k, DataType elem, const std::string &route, const std::vector<std::string> &extv,
                              const std::vector<std::string> *vals) {
    std::vector<unsigned long long> ext = to_u64s(extv);
    ELEM = elem;
    size_t n = route == "sc" ? 1 : ext_elems(ext);
    std::unique_ptr<Buf> in;
    if (vals) in.reset(new Buf(parse_buf(elem, *vals, n)));
    if (elem == DataType::String) {
        if (route == "sc") return run_scalar_string(in.get(), k);
        if (route == "vec" && k.cmd == "tcreate") { do_call(in->str, k); return "-"; }
        throw std::logic_error("driver: String only through the scalar route (and std::vector for tcreate / readvec / writeall)");
    }
    switch (elem) {
    case DataType::Bool: return typed_t<bool>(route, ext, in.get(), k);
    case DataType::Int8: return typed_t<int8_t>(route, ext, in.get(), k);
    case DataType::Int16: return typed_t<int16_t>(route, ext, in.get(), k);
    case DataType::Int32: return typed_t<int32_t>(route, ext, in.get(), k);
    case DataType::Int64: return typed_t<int64_t>(route, ext, in.get(), k);
    case DataType::UInt8: return typed_t<uint8_t>(route, ext, in.get(), k);
    case DataType::UInt16: return typed_t<uint16_t>(route, ext, in.get(), k);
    case DataType::UInt32: return typed_t<uint32_t>(route, ext, in.get(), k);
    case DataType::UInt64: return typed_t<uint64_t>(route, ext, in.get(), k);
    case DataType::Float: return typed_t<float>(route, ext, in.get(), k);
    case DataType::Double: return typed_t<double>(route, ext, in.get(), k);
    default: throw std::logic_error("bad dtype");
    }
}

static std::string typed(const std::vector<std::string> &t) {
    Call k;
    k.cmd = t[0];
    const std::string &route = t[1];
    auto sec = sections(t, 2);
    const std::vector<std::string> *vals = nullptr;
    if (k.cmd == "tsetall") { if (sec.size() != 2) throw std::logic_error("tsetall needs 2 sections"); vals = &sec[1]; }
    else if (k.cmd == "tset") { if (sec.size() != 3) throw std::logic_error("tset needs 3 sections"); k.off = to_ndsize(sec[1]); vals = &sec[2]; }
    else if (k.cmd == "tgetall") { if (sec.size() != 1) throw std::logic_error("tgetall needs 1 section"); }
    else if (k.cmd == "tget") { if (sec.size() != 3) throw std::logic_error("tget needs 3 sections"); k.off = to_ndsize(sec[1]); k.cnt = to_ndsize(sec[2]); }
    else if (k.cmd == "tgetat") { if (sec.size() != 2) throw std::logic_error("tgetat needs 2 sections"); k.off = to_ndsize(sec[1]); }
    return typed_call(k, S.dt, route, sec[0], vals);
}

static nix::Compression parse_compr_arg(const std::string &s) {
    if (s == "none") return nix::Compression::None;
    if (s == "deflate") return nix::Compression::DeflateNormal;
    if (s == "auto" || s == "fileauto") return nix::Compression::Auto;
    throw std::logic_error("bad compression " + s);
}

// tcreate <elem> <stored|Nothing> <compr> <route> <ext...> ; <values...>
static std::string tcreate(const std::vector<std::string> &t) {
    if (S.file) { try { S.file.close(); } catch (...) {} }
    S = Session();
    DataType elem = parse_dtype(t[1]);
    S.path = workdir + "/c01.nix";
    S.fileauto = t[3] == "fileauto";
    Call k;
    k.cmd = "tcreate";
    k.stored = t[2] == "Nothing" ? DataType::Nothing : parse_dtype(t[2]);
    k.compr = parse_compr_arg(t[3]);
    S.dt = t[2] == "Nothing" ? elem : k.stored;
    auto sec = sections(t, 5);
    if (sec.size() != 2) throw std::logic_error("tcreate needs 2 sections");
    S.file = nix::File::open(S.path, nix::FileMode::Overwrite, "hdf5",
                             S.fileauto ? nix::Compression::DeflateNormal : nix::Compression::Auto);
    S.block = S.file.createBlock("b", "t");
    try {
        std::string r = typed_call(k, elem, t[4], sec[0], &sec[1]);
        S.h_create = S.arr;
        fetch_handles(true);
        return r;
    } catch (...) {
        // the template lost its handle: whatever it left behind is reachable by name
        try { fetch_handles(false); } catch (...) {}
        throw;
    }
}

template<typename T> static std::string nd_tool(const std::vector<std::string> &t, DataType dt) {
    auto sec = sections(t, 2);
    bool setter = t[0] == "ndset";
    if (sec.size() != (setter ? 4u : 3u)) throw std::logic_error("ndidx / ndset: wrong number of sections");
    NDSize dims = to_ndsize(sec[0]);
    nix::NDArray a(dt, dims);
    Buf in = parse_buf(dt, sec[1], static_cast<size_t>(a.num_elements()));
    for (size_t i = 0; i < in.n; i++) a.set<T>(i, get<T>(in, i));
    NDSize idx = to_ndsize(sec[2]);
    ELEM = dt;
    if (!setter) {
        T v = a.get<T>(idx);
        Buf b(dt, 1);
        put<T>(b, 0, v);
        return show_val(b, 0);
    }
    Buf nv = parse_buf(dt, sec[3], 1);
    a.set<T>(idx, get<T>(nv, 0));
    Buf out(dt, in.n);
    for (size_t i = 0; i < in.n; i++) put<T>(out, i, a.get<T>(i));
    return show_all(out);
}

static std::string nd_tool_d(const std::vector<std::string> &t) {
    DataType dt = parse_dtype(t[1]);
    switch (dt) {
    case DataType::Bool: return nd_tool<bool>(t, dt);
    case DataType::Int8: return nd_tool<int8_t>(t, dt);
    case DataType::Int16: return nd_tool<int16_t>(t, dt);
    case DataType::Int32: return nd_tool<int32_t>(t, dt);
    case DataType::Int64: return nd_tool<int64_t>(t, dt);
    case DataType::UInt8: return nd_tool<uint8_t>(t, dt);
    case DataType::UInt16: return nd_tool<uint16_t>(t, dt);
    case DataType::UInt32: return nd_tool<uint32_t>(t, dt);
    case DataType::UInt64: return nd_tool<uint64_t>(t, dt);
    case DataType::Float: return nd_tool<float>(t, dt);
    case DataType::Double: return nd_tool<double>(t, dt);
    default: throw std::logic_error("bad dtype");
    }
}

static std::string handle_cmd(const std::vector<std::string> &t);

static std::string handle(const std::vector<std::string> &t_in) {
    if (t_in[0][0] == '@') {
        std::vector<std::string> t(t_in.begin() + 1, t_in.end());
        if (t.empty()) throw std::logic_error("handle without a command");
        S.arr = pick_handle(t_in[0].substr(1));
        return handle_cmd(t);
    }
    if (t_in[0] != "create" && t_in[0] != "tcreate" && t_in[0] != "reopen") S.arr = S.h_create;
    return handle_cmd(t_in);
}

static std::string handle_cmd(const std::vector<std::string> &t) {
    const std::string &cmd = t[0];
    if (cmd == "tsetall" || cmd == "tset" || cmd == "tgetall" || cmd == "tget" || cmd == "tgetat") return typed(t);
    if (cmd == "tcreate") return tcreate(t);
    if (cmd == "has") {
        return std::to_string(S.block.hasDataArray("a") ? 1 : 0) + " " + enc_u64(S.block.dataArrayCount());
    }
    if (cmd == "polyc") {
        std::vector<double> c;
        for (size_t i = 2; i < t.size(); i++) c.push_back(dec_dbl(t[i]));
        S.arr.polynomCoefficients(c, parse_compr_arg(t[1]));
        return "-";
    }
    if (cmd == "rawwrite") {
        auto sec = sections(t, 1);
        if (sec.size() != 3) throw std::logic_error("rawwrite needs 3 sections");
        NDSize off = to_ndsize(sec[0]), cnt = to_ndsize(sec[1]);
        Buf b = parse_buf(S.dt, sec[2], mem_elems(cnt));
        S.arr.setDataDirect(S.dt, b.ptr(), cnt, off);
        return "-";
    }
    if (cmd == "ndidx" || cmd == "ndset") return nd_tool_d(t);
    if (cmd == "applypoly") {
        auto sec = sections(t, 3);
        if (sec.size() != 3) throw std::logic_error("applypoly needs 3 sections");
        std::vector<double> cs, in, out;
        for (auto &x : sec[1]) cs.push_back(dec_dbl(x));
        for (auto &x : sec[2]) in.push_back(dec_dbl(x));
        out.assign(in.size() + 1, 0.0);
        in.push_back(0.0);                        // never a null pointer
        size_t n = in.size() - 1;
        if (t[1] == "1") { nix::util::applyPolynomial(cs, dec_dbl(t[2]), in.data(), in.data(), n); out = in; }
        else nix::util::applyPolynomial(cs, dec_dbl(t[2]), in.data(), out.data(), n);
        std::string o = "[";
        for (size_t i = 0; i < n; i++) { o += " "; o += enc_dbl(out[i]); }
        return o + " ]";
    }
    if (cmd == "str2dt") return nix::data_type_to_string(nix::string_to_data_type(dec_str(t[1])));
    if (cmd == "create") {
        if (S.file) { try { S.file.close(); } catch (...) {} }
        S = Session();
        S.dt = parse_dtype(t[1]);
        S.path = workdir + "/c01.nix";
        nix::Compression ac = nix::Compression::None;
        if (t[2] == "deflate") ac = nix::Compression::DeflateNormal;
        else if (t[2] == "fileauto") { ac = nix::Compression::Auto; S.fileauto = true; }
        else if (t[2] != "none") throw std::logic_error("bad compression " + t[2]);
        std::vector<std::string> sh(t.begin() + 3, t.end());
        S.file = nix::File::open(S.path, nix::FileMode::Overwrite, "hdf5",
                                 S.fileauto ? nix::Compression::DeflateNormal : nix::Compression::Auto);
        S.block = S.file.createBlock("b", "t");
        S.arr = S.block.createDataArray("a", "t", S.dt, to_ndsize(sh), ac);
        S.h_create = S.arr;
        fetch_handles(true);
        return "-";
    }
    if (cmd == "reopen") {
        S.file.close();
        open_array(t[1] == "ro" ? nix::FileMode::ReadOnly : nix::FileMode::ReadWrite);
        return "-";
    }
    if (cmd == "write") {
        auto sec = sections(t, 1);
        if (sec.size() != 3) throw std::logic_error("write needs 3 sections");
        NDSize off = to_ndsize(sec[0]), cnt = to_ndsize(sec[1]);
        Buf b = parse_buf(S.dt, sec[2], mem_elems(cnt));
        S.arr.setData(S.dt, b.ptr(), cnt, off);
        return "-";
    }
    if (cmd == "writeall") {
        auto sec = sections(t, 1);
        if (sec.size() != 2) throw std::logic_error("writeall needs 2 sections");
        NDSize shape = to_ndsize(sec[0]);
        Buf b = parse_buf(S.dt, sec[1], mem_elems(shape));
        if (shape.size() == 1 && S.dt != DataType::Bool && S.dt != DataType::String) {
            switch (S.dt) {
            case DataType::Int8: writevec_t<int8_t>(b); break;
            case DataType::Int16: writevec_t<int16_t>(b); break;
            case DataType::Int32: writevec_t<int32_t>(b); break;
            case DataType::Int64: writevec_t<int64_t>(b); break;
            case DataType::UInt8: writevec_t<uint8_t>(b); break;
            case DataType::UInt16: writevec_t<uint16_t>(b); break;
            case DataType::UInt32: writevec_t<uint32_t>(b); break;
            case DataType::UInt64: writevec_t<uint64_t>(b); break;
            case DataType::Float: writevec_t<float>(b); break;
            case DataType::Double: writevec_t<double>(b); break;
            default: break;
            }
        } else if (shape.size() == 1 && S.dt == DataType::String) {
            S.arr.setData(b.str);
        } else {
            // body of template DataSet::setData(const T &value) for an n-d value
            S.arr.dataExtent(shape);
            S.arr.setData(S.dt, b.ptr(), shape, NDSize{});
        }
        return "-";
    }
    if (cmd == "append") {
        auto sec = sections(t, 2);
        if (sec.size() != 2) throw std::logic_error("append needs 2 sections");
        size_t axis = static_cast<size_t>(dec_u64(t[1]));
        NDSize cnt = to_ndsize(sec[0]);
        Buf b = parse_buf(S.dt, sec[1], mem_elems(cnt));
        S.arr.appendData(S.dt, b.ptr(), cnt, axis);
        return "-";
    }
    if (cmd == "extent") {
        std::vector<std::string> sh(t.begin() + 1, t.end());
        S.arr.dataExtent(to_ndsize(sh));
        return "-";
    }
    if (cmd == "shape") {
        NDSize e = S.arr.dataExtent();
        std::string o = "[";
        for (size_t i = 0; i < e.size(); i++) { o += " "; o += enc_u64(e[i]); }
        return o + " ]";
    }
    if (cmd == "read" || cmd == "readas" || cmd == "raw" || cmd == "rawas") {
        bool as = cmd == "readas" || cmd == "rawas";
        bool direct = cmd == "raw" || cmd == "rawas";
        DataType dt = as ? parse_dtype(t[1]) : S.dt;
        auto sec = sections(t, as ? 2 : 1);
        if (sec.size() != 2) throw std::logic_error("read needs 2 sections");
        NDSize off = to_ndsize(sec[0]), cnt = to_ndsize(sec[1]);
        Buf b(dt, mem_elems(cnt));
        if (direct) S.arr.getDataDirect(dt, b.ptr(), cnt, off);
        else S.arr.getData(dt, b.ptr(), cnt, off);
        return show_all(b);
    }
    if (cmd == "readvec") {
        switch (S.dt) {
        case DataType::Int8: return readvec_t<int8_t>();
        case DataType::Int16: return readvec_t<int16_t>();
        case DataType::Int32: return readvec_t<int32_t>();
        case DataType::Int64: return readvec_t<int64_t>();
        case DataType::UInt8: return readvec_t<uint8_t>();
        case DataType::UInt16: return readvec_t<uint16_t>();
        case DataType::UInt32: return readvec_t<uint32_t>();
        case DataType::UInt64: return readvec_t<uint64_t>();
        case DataType::Float: return readvec_t<float>();
        case DataType::Double: return readvec_t<double>();
        case DataType::String: {
            std::vector<std::string> v;
            S.arr.getData(v);
            Buf b(S.dt, v.size());
            b.str = v;
            return show_all(b);
        }
        default: throw std::logic_error("readvec: std::vector<bool> is not supported by Hydra");
        }
    }
    if (cmd == "poly") {
        if (t.size() == 2 && t[1] == "none") { S.arr.polynomCoefficients(nix::none); return "-"; }
        std::vector<double> c;
        for (size_t i = 1; i < t.size(); i++) c.push_back(dec_dbl(t[i]));
        S.arr.polynomCoefficients(c);
        return "-";
    }
    if (cmd == "origin") {
        if (t[1] == "none") { S.arr.expansionOrigin(nix::none); return "-"; }
        S.arr.expansionOrigin(dec_dbl(t[1]));
        return "-";
    }
    if (cmd == "cal") {
        std::vector<double> c = S.arr.polynomCoefficients();
        boost::optional<double> o = S.arr.expansionOrigin();
        std::string out = "poly";
        for (double d : c) { out += " "; out += enc_dbl(d); }
        out += " origin ";
        out += o ? enc_dbl(*o) : std::string("none");
        return out;
    }
    throw std::logic_error("bad command " + cmd);
}

int main(int argc, char **argv) {
    if (argc < 3) { std::cerr << "usage: drv_C01 <casefile> <workdir>\n"; return 2; }
    workdir = argv[2];
    H5Eset_auto2(H5E_DEFAULT, nullptr, nullptr);
    int rc = run_file(argv[1], handle);
    if (S.file) { try { S.file.close(); } catch (...) {} }
    return rc;
}
