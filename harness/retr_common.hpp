// Shared by drv_C05.cpp / drv_C06.cpp: interpreter of the retrieval script language over the public nix API
// (same text as ocaml/retr_common.ml).
//   reset
//   arr <aid> <rank> <shape..> <dim>*rank       dim = S <dt> <off|-> <unit|-> | R <k> <t1..tk> <unit|-> | L <nlabels> | F <nrows>
//                                               | A <k> <t1..tk> <unit|->   (rank 1 only: ALIAS range dimension - the array's own data
//                                                 are the ticks t1 < .. < tk, its unit is the array's unit)
//   tag <np> <pos..> <ne> <ext..> <nu> <units..>                     (ne = 0: no extent)
//   ref <aid> | feat <aid> <tagged|untagged|indexed>                 (attached to the tag AND the multi-tag of the case)
//   mtag <rank> <shape..> <n> <posdata..> <ne> <extdata..> <nu> <units..>   (ne = 0: no extents array)
//   dimunit <aid> <d>                                util::getDimensionUnit(array.getDimension(d+1))
//   indata <aid> <np> <pos..> <nc> <count..>         util::positionInData, util::positionAndExtentInData called directly
//   pti1 <aid> <d> <p> <unit> <L|LE|GE|G|EQ>         util::positionToIndex(double, string, PositionMatch, const Dimension &)
//   ptiv <aid> <d> <incl|excl> <ns> s.. <ne> e.. <nu> u..   util::positionToIndex(starts, ends, units, RangeMatch, const Dimension &)
//   wtagged <refidx> <mode> | mwtagged1 <refidx> <mode> <idx>   the region WRITTEN through the DataView, read back from the array
//   dimension token FC <nrows> <unit|-> : data-frame dimension WITH column index 0 whose column carries that unit
//   offcnt <aid> <mode> | tagged <refidx> <mode> | taggeda <aid> <mode> | feature <k> <mode>
//   moffcnt <aid> <mode> <n> <idx..> | moffcnt1 <aid> <mode> <idx>
//   mtagged <refidx> <mode> <n> <idx..> | mtagged1 <refidx> <mode> <idx>
//   mfeature <k> <mode> <n> <idx..> | mfeature1 <k> <mode> <idx>
// mode = incl | excl | default (the call is made WITHOUT the argument, so the header's default is what runs).
// ROUTES: tagged / feature / mtagged1 / mtagged / mfeature1 / mfeature may carry a route, `tagged@<route> ...`: the same
// request through another public entry point (all must give the same answer):
//   idx    util::taggedData / featureData (.., reference or feature INDEX, [match])          (= no route, explicit mode)
//   arr    util::taggedData (.., const DataArray &, [match])     feat   util::featureData (.., const Feature &, [match])
//   r_idx  r_arr  r_feat   the DEPRECATED util::retrieveData / retrieveFeatureData twins (their default match is Inclusive)
//   m_idx  Tag:: / MultiTag:: member by index      m_name  member by the array's name     m_id  member by the array's id
//   m_fid  member featureData by the feature's id  m_dname member featureData by the data array's name
//   mr_idx mr_name mr_fid   the members retrieveData / retrieveFeatureData
// member routes have no RangeMatch parameter: they are called with mode `default` only (Exclusive).
// Every data array is filled with its own row-major flat index: a view is printed as its shape and the element
// ids it delivers.
#ifndef NIXV_RETR_COMMON_HPP
#define NIXV_RETR_COMMON_HPP
#include "common.hpp"
#include <nix/util/dataAccess.hpp>
#include <hdf5.h>
#include <map>

namespace nix { namespace util {
// defined in src/util/dataAccess.cpp; the header declares it under the misspelt name getOffestAndCount
void getOffsetAndCount(const MultiTag &tag, const DataArray &array, const std::vector<ndsize_t> &indices,
                       std::vector<NDSize> &offsets, std::vector<NDSize> &counts, RangeMatch match);
// the generic-Dimension dispatchers retrieval uses: exported symbols of the library that no header declares
boost::optional<ndsize_t> positionToIndex(double position, const std::string &unit, const PositionMatch match, const Dimension &dimension);
std::vector<boost::optional<std::pair<ndsize_t, ndsize_t>>> positionToIndex(const std::vector<double> &start_positions,
                                                                             const std::vector<double> &end_positions,
                                                                             const std::vector<std::string> &units,
                                                                             const RangeMatch range_matching,
                                                                             const Dimension &dimension);
} }

namespace retr {
using namespace nixv;

static nix::File file;
static nix::Block block;
static std::string workdir;
static long block_no = 0, cases_in_file = 0, obj_no = 0;
static std::map<std::string, nix::DataArray> arrays;
// arrays with an alias range dimension hold their ticks, not their flat index: element value -> element id
static std::map<std::string, std::vector<double>> alias_ticks;
static std::vector<std::string> ref_aids, feat_aids;
static nix::Tag the_tag;
static nix::MultiTag the_mtag;
static std::vector<std::string> ref_ids;                       // arrays referenced so far (attached to tags created later too)
static std::vector<std::pair<std::string, nix::LinkType>> feat_ids;

static void open_file() {
    if (file) file.close();
    file = nix::File::open(workdir + "/retr.nix", nix::FileMode::Overwrite);
    cases_in_file = 0;
}

static std::string fresh(const char *p) { return std::string(p) + std::to_string(++obj_no); }

static void reset() {
    arrays.clear();
    alias_ticks.clear();
    ref_aids.clear();
    feat_aids.clear();
    the_tag = nix::none;
    the_mtag = nix::none;
    ref_ids.clear();
    feat_ids.clear();
    if (block) { std::string n = block.name(); block = nix::none; file.deleteBlock(n); }
    if (++cases_in_file > 400) open_file();
    block = file.createBlock("b" + std::to_string(++block_no), "t");
}

static boost::optional<std::string> unit_opt(const std::string &t) {
    if (t == "-") return boost::none;
    return dec_str(t);
}

static nix::DataArray filled(const std::string &name, const nix::NDSize &shape) {
    nix::DataArray a = block.createDataArray(name, "t", nix::DataType::Double, shape);
    size_t n = 1;
    for (size_t i = 0; i < shape.size(); i++) n *= static_cast<size_t>(shape[i]);
    if (n > 0) {
        std::vector<double> v(n);
        for (size_t i = 0; i < n; i++) v[i] = static_cast<double>(i);
        a.setData(nix::DataType::Double, v.data(), shape, nix::NDSize(shape.size(), 0));
    }
    return a;
}

static nix::DataArray doubles(const std::string &name, const nix::NDSize &shape, const std::vector<double> &v) {
    nix::DataArray a = block.createDataArray(name, "t", nix::DataType::Double, shape);
    if (!v.empty()) a.setData(nix::DataType::Double, v.data(), shape, nix::NDSize(shape.size(), 0));
    return a;
}

static void make_array(const std::vector<std::string> &t) {
    size_t rank = static_cast<size_t>(dec_int(t[2]));
    nix::NDSize shape(rank);
    for (size_t i = 0; i < rank; i++) shape[i] = dec_u64(t[3 + i]);
    size_t p = 3 + rank;
    if (rank == 1 && t.at(p) == "A") {
        // alias range dimension: the 1-D array describes its own axis; data = ticks, unit = the array's unit
        size_t n = static_cast<size_t>(dec_int(t.at(p + 1)));
        std::vector<double> ticks;
        for (size_t i = 0; i < n; i++) ticks.push_back(dec_dbl(t.at(p + 2 + i)));
        if (n != shape[0]) throw std::logic_error("alias array: shape and number of ticks differ");
        nix::DataArray al = doubles(fresh("a"), shape, ticks);
        boost::optional<std::string> u = unit_opt(t.at(p + 2 + n));
        if (u) al.unit(*u);
        al.appendAliasRangeDimension();
        arrays[t[1]] = al;
        alias_ticks[t[1]] = ticks;
        return;
    }
    nix::DataArray a = filled(fresh("a"), shape);
    for (size_t d = 0; d < rank; d++) {
        const std::string &k = t.at(p);
        if (k == "S") {
            nix::SampledDimension sd = a.appendSampledDimension(dec_dbl(t.at(p + 1)));
            if (t.at(p + 2) != "-") sd.offset(dec_dbl(t.at(p + 2)));
            boost::optional<std::string> u = unit_opt(t.at(p + 3));
            if (u) sd.unit(*u);
            p += 4;
        } else if (k == "R") {
            size_t n = static_cast<size_t>(dec_int(t.at(p + 1)));
            std::vector<double> ticks;
            for (size_t i = 0; i < n; i++) ticks.push_back(dec_dbl(t.at(p + 2 + i)));
            nix::RangeDimension rd = a.appendRangeDimension(ticks);
            boost::optional<std::string> u = unit_opt(t.at(p + 2 + n));
            if (u) rd.unit(*u);
            p += 3 + n;
        } else if (k == "L") {
            long n = dec_int(t.at(p + 1));
            nix::SetDimension sd = a.appendSetDimension();
            if (n > 0) {
                std::vector<std::string> l;
                for (long i = 0; i < n; i++) l.push_back("l" + std::to_string(i));
                sd.labels(l);
            }
            p += 2;
        } else if (k == "F") {
            std::vector<nix::Column> cols = {{"c", "", nix::DataType::Double}};
            nix::DataFrame fr = block.createDataFrame(fresh("f"), "t", cols);
            fr.rows(dec_u64(t.at(p + 1)));
            a.appendDataFrameDimension(fr);
            p += 2;
        } else if (k == "FC") {
            boost::optional<std::string> u = unit_opt(t.at(p + 2));
            std::vector<nix::Column> cols = {{"c", u ? *u : std::string(""), nix::DataType::Double}};
            nix::DataFrame fr = block.createDataFrame(fresh("f"), "t", cols);
            fr.rows(dec_u64(t.at(p + 1)));
            a.appendDataFrameDimension(fr, 0u);
            p += 3;
        } else {
            throw std::logic_error("bad dimension kind " + k);
        }
    }
    arrays[t[1]] = a;
}

static nix::DataArray arr(const std::string &aid) {
    auto it = arrays.find(aid);
    if (it == arrays.end()) throw std::logic_error("bad array " + aid);
    return it->second;
}

// <n> <items..> starting at t[p]; advances p
static std::vector<double> dbls(const std::vector<std::string> &t, size_t &p) {
    size_t n = static_cast<size_t>(dec_int(t.at(p++)));
    std::vector<double> v;
    for (size_t i = 0; i < n; i++) v.push_back(dec_dbl(t.at(p++)));
    return v;
}
static std::vector<std::string> strs(const std::vector<std::string> &t, size_t &p) {
    size_t n = static_cast<size_t>(dec_int(t.at(p++)));
    std::vector<std::string> v;
    for (size_t i = 0; i < n; i++) v.push_back(dec_str(t.at(p++)));
    return v;
}
static std::vector<nix::ndsize_t> idxs(const std::vector<std::string> &t, size_t p) {
    size_t n = static_cast<size_t>(dec_int(t.at(p++)));
    std::vector<nix::ndsize_t> v;
    for (size_t i = 0; i < n; i++) v.push_back(dec_u64(t.at(p++)));
    return v;
}

template <typename T> static void attach(T &tg) {
    for (auto &r : ref_ids) tg.addReference(r);
    for (auto &f : feat_ids) tg.createFeature(f.first, f.second);
}

static std::string nds(const nix::NDSize &s) {
    std::string out = "[";
    for (size_t i = 0; i < s.size(); i++) { if (i) out += " "; out += enc_u64(s[i]); }
    return out + "]";
}

// element ids of a view; `alias` = ticks of an alias array (its values are translated back to positions)
static std::string show_view(const nix::DataView &v, const std::vector<double> *alias) {
    nix::NDSize c = v.dataExtent();
    size_t n = 1;
    for (size_t i = 0; i < c.size(); i++) n *= static_cast<size_t>(c[i]);
    std::vector<double> buf(n > 0 ? n : 1, -1.0);
    if (n > 0) v.getData(nix::DataType::Double, buf.data(), c, nix::NDSize(c.size(), 0));
    std::string out = nds(c) + " [";
    for (size_t i = 0; i < n; i++) {
        if (i) out += " ";
        if (alias) {
            size_t k = 0;
            while (k < alias->size() && std::memcmp(&(*alias)[k], &buf[i], 8) != 0) k++;
            out += k < alias->size() ? enc_u64(k) : std::string("?") + enc_dbl(buf[i]);
        } else {
            out += enc_u64(static_cast<unsigned long long>(buf[i]));
        }
    }
    return out + "]";
}

static std::string show_views(const std::vector<nix::DataView> &vs, const std::vector<double> *alias) {
    std::string out = std::to_string(vs.size());
    for (auto &v : vs) out += " {" + show_view(v, alias) + "}";
    return out;
}

static const std::vector<double> *alias_of(const std::string &aid) {
    auto it = alias_ticks.find(aid);
    return it == alias_ticks.end() ? nullptr : &it->second;
}
static const std::vector<double> *alias_of_ref(size_t r) { return r < ref_aids.size() ? alias_of(ref_aids[r]) : nullptr; }
static const std::vector<double> *alias_of_feat(size_t k) { return k < feat_aids.size() ? alias_of(feat_aids[k]) : nullptr; }

static bool is_default(const std::string &m) { return m == "default"; }
static nix::RangeMatch rmode(const std::string &m) {
    if (m == "incl") return nix::RangeMatch::Inclusive;
    if (m == "excl") return nix::RangeMatch::Exclusive;
    throw std::logic_error("bad mode " + m);
}

#define WITH_MODE(m, plain, withmode) (is_default(m) ? (plain) : (withmode))
static void member_only(const std::string &m) { if (!is_default(m)) throw std::logic_error("member routes take mode default"); }

// the same request through every public entry point
static std::string routed(const std::string &c, const std::string &route, const std::vector<std::string> &t) {
    namespace u = nix::util;
    const std::string &m = t[2];
    if (c == "tagged") {
        size_t r = static_cast<size_t>(dec_u64(t[1]));
        nix::DataArray a = arr(ref_aids.at(r));
        const std::vector<double> *al = alias_of_ref(r);
        nix::ndsize_t rr = r;
        if (route == "idx") return show_view(WITH_MODE(m, u::taggedData(the_tag, rr), u::taggedData(the_tag, rr, rmode(m))), al);
        if (route == "arr") return show_view(WITH_MODE(m, u::taggedData(the_tag, a), u::taggedData(the_tag, a, rmode(m))), al);
        if (route == "r_idx") return show_view(WITH_MODE(m, u::retrieveData(the_tag, rr), u::retrieveData(the_tag, rr, rmode(m))), al);
        if (route == "r_arr") return show_view(WITH_MODE(m, u::retrieveData(the_tag, a), u::retrieveData(the_tag, a, rmode(m))), al);
        member_only(m);
        if (route == "m_idx") return show_view(the_tag.taggedData(r), al);
        if (route == "m_name") return show_view(the_tag.taggedData(a.name()), al);
        if (route == "m_id") return show_view(the_tag.taggedData(a.id()), al);
        if (route == "mr_idx") return show_view(the_tag.retrieveData(r), al);
        if (route == "mr_name") return show_view(the_tag.retrieveData(a.name()), al);
    }
    if (c == "feature") {
        size_t k = static_cast<size_t>(dec_u64(t[1]));
        nix::Feature f = the_tag.getFeature(static_cast<nix::ndsize_t>(k));
        const std::vector<double> *al = alias_of_feat(k);
        nix::ndsize_t kk = k;
        if (route == "idx") return show_view(WITH_MODE(m, u::featureData(the_tag, kk), u::featureData(the_tag, kk, rmode(m))), al);
        if (route == "feat") return show_view(WITH_MODE(m, u::featureData(the_tag, f), u::featureData(the_tag, f, rmode(m))), al);
        if (route == "r_idx") return show_view(WITH_MODE(m, u::retrieveFeatureData(the_tag, kk), u::retrieveFeatureData(the_tag, kk, rmode(m))), al);
        if (route == "r_feat") return show_view(WITH_MODE(m, u::retrieveFeatureData(the_tag, f), u::retrieveFeatureData(the_tag, f, rmode(m))), al);
        member_only(m);
        if (route == "m_idx") return show_view(the_tag.featureData(k), al);
        if (route == "m_fid") return show_view(the_tag.featureData(f.id()), al);
        if (route == "m_dname") return show_view(the_tag.featureData(f.data().name()), al);
        if (route == "mr_idx") return show_view(the_tag.retrieveFeatureData(k), al);
        if (route == "mr_fid") return show_view(the_tag.retrieveFeatureData(f.id()), al);
    }
    if (c == "mtagged1") {
        nix::ndsize_t r = dec_u64(t[1]), i = dec_u64(t[3]);
        nix::DataArray a = arr(ref_aids.at(static_cast<size_t>(r)));
        const std::vector<double> *al = alias_of_ref(static_cast<size_t>(r));
        if (route == "idx") return show_view(WITH_MODE(m, u::taggedData(the_mtag, i, r), u::taggedData(the_mtag, i, r, rmode(m))), al);
        if (route == "arr") return show_view(WITH_MODE(m, u::taggedData(the_mtag, i, a), u::taggedData(the_mtag, i, a, rmode(m))), al);
        if (route == "r_idx") return show_view(WITH_MODE(m, u::retrieveData(the_mtag, i, r), u::retrieveData(the_mtag, i, r, rmode(m))), al);
        if (route == "r_arr") return show_view(WITH_MODE(m, u::retrieveData(the_mtag, i, a), u::retrieveData(the_mtag, i, a, rmode(m))), al);
        member_only(m);
        size_t si = static_cast<size_t>(i), sr = static_cast<size_t>(r);
        if (route == "m_idx") return show_view(the_mtag.taggedData(si, sr), al);
        if (route == "m_name") return show_view(the_mtag.taggedData(si, a.name()), al);
        if (route == "m_id") return show_view(the_mtag.taggedData(si, a.id()), al);
        if (route == "mr_idx") return show_view(the_mtag.retrieveData(si, sr), al);
        if (route == "mr_name") return show_view(the_mtag.retrieveData(si, a.name()), al);
    }
    if (c == "mtagged") {
        std::vector<nix::ndsize_t> ix = idxs(t, 3);
        nix::ndsize_t r = dec_u64(t[1]);
        nix::DataArray a = arr(ref_aids.at(static_cast<size_t>(r)));
        const std::vector<double> *al = alias_of_ref(static_cast<size_t>(r));
        if (route == "idx") return show_views(WITH_MODE(m, u::taggedData(the_mtag, ix, r), u::taggedData(the_mtag, ix, r, rmode(m))), al);
        if (route == "arr") return show_views(WITH_MODE(m, u::taggedData(the_mtag, ix, a), u::taggedData(the_mtag, ix, a, rmode(m))), al);
        if (route == "r_idx") return show_views(WITH_MODE(m, u::retrieveData(the_mtag, ix, r), u::retrieveData(the_mtag, ix, r, rmode(m))), al);
        if (route == "r_arr") return show_views(WITH_MODE(m, u::retrieveData(the_mtag, ix, a), u::retrieveData(the_mtag, ix, a, rmode(m))), al);
        member_only(m);
        if (route == "m_idx") return show_views(the_mtag.taggedData(ix, r), al);
        if (route == "m_name") return show_views(the_mtag.taggedData(ix, a.name()), al);
        if (route == "m_id") return show_views(the_mtag.taggedData(ix, a.id()), al);
        if (route == "mr_idx") return show_views(the_mtag.retrieveData(ix, r), al);
        if (route == "mr_name") return show_views(the_mtag.retrieveData(ix, a.name()), al);
    }
    if (c == "mfeature1") {
        nix::ndsize_t k = dec_u64(t[1]), i = dec_u64(t[3]);
        nix::Feature f = the_mtag.getFeature(static_cast<size_t>(k));
        const std::vector<double> *al = alias_of_feat(static_cast<size_t>(k));
        if (route == "idx") return show_view(WITH_MODE(m, u::featureData(the_mtag, i, k), u::featureData(the_mtag, i, k, rmode(m))), al);
        if (route == "feat") return show_view(WITH_MODE(m, u::featureData(the_mtag, i, f), u::featureData(the_mtag, i, f, rmode(m))), al);
        if (route == "r_idx") return show_view(WITH_MODE(m, u::retrieveFeatureData(the_mtag, i, k), u::retrieveFeatureData(the_mtag, i, k, rmode(m))), al);
        if (route == "r_feat") return show_view(WITH_MODE(m, u::retrieveFeatureData(the_mtag, i, f), u::retrieveFeatureData(the_mtag, i, f, rmode(m))), al);
        member_only(m);
        size_t si = static_cast<size_t>(i), sk = static_cast<size_t>(k);
        if (route == "m_idx") return show_view(the_mtag.featureData(si, sk), al);
        if (route == "m_fid") return show_view(the_mtag.featureData(si, f.id()), al);
        if (route == "m_dname") return show_view(the_mtag.featureData(si, f.data().name()), al);
        if (route == "mr_idx") return show_view(the_mtag.retrieveFeatureData(si, sk), al);
        if (route == "mr_fid") return show_view(the_mtag.retrieveFeatureData(si, f.id()), al);
    }
    if (c == "mfeature") {
        std::vector<nix::ndsize_t> ix = idxs(t, 3);
        nix::ndsize_t k = dec_u64(t[1]);
        nix::Feature f = the_mtag.getFeature(static_cast<size_t>(k));
        const std::vector<double> *al = alias_of_feat(static_cast<size_t>(k));
        if (route == "idx") return show_views(WITH_MODE(m, u::featureData(the_mtag, ix, k), u::featureData(the_mtag, ix, k, rmode(m))), al);
        if (route == "feat") return show_views(WITH_MODE(m, u::featureData(the_mtag, ix, f), u::featureData(the_mtag, ix, f, rmode(m))), al);
        if (route == "r_idx") return show_views(WITH_MODE(m, u::retrieveFeatureData(the_mtag, ix, k), u::retrieveFeatureData(the_mtag, ix, k, rmode(m))), al);
        if (route == "r_feat") return show_views(WITH_MODE(m, u::retrieveFeatureData(the_mtag, ix, f), u::retrieveFeatureData(the_mtag, ix, f, rmode(m))), al);
    }
    throw std::logic_error("bad route " + c + "@" + route);
}

static std::string handle(const std::vector<std::string> &t) {
    size_t at = t[0].find('@');
    if (at != std::string::npos) return routed(t[0].substr(0, at), t[0].substr(at + 1), t);
    const std::string &c = t[0];
    if (c == "reset") { reset(); return "done"; }
    if (c == "arr") { make_array(t); return "done"; }
    if (c == "tag") {
        size_t p = 1;
        std::vector<double> pos = dbls(t, p), ext = dbls(t, p);
        std::vector<std::string> units = strs(t, p);
        the_tag = block.createTag(fresh("t"), "t", pos);
        if (!ext.empty()) the_tag.extent(ext);
        if (!units.empty()) the_tag.units(units);
        attach(the_tag);
        return "done";
    }
    if (c == "mtag") {
        size_t rank = static_cast<size_t>(dec_int(t[1]));
        nix::NDSize shape(rank);
        for (size_t i = 0; i < rank; i++) shape[i] = dec_u64(t[2 + i]);
        size_t p = 2 + rank;
        std::vector<double> pos = dbls(t, p), ext = dbls(t, p);
        std::vector<std::string> units = strs(t, p);
        nix::DataArray pa = doubles(fresh("p"), shape, pos);
        the_mtag = block.createMultiTag(fresh("m"), "t", pa);
        if (!ext.empty()) the_mtag.extents(doubles(fresh("e"), shape, ext));
        if (!units.empty()) the_mtag.units(units);
        attach(the_mtag);
        return "done";
    }
    if (c == "ref") {
        nix::DataArray a = arr(t[1]);
        ref_ids.push_back(a.id());
        ref_aids.push_back(t[1]);
        if (the_tag) the_tag.addReference(a);
        if (the_mtag) the_mtag.addReference(a);
        return "done";
    }
    if (c == "feat") {
        nix::DataArray a = arr(t[1]);
        nix::LinkType lt = t[2] == "tagged" ? nix::LinkType::Tagged : t[2] == "untagged" ? nix::LinkType::Untagged : nix::LinkType::Indexed;
        if (t[2] != "tagged" && t[2] != "untagged" && t[2] != "indexed") throw std::logic_error("bad link type");
        feat_ids.push_back({a.id(), lt});
        feat_aids.push_back(t[1]);
        if (the_tag) the_tag.createFeature(a, lt);
        if (the_mtag) the_mtag.createFeature(a, lt);
        return "done";
    }
    // ---- functions of dataAccess.hpp called directly
    if (c == "dimunit") {
        nix::Dimension d = arr(t[1]).getDimension(static_cast<nix::ndsize_t>(dec_u64(t[2]) + 1));
        return enc_str(nix::util::getDimensionUnit(d));
    }
    if (c == "indata") {
        size_t p = 2;
        size_t np = static_cast<size_t>(dec_int(t.at(p++)));
        nix::NDSize pos(np);
        for (size_t i = 0; i < np; i++) pos[i] = dec_u64(t.at(p++));
        size_t nc = static_cast<size_t>(dec_int(t.at(p++)));
        nix::NDSize cnt(nc);
        for (size_t i = 0; i < nc; i++) cnt[i] = dec_u64(t.at(p++));
        nix::DataArray a = arr(t[1]);
        return std::string(nix::util::positionInData(a, pos) ? "1" : "0") + " " + (nix::util::positionAndExtentInData(a, pos, cnt) ? "1" : "0");
    }
    if (c == "pti1") {
        nix::Dimension d = arr(t[1]).getDimension(static_cast<nix::ndsize_t>(dec_u64(t[2]) + 1));
        const std::string &r = t[5];
        nix::PositionMatch pm = r == "L" ? nix::PositionMatch::Less : r == "LE" ? nix::PositionMatch::LessOrEqual :
                                r == "GE" ? nix::PositionMatch::GreaterOrEqual : r == "G" ? nix::PositionMatch::Greater : nix::PositionMatch::Equal;
        if (r != "L" && r != "LE" && r != "GE" && r != "G" && r != "EQ") throw std::logic_error("bad rule");
        boost::optional<nix::ndsize_t> o = nix::util::positionToIndex(dec_dbl(t[3]), dec_str(t[4]), pm, d);
        return o ? enc_u64(*o) : std::string("none");
    }
    if (c == "ptiv") {
        nix::Dimension d = arr(t[1]).getDimension(static_cast<nix::ndsize_t>(dec_u64(t[2]) + 1));
        size_t p = 4;
        std::vector<double> ss = dbls(t, p), es = dbls(t, p);
        std::vector<std::string> us = strs(t, p);
        auto rs = nix::util::positionToIndex(ss, es, us, rmode(t[3]), d);
        std::string out = std::to_string(rs.size());
        for (auto &x : rs) out += x ? " [" + enc_u64(x->first) + " " + enc_u64(x->second) + "]" : std::string(" [none]");
        return out;
    }
    if (c == "wtagged" || c == "mwtagged1") {
        // write through the retrieved view, read the ARRAY back: the elements that changed, in the order of the view
        size_t r = static_cast<size_t>(dec_u64(t[1]));
        nix::DataArray a = arr(ref_aids.at(r));
        if (alias_of_ref(r)) throw std::logic_error("no write route on alias arrays");
        nix::DataView v = c == "wtagged"
            ? WITH_MODE(t[2], nix::util::taggedData(the_tag, static_cast<nix::ndsize_t>(r)), nix::util::taggedData(the_tag, static_cast<nix::ndsize_t>(r), rmode(t[2])))
            : WITH_MODE(t[2], nix::util::taggedData(the_mtag, dec_u64(t[3]), static_cast<nix::ndsize_t>(r)), nix::util::taggedData(the_mtag, dec_u64(t[3]), static_cast<nix::ndsize_t>(r), rmode(t[2])));
        nix::NDSize cnt = v.dataExtent();
        size_t n = 1;
        for (size_t i = 0; i < cnt.size(); i++) n *= static_cast<size_t>(cnt[i]);
        nix::NDSize shape = a.dataExtent();
        size_t total = 1;
        for (size_t i = 0; i < shape.size(); i++) total *= static_cast<size_t>(shape[i]);
        const double MARK = 1.0e6;
        std::vector<double> w(n > 0 ? n : 1);
        for (size_t i = 0; i < n; i++) w[i] = MARK + static_cast<double>(i);
        if (n > 0) v.setData(nix::DataType::Double, w.data(), cnt, nix::NDSize(cnt.size(), 0));
        std::vector<double> all(total > 0 ? total : 1);
        if (total > 0) a.getData(nix::DataType::Double, all.data(), shape, nix::NDSize(shape.size(), 0));
        std::vector<long long> ids(n, -1);
        bool clean = true;
        for (size_t k = 0; k < total; k++) {
            if (all[k] >= MARK) {
                size_t j = static_cast<size_t>(all[k] - MARK);
                if (j < n && ids[j] < 0) ids[j] = static_cast<long long>(k); else clean = false;
            } else if (all[k] != static_cast<double>(k)) clean = false;
        }
        // restore the array (its own flat index)
        for (size_t k = 0; k < total; k++) all[k] = static_cast<double>(k);
        if (total > 0) a.setData(nix::DataType::Double, all.data(), shape, nix::NDSize(shape.size(), 0));
        std::string out = nds(cnt) + " [";
        for (size_t j = 0; j < n; j++) { if (j) out += " "; out += ids[j] >= 0 ? enc_u64(static_cast<unsigned long long>(ids[j])) : std::string("?"); }
        return out + (clean ? "]" : "] DIRTY");
    }
    // ---- Tag
    if (c == "offcnt") {
        nix::NDSize off, cnt;
        if (is_default(t[2])) nix::util::getOffsetAndCount(the_tag, arr(t[1]), off, cnt);
        else nix::util::getOffsetAndCount(the_tag, arr(t[1]), off, cnt, rmode(t[2]));
        return nds(off) + " " + nds(cnt);
    }
    if (c == "tagged") {
        size_t r = static_cast<size_t>(dec_u64(t[1]));
        if (is_default(t[2])) return show_view(the_tag.taggedData(r), alias_of_ref(r));
        return show_view(nix::util::taggedData(the_tag, static_cast<nix::ndsize_t>(r), rmode(t[2])), alias_of_ref(r));
    }
    if (c == "taggeda") {
        if (is_default(t[2])) return show_view(nix::util::taggedData(the_tag, arr(t[1])), alias_of(t[1]));
        return show_view(nix::util::taggedData(the_tag, arr(t[1]), rmode(t[2])), alias_of(t[1]));
    }
    if (c == "feature") {
        size_t k = static_cast<size_t>(dec_u64(t[1]));
        if (is_default(t[2])) return show_view(the_tag.featureData(k), alias_of_feat(k));
        return show_view(nix::util::featureData(the_tag, static_cast<nix::ndsize_t>(k), rmode(t[2])), alias_of_feat(k));
    }
    // ---- MultiTag
    if (c == "moffcnt") {
        std::vector<nix::NDSize> offs, cnts;
        std::vector<nix::ndsize_t> ix = idxs(t, 3);
        // the default of the (misspelt) declaration is Inclusive
        nix::util::getOffsetAndCount(the_mtag, arr(t[1]), ix, offs, cnts, is_default(t[2]) ? nix::RangeMatch::Inclusive : rmode(t[2]));
        std::string out = std::to_string(offs.size());
        for (size_t i = 0; i < offs.size(); i++) out += " {" + nds(offs[i]) + " " + nds(cnts.at(i)) + "}";
        return out;
    }
    if (c == "moffcnt1") {
        nix::NDSize off, cnt;
        if (is_default(t[2])) nix::util::getOffsetAndCount(the_mtag, arr(t[1]), dec_u64(t[3]), off, cnt);
        else nix::util::getOffsetAndCount(the_mtag, arr(t[1]), dec_u64(t[3]), off, cnt, rmode(t[2]));
        return nds(off) + " " + nds(cnt);
    }
    if (c == "mtagged") {
        std::vector<nix::ndsize_t> ix = idxs(t, 3);
        nix::ndsize_t r = dec_u64(t[1]);
        if (is_default(t[2])) return show_views(the_mtag.taggedData(ix, r), alias_of_ref(r));
        return show_views(nix::util::taggedData(the_mtag, ix, r, rmode(t[2])), alias_of_ref(r));
    }
    if (c == "mtagged1") {
        nix::ndsize_t r = dec_u64(t[1]), i = dec_u64(t[3]);
        if (is_default(t[2])) return show_view(the_mtag.taggedData(static_cast<size_t>(i), static_cast<size_t>(r)), alias_of_ref(r));
        return show_view(nix::util::taggedData(the_mtag, i, r, rmode(t[2])), alias_of_ref(r));
    }
    if (c == "mfeature") {
        std::vector<nix::ndsize_t> ix = idxs(t, 3);
        nix::ndsize_t k = dec_u64(t[1]);
        if (is_default(t[2])) return show_views(nix::util::featureData(the_mtag, ix, k), alias_of_feat(k));
        return show_views(nix::util::featureData(the_mtag, ix, k, rmode(t[2])), alias_of_feat(k));
    }
    if (c == "mfeature1") {
        nix::ndsize_t k = dec_u64(t[1]), i = dec_u64(t[3]);
        if (is_default(t[2])) return show_view(the_mtag.featureData(static_cast<size_t>(i), static_cast<size_t>(k)), alias_of_feat(k));
        return show_view(nix::util::featureData(the_mtag, i, k, rmode(t[2])), alias_of_feat(k));
    }
    throw std::logic_error("bad command " + c);
}

static int main_(int argc, char **argv) {
    if (argc < 3) { std::cerr << "usage: drv <casefile> <workdir>\n"; return 2; }
    H5Eset_auto2(H5E_DEFAULT, nullptr, nullptr);
    workdir = argv[2];
    open_file();
    int rc = run_file(argv[1], [](const std::vector<std::string> &t) {
        std::string s = handle(t);
        return s;
    });
    block = nix::none; the_tag = nix::none; the_mtag = nix::none; arrays.clear();
    file.close();
    return rc;
}

} // namespace retr
#endif
