// C13 correspondence driver: dimension descriptors of ONE DataArray over the public nix API.
// One case = one history on a fresh file; every line is answered with exactly one line.
//
//   new <dtype> <rank> <len> <nframes> { <s:name> <rows> <ncols> { <s:col> <s:unit> <type> }* }* <nforeign> { frame }*
//        fresh file; block "b" with the frames and the array "a" (shape [len], [len 2], [len 2 2]);
//        a second block "b2" holds the "foreign" frames (same syntax; their names may equal local names)
//   append_set <n> <s:label>*                      DataArray::appendSetDimension(labels)
//   append_range <s:label> <s:unit> <d:tick>*      DataArray::appendRangeDimension(ticks, label, unit)
//   append_sampled <d:interval> <s:label> <s:unit> <d:offset>   DataArray::appendSampledDimension(...)
//   append_alias                                   DataArray::appendAliasRangeDimension()
//   append_df_idx <f> <col> | append_df_name <f> <s:col> | append_df <f>   f = frame ordinal | none | foreign:<k>
//   drop_b2                                        File::deleteBlock("b2"); the foreign handles stay in the driver's hands
//   recreate <k>                                   Block::deleteDataFrame(name of local frame k); createDataFrame(same name, same
//                                                  columns); the OLD handle becomes the next foreign frame (a stale handle)
//   create_set <id> | create_range <id> <d:tick>* | create_sampled <id> <d:interval> | create_alias   (deprecated forms)
//   delete_dims                                    DataArray::deleteDimensions()
//   count | get <i> | dims                         dimensionCount(), getDimension(i), dimensions()
//   s_label <i> <s:..|none> | s_unit <i> <s:..|none> | s_interval <i> <d:> | s_offset <i> <d:|none>
//   t_labels <i> none | t_labels <i> <n> <s:>* | t_label <i> <s:..|none>
//   r_ticks <i> <d:>* | r_label <i> <s:..|none> | r_unit <i> <s:..|none>
//   r_tickat <i> <k> | r_ticks_sc <i> <start> <count> | r_axis <i> <count> <start>
//   f_q <i> <label|unit|type> <col|->              DataFrameDimension::label/unit/columnDataType(col)
//   a_label <s:..|none> | a_unit <s:..|none> | a_data <d:>*     DataArray::label/unit, setData(std::vector<double>)
//   reopen ro|rw
//   observe                                        complete dimension state through every getter
// setters on dimension <i> go through getDimension(i).as<Kind>Dimension()
#include "common.hpp"
#include <memory>

using namespace nixv;
using nix::DataType;
using nix::NDSize;

static std::string workdir;
static int fileno_ = 0;

struct Session {
    nix::File file;
    nix::Block block, block2;
    nix::DataArray arr;
    std::vector<nix::DataFrame> frames;
    std::vector<std::string> fnames;
    std::vector<nix::DataFrame> foreign;
    std::vector<std::string> foreign_names;      // "" = not in the file any more after a reopen (stale handle)
    bool b2_alive = true;
    bool ro = false;
    DataType dt = DataType::Nothing;
    size_t rank = 0;
    std::string path;
};
static Session S;

static DataType parse_dtype(const std::string &s) {
    if (s == "Bool") return DataType::Bool;
    if (s == "Int8") return DataType::Int8;
    if (s == "Int16") return DataType::Int16;
    if (s == "Int32") return DataType::Int32;
    if (s == "Int64") return DataType::Int64;
    if (s == "UInt8") return DataType::UInt8;
    if (s == "UInt16") return DataType::UInt16;
    if (s == "UInt32") return DataType::UInt32;
    if (s == "UInt64") return DataType::UInt64;
    if (s == "Float") return DataType::Float;
    if (s == "Double") return DataType::Double;
    if (s == "String") return DataType::String;
    throw std::logic_error("bad dtype " + s);
}

static std::string opt_s(const boost::optional<std::string> &o) { return o ? enc_str(*o) : std::string("-"); }
static std::string opt_d(const boost::optional<double> &o) { return o ? enc_dbl(*o) : std::string("-"); }
static std::string list_d(const std::vector<double> &v) {
    std::string o = "[";
    for (double d : v) o += " " + enc_dbl(d);
    return o + " ]";
}
static std::string list_s(const std::vector<std::string> &v) {
    std::string o = "[";
    for (const std::string &s : v) o += " " + enc_str(s);
    return o + " ]";
}

// one observed field: the value or "!<exception class>"
template<typename F> static std::string fld(F f) {
    try { return f(); } catch (...) { return "!" + classify(); }
}

static void close_all() {
    S.arr = nix::none; S.frames.clear(); for (auto &f : S.foreign) f = nix::DataFrame(); S.block = nix::none; S.block2 = nix::none;
    if (S.file) { try { S.file.close(); } catch (...) {} }
    S.file = nix::none;
}

static void fetch() {
    S.block = S.file.getBlock("b");
    if (S.b2_alive) S.block2 = S.file.getBlock("b2");
    S.arr = S.block.getDataArray("a");
    S.frames.clear();
    for (const std::string &n : S.fnames) S.frames.push_back(S.block.getDataFrame(n));
    for (size_t k = 0; k < S.foreign.size(); k++) {
        if (S.b2_alive && !S.foreign_names[k].empty()) S.foreign[k] = S.block2.getDataFrame(S.foreign_names[k]);
        else { S.foreign[k] = nix::DataFrame(); S.foreign_names[k] = ""; }
    }
}

static nix::DataFrame frame_arg(const std::string &t) {
    if (t == "none") return nix::DataFrame();
    if (t.compare(0, 8, "foreign:") == 0) {
        size_t k = dec_u64(t.substr(8));
        if (k >= S.foreign.size()) throw std::logic_error("bad foreign frame ordinal");
        return S.foreign[k];
    }
    size_t k = dec_u64(t);
    if (k >= S.frames.size()) throw std::logic_error("bad frame ordinal");
    return S.frames[k];
}

static char kind_letter(nix::DimensionType t) {
    switch (t) {
    case nix::DimensionType::Sample: return 'S';
    case nix::DimensionType::Set: return 'T';
    case nix::DimensionType::Range: return 'R';
    case nix::DimensionType::DataFrame: return 'F';
    }
    return '?';
}

static bool numeric1() { return S.rank == 1 && nix::data_type_is_numeric(S.dt); }

static std::string dump_dim(nix::ndsize_t i) {
    std::ostringstream o;
    nix::Dimension d = S.arr.getDimension(i);
    o << i << ":";
    if (!d) { o << "none"; return o.str(); }
    nix::DimensionType ty = d.dimensionType();
    o << kind_letter(ty) << " " << fld([&] { return enc_u64(d.index()); });
    if (ty == nix::DimensionType::Sample) {
        nix::SampledDimension sd = d.asSampledDimension();
        o << " " << fld([&] { return opt_s(sd.label()); }) << " " << fld([&] { return opt_s(sd.unit()); })
          << " " << fld([&] { return enc_dbl(sd.samplingInterval()); }) << " " << fld([&] { return opt_d(sd.offset()); });
    } else if (ty == nix::DimensionType::Set) {
        nix::SetDimension td = d.asSetDimension();
        o << " " << fld([&] { return opt_s(td.label()); }) << " " << fld([&] { return list_s(td.labels()); });
    } else if (ty == nix::DimensionType::Range) {
        nix::RangeDimension rd = d.asRangeDimension();
        o << " " << fld([&] { return std::string(rd.alias() ? "1" : "0"); }) << " " << fld([&] { return opt_s(rd.label()); })
          << " " << fld([&] { return opt_s(rd.unit()); }) << " " << fld([&] { return list_d(rd.ticks()); });
    } else {
        nix::DataFrameDimension fd = d.asDataFrameDimension();
        o << " " << fld([&] { boost::optional<unsigned> c = fd.columnIndex(); return c ? enc_u64(*c) : std::string("-"); })
          << " " << fld([&] { nix::DataFrame df = fd.data(); return enc_str(df.name()); })
          << " " << fld([&] { return enc_str(fd.label()); })
          << " " << fld([&] { return enc_str(fd.unit()); })
          << " " << fld([&] { return nix::data_type_to_string(fd.columnDataType()); })
          << " " << fld([&] { return enc_u64(fd.size()); });
    }
    return o.str();
}

static std::string observe() {
    std::ostringstream o;
    nix::ndsize_t n = S.arr.dimensionCount();
    o << "n=" << n;
    for (nix::ndsize_t i = 1; i <= n; i++) o << " | " << dump_dim(i);
    // the neighbours of the index range: nothing may live there
    o << " | " << fld([&] { return std::string(S.arr.getDimension(0) ? "0:some" : "0:none"); });
    o << " " << fld([&] { return std::string(S.arr.getDimension(n + 1) ? "+1:some" : "+1:none"); });
    o << " | A " << fld([&] { return opt_s(S.arr.label()); }) << " " << fld([&] { return opt_s(S.arr.unit()); }) << " ";
    if (numeric1()) {
        o << fld([&] { std::vector<double> v; S.arr.getData(v); return list_d(v); });
    } else {
        o << "-";
    }
    return o.str();
}

static std::vector<double> dbls(const std::vector<std::string> &t, size_t from) {
    std::vector<double> v;
    for (size_t i = from; i < t.size(); i++) v.push_back(dec_dbl(t[i]));
    return v;
}

static std::string handle(const std::vector<std::string> &t) {
    const std::string &c = t.at(0);
    std::ostringstream o;
    if (c == "new") {
        close_all();
        S.dt = parse_dtype(t.at(1));
        S.rank = dec_u64(t.at(2));
        size_t len = dec_u64(t.at(3));
        size_t nfr = dec_u64(t.at(4));
        S.path = workdir + "/c13-" + std::to_string(fileno_++ % 4) + ".nix";
        S.file = nix::File::open(S.path, nix::FileMode::Overwrite);
        S.block = S.file.createBlock("b", "t");
        S.block2 = S.file.createBlock("b2", "t");
        S.fnames.clear(); S.foreign.clear(); S.foreign_names.clear(); S.b2_alive = true; S.ro = false;
        size_t p = 5;
        auto make_frame = [&](nix::Block &blk) {
            std::string name = dec_str(t.at(p++));
            size_t rows = dec_u64(t.at(p++));
            size_t nc = dec_u64(t.at(p++));
            std::vector<nix::Column> cols;
            for (size_t k = 0; k < nc; k++) {
                nix::Column col;
                col.name = dec_str(t.at(p++));
                col.unit = dec_str(t.at(p++));
                col.dtype = parse_dtype(t.at(p++));
                cols.push_back(col);
            }
            nix::DataFrame df = blk.createDataFrame(name, "t", cols);
            df.rows(rows);
            return name;
        };
        for (size_t f = 0; f < nfr; f++) S.fnames.push_back(make_frame(S.block));
        size_t nfo = dec_u64(t.at(p++));
        for (size_t f = 0; f < nfo; f++) { S.foreign_names.push_back(make_frame(S.block2)); S.foreign.push_back(nix::DataFrame()); }
        NDSize shape(S.rank, 2);
        shape[0] = len;
        S.block.createDataArray("a", "t", S.dt, shape);
        fetch();
        return "-";
    }
    if (c == "reopen") {
        close_all();
        S.ro = t.at(1) == "ro";
        S.file = nix::File::open(S.path, S.ro ? nix::FileMode::ReadOnly : nix::FileMode::ReadWrite);
        fetch();
        return "-";
    }
    if (!S.arr) throw nix::UninitializedEntity();
    if (c == "observe") return observe();
    if (c == "drop_b2") {
        if (S.ro) throw std::logic_error("drop_b2 is not exercised on a read-only session");
        bool r = S.file.deleteBlock("b2");
        S.block2 = nix::none; S.b2_alive = false;
        return r ? "1" : "0";
    }
    if (c == "recreate") {
        if (S.ro) throw std::logic_error("recreate is not exercised on a read-only session");
        size_t k = dec_u64(t.at(1));
        if (k >= S.frames.size()) throw std::logic_error("bad frame ordinal");
        nix::DataFrame old = S.frames[k];
        std::vector<nix::Column> cols = old.columns();
        nix::ndsize_t rows = old.rows();
        S.block.deleteDataFrame(S.fnames[k]);
        nix::DataFrame nf = S.block.createDataFrame(S.fnames[k], "t", cols);
        nf.rows(rows);
        S.frames[k] = nf;
        S.foreign.push_back(old); S.foreign_names.push_back("");
        return "-";
    }

    // ---- appends ----
    if (c == "append_set") {
        size_t n = dec_u64(t.at(1));
        std::vector<std::string> labels;
        for (size_t i = 0; i < n; i++) labels.push_back(dec_str(t.at(2 + i)));
        nix::SetDimension d = S.arr.appendSetDimension(labels);
        return enc_u64(d.index());
    }
    if (c == "append_range") {
        nix::RangeDimension d = S.arr.appendRangeDimension(dbls(t, 3), dec_str(t.at(1)), dec_str(t.at(2)));
        return enc_u64(d.index());
    }
    if (c == "append_sampled") {
        nix::SampledDimension d = S.arr.appendSampledDimension(dec_dbl(t.at(1)), dec_str(t.at(2)), dec_str(t.at(3)), dec_dbl(t.at(4)));
        return enc_u64(d.index());
    }
    if (c == "append_alias") {
        nix::RangeDimension d = S.arr.appendAliasRangeDimension();
        return enc_u64(d.index());
    }
    if (c == "append_df_idx") {
        nix::DataFrameDimension d = S.arr.appendDataFrameDimension(frame_arg(t.at(1)), static_cast<unsigned>(dec_u64(t.at(2))));
        return enc_u64(nix::Dimension(d).index());
    }
    if (c == "append_df_name") {
        nix::DataFrameDimension d = S.arr.appendDataFrameDimension(frame_arg(t.at(1)), dec_str(t.at(2)));
        return enc_u64(nix::Dimension(d).index());
    }
    if (c == "append_df") {
        nix::DataFrameDimension d = S.arr.appendDataFrameDimension(frame_arg(t.at(1)));
        return enc_u64(nix::Dimension(d).index());
    }
#pragma GCC diagnostic push
#pragma GCC diagnostic ignored "-Wdeprecated-declarations"
    if (c == "create_set") { nix::SetDimension d = S.arr.createSetDimension(dec_u64(t.at(1))); return enc_u64(d.index()); }
    if (c == "create_range") { nix::RangeDimension d = S.arr.createRangeDimension(dec_u64(t.at(1)), dbls(t, 2)); return enc_u64(d.index()); }
    if (c == "create_sampled") { nix::SampledDimension d = S.arr.createSampledDimension(dec_u64(t.at(1)), dec_dbl(t.at(2))); return enc_u64(d.index()); }
    if (c == "create_alias") { nix::RangeDimension d = S.arr.createAliasRangeDimension(); return enc_u64(d.index()); }
#pragma GCC diagnostic pop
    if (c == "delete_dims") return S.arr.deleteDimensions() ? "1" : "0";

    // ---- queries on the array ----
    if (c == "count") return enc_u64(S.arr.dimensionCount());
    if (c == "get") {
        nix::ndsize_t i = dec_u64(t.at(1));
        nix::Dimension d = S.arr.getDimension(i);
        if (!d) return "none";
        o << kind_letter(d.dimensionType()) << " " << d.index();
        return o.str();
    }
    if (c == "dims") {
        std::vector<nix::Dimension> ds = S.arr.dimensions();
        o << "[";
        for (nix::Dimension &d : ds) o << " " << d.index() << kind_letter(d.dimensionType());
        o << " ]";
        return o.str();
    }

    // ---- array label / unit / data ----
    if (c == "a_label") { if (t.at(1) == "none") S.arr.label(nix::none); else S.arr.label(dec_str(t.at(1))); return "-"; }
    if (c == "a_unit") { if (t.at(1) == "none") S.arr.unit(nix::none); else S.arr.unit(dec_str(t.at(1))); return "-"; }
    if (c == "a_data") { std::vector<double> v = dbls(t, 1); S.arr.setData(v); return "-"; }

    // ---- everything else addresses dimension <i> ----
    nix::ndsize_t i = dec_u64(t.at(1));
    nix::Dimension d = S.arr.getDimension(i);
    if (c[0] == 's') {
        nix::SampledDimension sd = d.asSampledDimension();
        if (c == "s_label") { if (t.at(2) == "none") sd.label(nix::none); else sd.label(dec_str(t.at(2))); return "-"; }
        if (c == "s_unit") { if (t.at(2) == "none") sd.unit(nix::none); else sd.unit(dec_str(t.at(2))); return "-"; }
        if (c == "s_interval") { sd.samplingInterval(dec_dbl(t.at(2))); return "-"; }
        if (c == "s_offset") { if (t.at(2) == "none") sd.offset(nix::none); else sd.offset(dec_dbl(t.at(2))); return "-"; }
    }
    if (c[0] == 't') {
        nix::SetDimension td = d.asSetDimension();
        if (c == "t_label") { if (t.at(2) == "none") td.label(nix::none); else td.label(dec_str(t.at(2))); return "-"; }
        if (c == "t_labels") {
            if (t.at(2) == "none") { td.labels(nix::none); return "-"; }
            size_t n = dec_u64(t.at(2));
            std::vector<std::string> labels;
            for (size_t k = 0; k < n; k++) labels.push_back(dec_str(t.at(3 + k)));
            td.labels(labels);
            return "-";
        }
    }
    if (c[0] == 'r') {
        nix::RangeDimension rd = d.asRangeDimension();
        if (c == "r_label") { if (t.at(2) == "none") rd.label(nix::none); else rd.label(dec_str(t.at(2))); return "-"; }
        if (c == "r_unit") { if (t.at(2) == "none") rd.unit(nix::none); else rd.unit(dec_str(t.at(2))); return "-"; }
        if (c == "r_ticks") { rd.ticks(dbls(t, 2)); return "-"; }
        if (c == "r_tickat") return enc_dbl(rd.tickAt(dec_u64(t.at(2))));
        if (c == "r_ticks_sc") return list_d(rd.ticks(dec_u64(t.at(2)), static_cast<size_t>(dec_u64(t.at(3)))));
        if (c == "r_axis") return list_d(rd.axis(dec_u64(t.at(2)), dec_u64(t.at(3))));
    }
    if (c == "f_q") {
        nix::DataFrameDimension fd = d.asDataFrameDimension();
        boost::optional<unsigned> col;
        if (t.at(3) != "-") col = static_cast<unsigned>(dec_u64(t.at(3)));
        if (t.at(2) == "label") return enc_str(fd.label(col));
        if (t.at(2) == "unit") return enc_str(fd.unit(col));
        if (t.at(2) == "type") return nix::data_type_to_string(fd.columnDataType(col));
    }
    throw std::logic_error("bad command " + c);
}

int main(int argc, char **argv) {
    if (argc < 3) { std::cerr << "usage: drv_C13 <casefile> <workdir>\n"; return 2; }
    workdir = argv[2];
    int rc = run_file(argv[1], handle);
    close_all();
    return rc;
}
