// C13 correspondence driver: dimension descriptors of ONE DataArray over the public nix API.
// One case = one history on a fresh file; every line is answered with exactly one line.
//
//   new <dtype> <rank> <len> <nframes> { <s:name> <rows> <ncols> { <s:col> <s:unit> <type> }* }* <nforeign> { frame }*
//        fresh file; block "b" with the frames and the array "a" (shape [len], [len 2], [len 2 2]);
//        a second block "b2" holds the "foreign" frames (same syntax; their names may equal local names)
//   append_set <n> <s:label>*                      DataArray::appendSetDimension(labels)
//   append_range <s:label> <s:unit> <d:tick>*      DataArray::appendRangeDimension(ticks, label, unit)
//   append_sampled <d:interval> <s:label> <s:unit> <d:offset>   DataArray::appendSampledDimension(...)
//   append_alias                                   DataArray::appendAliasRangeDimension()
//   append_df_idx <f> <col> | append_df_name <f> <s:col> | append_df <f>   f = frame ordinal | none | foreign:<k>
//   drop_b2                                        File::deleteBlock("b2"); the foreign handles stay in the driver's hands
//   recreate <k>                                   Block::deleteDataFrame(name of local frame k); createDataFrame(same name, same
//                                                  columns); the OLD handle becomes the next foreign frame (a stale handle)
//   create_set <id> | create_range <id> <d:tick>* | create_sampled <id> <d:interval> | create_alias   (deprecated forms)
//   delete_dims                                    DataArray::deleteDimensions()
//   count | get <i> | dims                         dimensionCount(), getDimension(i), dimensions()
//   s_label <i> <s:..|none> | s_unit <i> <s:..|none> | s_interval <i> <d:> | s_offset <i> <d:|none>
//   t_labels <i> none | t_labels <i> <n> <s:>* | t_label <i> <s:..|none>
//   r_ticks <i> <d:>* | r_label <i> <s:..|none> | r_unit <i> <s:..|none>
//   r_tickat <i> <k> | r_ticks_sc <i> <start> <count> | r_axis <i> <count> <start>
//   f_q <i> <label|unit|type> <col|->              DataFrameDimension::label/unit/columnDataType(col)
//   a_label <s:..|none> | a_unit <s:..|none> | a_data <d:>*     DataArray::label/unit, setData(std::vector<double>)
//   reopen ro|rw
//   observe                                        complete dimension state through every getter
//   s_at <i> <k> | r_at <i> <k>                    SampledDimension::operator[](k) / RangeDimension::operator[](k)
//   dims_f <S|T|R|F>                               DataArray::dimensions(filter: dimensionType() == kind)
//   range_of_array                                 RangeDimension(const DataArray&): rank check, yields a none handle
//   f_ticks <i> <col|-> <resize 0|1> <vsize> <offset>   DataFrameDimension::ticks<T>(vector<T>(vsize), col, resize, offset),
//                                                  T = the column's type
// Every frame cell is filled at creation: numeric r*10+c (Double: +0.5), String "r<r>c<c>", Bool (r+c) odd.
// A line may start with via<k>: the SAME request, the dimension handle obtained by another public route
//   via1  X x; x = getDimension(i)                         X::operator=(const Dimension&)
//   via2  dimensions(filter: index() == i) -> as<X>()      DataArray::dimensions(filter)
//   via3  Dimension(const X&), Dimension::operator=(const X&), X::operator=(const X&) round trip
//   (no prefix) getDimension(i).as<X>Dimension()
#include "common.hpp"
#include <memory>

using namespace nixv;
using nix::DataType;
using nix::NDSize;

static std::string workdir;
static int fileno_ = 0;

struct Session {
    nix::File file;
    nix::Block block, block2;
    nix::DataArray arr;
    std::vector<nix::DataFrame> frames;
    std::vector<std::string> fnames;
    std::vector<nix::DataFrame> foreign;
    std::vector<std::string> foreign_names;      // "" = not in the file any more after a reopen (stale handle)
    bool b2_alive = true;
    bool ro = false;
    DataType dt = DataType::Nothing;
    size_t rank = 0;
    std::string path;
};
static Session S;

static DataType parse_dtype(const std::string &s) {
    if (s == "Bool") return DataType::Bool;
    if (s == "Int8") return DataType::Int8;
    if (s == "Int16") return DataType::Int16;
    if (s == "Int32") return DataType::Int32;
    if (s == "Int64") return DataType::Int64;
    if (s == "UInt8") return DataType::UInt8;
    if (s == "UInt16") return DataType::UInt16;
    if (s == "UInt32") return DataType::UInt32;
    if (s == "UInt64") return DataType::UInt64;
    if (s == "Float") return DataType::Float;
    if (s == "Double") return DataType::Double;
    if (s == "String") return DataType::String;
    throw std::logic_error("bad dtype " + s);
}

static std::string opt_s(const boost::optional<std::string> &o) { return o ? enc_str(*o) : std::string("-"); }
static std::string opt_d(const boost::optional<double> &o) { return o ? enc_dbl(*o) : std::string("-"); }
static std::string list_d(const std::vector<double> &v) {
    std::string o = "[";
    for (double d : v) o += " " + enc_dbl(d);
    return o + " ]";
}
static std::string list_s(const std::vector<std::string> &v) {
    std::string o = "[";
    for (const std::string &s : v) o += " " + enc_str(s);
    return o + " ]";
}

// one observed field: the value or "!<exception class>"
template<typename F> static std::string fld(F f) {
    try { return f(); } catch (...) { return "!" + classify(); }
}

static void close_all() {
    S.arr = nix::none; S.frames.clear(); for (auto &f : S.foreign) f = nix::DataFrame(); S.block = nix::none; S.block2 = nix::none;
    if (S.file) { try { S.file.close(); } catch (...) {} }
    S.file = nix::none;
}

static void fetch() {
    S.block = S.file.getBlock("b");
    if (S.b2_alive) S.block2 = S.file.getBlock("b2");
    S.arr = S.block.getDataArray("a");
    S.frames.clear();
    for (const std::string &n : S.fnames) S.frames.push_back(S.block.getDataFrame(n));
    for (size_t k = 0; k < S.foreign.size(); k++) {
        if (S.b2_alive && !S.foreign_names[k].empty()) S.foreign[k] = S.block2.getDataFrame(S.foreign_names[k]);
        else { S.foreign[k] = nix::DataFrame(); S.foreign_names[k] = ""; }
    }
}

static nix::DataFrame frame_arg(const std::string &t) {
    if (t == "none") return nix::DataFrame();
    if (t.compare(0, 8, "foreign:") == 0) {
        size_t k = dec_u64(t.substr(8));
        if (k >= S.foreign.size()) throw std::logic_error("bad foreign frame ordinal");
        return S.foreign[k];
    }
    size_t k = dec_u64(t);
    if (k >= S.frames.size()) throw std::logic_error("bad frame ordinal");
    return S.frames[k];
}

static int ROUTE = 0;

static nix::Dimension fetch_dim(nix::ndsize_t i) {
    if (ROUTE == 2) {
        std::vector<nix::Dimension> v = S.arr.dimensions([i](const nix::Dimension &d) { return d.index() == i; });
        return v.empty() ? nix::Dimension() : v[0];
    }
    return S.arr.getDimension(i);
}

// the same descriptor as an X, by the chosen route
template<typename X> static X as_kind(const nix::Dimension &d);
template<> nix::SampledDimension as_kind<nix::SampledDimension>(const nix::Dimension &d) { return d.asSampledDimension(); }
template<> nix::SetDimension as_kind<nix::SetDimension>(const nix::Dimension &d) { return d.asSetDimension(); }
template<> nix::RangeDimension as_kind<nix::RangeDimension>(const nix::Dimension &d) { return d.asRangeDimension(); }
template<> nix::DataFrameDimension as_kind<nix::DataFrameDimension>(const nix::Dimension &d) { return d.asDataFrameDimension(); }

template<typename X> static X routed(const nix::Dimension &d) {
    if (ROUTE == 1) { X x; x = d; return x; }                       // X::operator=(const Dimension&)
    if (ROUTE == 3) {
        X x = as_kind<X>(d);
        nix::Dimension g(x);                                        // Dimension(const X&)
        nix::Dimension h;
        h = x;                                                      // Dimension::operator=(const X&)
        if (g.index() != h.index() || g.dimensionType() != h.dimensionType()) throw std::logic_error("conversion changed the descriptor");
        X y;
        y = as_kind<X>(h);                                          // X::operator=(const X&)
        return y;
    }
    return as_kind<X>(d);
}

template<typename T> static std::string enc_tick(const T &v) { return std::to_string(v); }
template<> std::string enc_tick<double>(const double &v) { return enc_dbl(v); }
template<> std::string enc_tick<std::string>(const std::string &v) { return enc_str(v); }

template<typename T> static std::string frame_ticks(nix::DataFrameDimension &fd, boost::optional<unsigned> col, bool resize, size_t vsize, nix::ndsize_t off) {
    std::vector<T> v(vsize);
    fd.ticks(v, col, resize, off);
    std::string o = "[";
    for (const T &x : v) o += " " + enc_tick<T>(x);
    return o + " ]";
}

static void fill_frame(nix::DataFrame &df) {
    std::vector<nix::Column> cols = df.columns();
    nix::ndsize_t rows = df.rows();
    if (rows == 0) return;
    for (size_t c = 0; c < cols.size(); c++) {
        unsigned cu = static_cast<unsigned>(c);
        switch (cols[c].dtype) {
        case DataType::Double: { std::vector<double> v; for (nix::ndsize_t r = 0; r < rows; r++) v.push_back(r * 10 + c + 0.5); df.writeColumn(cu, v); break; }
        case DataType::Int32: { std::vector<int32_t> v; for (nix::ndsize_t r = 0; r < rows; r++) v.push_back(static_cast<int32_t>(r * 10 + c)); df.writeColumn(cu, v); break; }
        case DataType::UInt32: { std::vector<uint32_t> v; for (nix::ndsize_t r = 0; r < rows; r++) v.push_back(static_cast<uint32_t>(r * 10 + c)); df.writeColumn(cu, v); break; }
        case DataType::Int64: { std::vector<int64_t> v; for (nix::ndsize_t r = 0; r < rows; r++) v.push_back(static_cast<int64_t>(r * 10 + c)); df.writeColumn(cu, v); break; }
        case DataType::UInt64: { std::vector<uint64_t> v; for (nix::ndsize_t r = 0; r < rows; r++) v.push_back(static_cast<uint64_t>(r * 10 + c)); df.writeColumn(cu, v); break; }
        case DataType::String: { std::vector<std::string> v; for (nix::ndsize_t r = 0; r < rows; r++) v.push_back("r" + std::to_string(r) + "c" + std::to_string(c)); df.writeColumn(cu, v); break; }
        case DataType::Bool: { for (nix::ndsize_t r = 0; r < rows; r++) df.writeCells(r, {nix::Cell(cu, nix::Variant(static_cast<bool>((r + c) % 2 == 1)))}); break; }
        default: break;
        }
    }
}

static char kind_letter(nix::DimensionType t) {
    switch (t) {
    case nix::DimensionType::Sample: return 'S';
    case nix::DimensionType::Set: return 'T';
    case nix::DimensionType::Range: return 'R';
    case nix::DimensionType::DataFrame: return 'F';
    }
    return '?';
}

static bool numeric1() { return S.rank == 1 && nix::data_type_is_numeric(S.dt); }

static std::string dump_dim(nix::ndsize_t i) {
    std::ostringstream o;
    nix::Dimension d = S.arr.getDimension(i);
    o << i << ":";
    if (!d) { o << "none"; return o.str(); }
    nix::DimensionType ty = d.dimensionType();
    o << kind_letter(ty) << " " << fld([&] { return enc_u64(d.index()); });
    if (ty == nix::DimensionType::Sample) {
        nix::SampledDimension sd = d.asSampledDimension();
        o << " " << fld([&] { return opt_s(sd.label()); }) << " " << fld([&] { return opt_s(sd.unit()); })
          << " " << fld([&] { return enc_dbl(sd.samplingInterval()); }) << " " << fld([&] { return opt_d(sd.offset()); });
    } else if (ty == nix::DimensionType::Set) {
        nix::SetDimension td = d.asSetDimension();
        o << " " << fld([&] { return opt_s(td.label()); }) << " " << fld([&] { return list_s(td.labels()); });
    } else if (ty == nix::DimensionType::Range) {
        nix::RangeDimension rd = d.asRangeDimension();
        o << " " << fld([&] { return std::string(rd.alias() ? "1" : "0"); }) << " " << fld([&] { return opt_s(rd.label()); })
          << " " << fld([&] { return opt_s(rd.unit()); }) << " " << fld([&] { return list_d(rd.ticks()); });
    } else {
        nix::DataFrameDimension fd = d.asDataFrameDimension();
        o << " " << fld([&] { boost::optional<unsigned> c = fd.columnIndex(); return c ? enc_u64(*c) : std::string("-"); })
          << " " << fld([&] { nix::DataFrame df = fd.data(); return enc_str(df.name()); })
          << " " << fld([&] { return enc_str(fd.label()); })
          << " " << fld([&] { return enc_str(fd.unit()); })
          << " " << fld([&] { return nix::data_type_to_string(fd.columnDataType()); })
          << " " << fld([&] { return enc_u64(fd.size()); });
    }
    return o.str();
}

static std::string observe() {
    std::ostringstream o;
    nix::ndsize_t n = S.arr.dimensionCount();
    o << "n=" << n;
    for (nix::ndsize_t i = 1; i <= n; i++) o << " | " << dump_dim(i);
    // the neighbours of the index range: nothing may live there
    o << " | " << fld([&] { return std::string(S.arr.getDimension(0) ? "0:some" : "0:none"); });
    o << " " << fld([&] { return std::string(S.arr.getDimension(n + 1) ? "+1:some" : "+1:none"); });
    o << " | A " << fld([&] { return opt_s(S.arr.label()); }) << " " << fld([&] { return opt_s(S.arr.unit()); }) << " ";
    if (numeric1()) {
        o << fld([&] { std::vector<double> v; S.arr.getData(v); return list_d(v); });
    } else {
        o << "-";
    }
    return o.str();
}

static std::vector<double> dbls(const std::vector<std::string> &t, size_t from) {
    std::vector<double> v;
    for (size_t i = from; i < t.size(); i++) v.push_back(dec_dbl(t[i]));
    return v;
}

static std::string handle1(const std::vector<std::string> &t);

static std::string handle(const std::vector<std::string> &t0) {
    ROUTE = 0;
    if (t0.at(0).compare(0, 3, "via") == 0 && t0.at(0).size() == 4) {
        ROUTE = t0.at(0)[3] - '0';
        return handle1(std::vector<std::string>(t0.begin() + 1, t0.end()));
    }
    return handle1(t0);
}

static std::string handle1(const std::vector<std::string> &t) {
    const std::string &c = t.at(0);
    std::ostringstream o;
    if (c == "new") {
        close_all();
        S.dt = parse_dtype(t.at(1));
        S.rank = dec_u64(t.at(2));
        size_t len = dec_u64(t.at(3));
        size_t nfr = dec_u64(t.at(4));
        S.path = workdir + "/c13-" + std::to_string(fileno_++ % 4) + ".nix";
        S.file = nix::File::open(S.path, nix::FileMode::Overwrite);
        S.block = S.file.createBlock("b", "t");
        S.block2 = S.file.createBlock("b2", "t");
        S.fnames.clear(); S.foreign.clear(); S.foreign_names.clear(); S.b2_alive = true; S.ro = false;
        size_t p = 5;
        auto make_frame = [&](nix::Block &blk) {
            std::string name = dec_str(t.at(p++));
            size_t rows = dec_u64(t.at(p++));
            size_t nc = dec_u64(t.at(p++));
            std::vector<nix::Column> cols;
            for (size_t k = 0; k < nc; k++) {
                nix::Column col;
                col.name = dec_str(t.at(p++));
                col.unit = dec_str(t.at(p++));
                col.dtype = parse_dtype(t.at(p++));
                cols.push_back(col);
            }
            nix::DataFrame df = blk.createDataFrame(name, "t", cols);
            df.rows(rows);
            fill_frame(df);
            return name;
        };
        for (size_t f = 0; f < nfr; f++) S.fnames.push_back(make_frame(S.block));
        size_t nfo = dec_u64(t.at(p++));
        for (size_t f = 0; f < nfo; f++) { S.foreign_names.push_back(make_frame(S.block2)); S.foreign.push_back(nix::DataFrame()); }
        NDSize shape(S.rank, 2);
        shape[0] = len;
        S.block.createDataArray("a", "t", S.dt, shape);
        fetch();
        return "-";
    }
    if (c == "reopen") {
        close_all();
        S.ro = t.at(1) == "ro";
        S.file = nix::File::open(S.path, S.ro ? nix::FileMode::ReadOnly : nix::FileMode::ReadWrite);
        fetch();
        return "-";
    }
    if (!S.arr) throw nix::UninitializedEntity();
    if (c == "observe") return observe();
    if (c == "drop_b2") {
        if (S.ro) throw std::logic_error("drop_b2 is not exercised on a read-only session");
        bool r = S.file.deleteBlock("b2");
        S.block2 = nix::none; S.b2_alive = false;
        return r ? "1" : "0";
    }
    if (c == "recreate") {
        if (S.ro) throw std::logic_error("recreate is not exercised on a read-only session");
        size_t k = dec_u64(t.at(1));
        if (k >= S.frames.size()) throw std::logic_error("bad frame ordinal");
        nix::DataFrame old = S.frames[k];
        std::vector<nix::Column> cols = old.columns();
        nix::ndsize_t rows = old.rows();
        S.block.deleteDataFrame(S.fnames[k]);
        nix::DataFrame nf = S.block.createDataFrame(S.fnames[k], "t", cols);
        nf.rows(rows);
        fill_frame(nf);
        S.frames[k] = nf;
        S.foreign.push_back(old); S.foreign_names.push_back("");
        return "-";
    }

    // ---- appends ----
    if (c == "append_set") {
        size_t n = dec_u64(t.at(1));
        std::vector<std::string> labels;
        for (size_t i = 0; i < n; i++) labels.push_back(dec_str(t.at(2 + i)));
        nix::SetDimension d = S.arr.appendSetDimension(labels);
        return enc_u64(d.index());
    }
    if (c == "append_range") {
        nix::RangeDimension d = S.arr.appendRangeDimension(dbls(t, 3), dec_str(t.at(1)), dec_str(t.at(2)));
        return enc_u64(d.index());
    }
    if (c == "append_sampled") {
        nix::SampledDimension d = S.arr.appendSampledDimension(dec_dbl(t.at(1)), dec_str(t.at(2)), dec_str(t.at(3)), dec_dbl(t.at(4)));
        return enc_u64(d.index());
    }
    if (c == "append_alias") {
        nix::RangeDimension d = S.arr.appendAliasRangeDimension();
        return enc_u64(d.index());
    }
    if (c == "append_df_idx") {
        nix::DataFrameDimension d = S.arr.appendDataFrameDimension(frame_arg(t.at(1)), static_cast<unsigned>(dec_u64(t.at(2))));
        return enc_u64(nix::Dimension(d).index());
    }
    if (c == "append_df_name") {
        nix::DataFrameDimension d = S.arr.appendDataFrameDimension(frame_arg(t.at(1)), dec_str(t.at(2)));
        return enc_u64(nix::Dimension(d).index());
    }
    if (c == "append_df") {
        nix::DataFrameDimension d = S.arr.appendDataFrameDimension(frame_arg(t.at(1)));
        return enc_u64(nix::Dimension(d).index());
    }
#pragma GCC diagnostic push
#pragma GCC diagnostic ignored "-Wdeprecated-declarations"
    if (c == "create_set") { nix::SetDimension d = S.arr.createSetDimension(dec_u64(t.at(1))); return enc_u64(d.index()); }
    if (c == "create_range") { nix::RangeDimension d = S.arr.createRangeDimension(dec_u64(t.at(1)), dbls(t, 2)); return enc_u64(d.index()); }
    if (c == "create_sampled") { nix::SampledDimension d = S.arr.createSampledDimension(dec_u64(t.at(1)), dec_dbl(t.at(2))); return enc_u64(d.index()); }
    if (c == "create_alias") { nix::RangeDimension d = S.arr.createAliasRangeDimension(); return enc_u64(d.index()); }
#pragma GCC diagnostic pop
    if (c == "delete_dims") return S.arr.deleteDimensions() ? "1" : "0";

    // ---- queries on the array ----
    if (c == "count") return enc_u64(S.arr.dimensionCount());
    if (c == "get") {
        nix::ndsize_t i = dec_u64(t.at(1));
        nix::Dimension d = S.arr.getDimension(i);
        if (!d) return "none";
        o << kind_letter(d.dimensionType()) << " " << d.index();
        return o.str();
    }
    if (c == "dims") {
        std::vector<nix::Dimension> ds = S.arr.dimensions();
        o << "[";
        for (nix::Dimension &d : ds) o << " " << d.index() << kind_letter(d.dimensionType());
        o << " ]";
        return o.str();
    }

    // ---- array label / unit / data ----
    if (c == "a_label") { if (t.at(1) == "none") S.arr.label(nix::none); else S.arr.label(dec_str(t.at(1))); return "-"; }
    if (c == "a_unit") { if (t.at(1) == "none") S.arr.unit(nix::none); else S.arr.unit(dec_str(t.at(1))); return "-"; }
    if (c == "a_data") { std::vector<double> v = dbls(t, 1); S.arr.setData(v); return "-"; }

    if (c == "dims_f") {
        nix::DimensionType want = t.at(1) == "S" ? nix::DimensionType::Sample : t.at(1) == "T" ? nix::DimensionType::Set
                                : t.at(1) == "R" ? nix::DimensionType::Range : nix::DimensionType::DataFrame;
        std::vector<nix::Dimension> ds = S.arr.dimensions([want](const nix::Dimension &d) { return d.dimensionType() == want; });
        o << "[";
        for (nix::Dimension &d : ds) o << " " << d.index() << kind_letter(d.dimensionType());
        o << " ]";
        return o.str();
    }
    if (c == "range_of_array") {
        nix::RangeDimension rd(S.arr);
        return rd ? "some" : "none";
    }

    // ---- everything else addresses dimension <i> ----
    nix::ndsize_t i = dec_u64(t.at(1));
    nix::Dimension d = fetch_dim(i);
    if (c == "f_ticks") {
        nix::DataFrameDimension fd = routed<nix::DataFrameDimension>(d);
        boost::optional<unsigned> col;
        if (t.at(2) != "-") col = static_cast<unsigned>(dec_u64(t.at(2)));
        bool resize = t.at(3) == "1";
        size_t vsize = static_cast<size_t>(dec_u64(t.at(4)));
        nix::ndsize_t off = dec_u64(t.at(5));
        DataType ty = DataType::Double;
        try { ty = fd.columnDataType(col); } catch (...) {}
        switch (ty) {
        case DataType::Int32: return frame_ticks<int32_t>(fd, col, resize, vsize, off);
        case DataType::UInt32: return frame_ticks<uint32_t>(fd, col, resize, vsize, off);
        case DataType::Int64: return frame_ticks<int64_t>(fd, col, resize, vsize, off);
        case DataType::UInt64: return frame_ticks<uint64_t>(fd, col, resize, vsize, off);
        case DataType::String: return frame_ticks<std::string>(fd, col, resize, vsize, off);
        case DataType::Bool: return frame_ticks<int32_t>(fd, col, resize, vsize, off);
        default: return frame_ticks<double>(fd, col, resize, vsize, off);
        }
    }
    if (c == "s_at") { nix::SampledDimension sd = routed<nix::SampledDimension>(d); return enc_dbl(sd[dec_u64(t.at(2))]); }
    if (c == "r_at") { nix::RangeDimension rd = routed<nix::RangeDimension>(d); return enc_dbl(rd[dec_u64(t.at(2))]); }
    if (c[0] == 's') {
        nix::SampledDimension sd = routed<nix::SampledDimension>(d);
        if (c == "s_label") { if (t.at(2) == "none") sd.label(nix::none); else sd.label(dec_str(t.at(2))); return "-"; }
        if (c == "s_unit") { if (t.at(2) == "none") sd.unit(nix::none); else sd.unit(dec_str(t.at(2))); return "-"; }
        if (c == "s_interval") { sd.samplingInterval(dec_dbl(t.at(2))); return "-"; }
        if (c == "s_offset") { if (t.at(2) == "none") sd.offset(nix::none); else sd.offset(dec_dbl(t.at(2))); return "-"; }
    }
    if (c[0] == 't') {
        nix::SetDimension td = routed<nix::SetDimension>(d);
        if (c == "t_label") { if (t.at(2) == "none") td.label(nix::none); else td.label(dec_str(t.at(2))); return "-"; }
        if (c == "t_labels") {
            if (t.at(2) == "none") { td.labels(nix::none); return "-"; }
            size_t n = dec_u64(t.at(2));
            std::vector<std::string> labels;
            for (size_t k = 0; k < n; k++) labels.push_back(dec_str(t.at(3 + k)));
            td.labels(labels);
            return "-";
        }
    }
    if (c[0] == 'r') {
        nix::RangeDimension rd = routed<nix::RangeDimension>(d);
        if (c == "r_label") { if (t.at(2) == "none") rd.label(nix::none); else rd.label(dec_str(t.at(2))); return "-"; }
        if (c == "r_unit") { if (t.at(2) == "none") rd.unit(nix::none); else rd.unit(dec_str(t.at(2))); return "-"; }
        if (c == "r_ticks") { rd.ticks(dbls(t, 2)); return "-"; }
        if (c == "r_tickat") return enc_dbl(rd.tickAt(dec_u64(t.at(2))));
        if (c == "r_ticks_sc") return list_d(rd.ticks(dec_u64(t.at(2)), static_cast<size_t>(dec_u64(t.at(3)))));
        if (c == "r_axis") return list_d(rd.axis(dec_u64(t.at(2)), dec_u64(t.at(3))));
    }
    if (c == "f_q") {
        nix::DataFrameDimension fd = routed<nix::DataFrameDimension>(d);
        boost::optional<unsigned> col;
        if (t.at(3) != "-") col = static_cast<unsigned>(dec_u64(t.at(3)));
        if (t.at(2) == "label") return enc_str(fd.label(col));
        if (t.at(2) == "unit") return enc_str(fd.unit(col));
        if (t.at(2) == "type") return nix::data_type_to_string(fd.columnDataType(col));
    }
    throw std::logic_error("bad command " + c);
}

int main(int argc, char **argv) {
    if (argc < 3) { std::cerr << "usage: drv_C13 <casefile> <workdir>\n"; return 2; }
    workdir = argv[2];
    int rc = run_file(argv[1], handle);
    close_all();
    return rc;
}
