// C16 misuse driver: every listed public API call is made with ONE of its entity handles replaced by a
// "bad" handle — none (default constructed), deleted (entity removed while the handle is kept),
// closed (handle into a file that has been closed), foreign (same kind of entity in another block /
// file).  The call must end in a value or a C++ exception; a sanitizer report / signal kills the
// process and the engine records CRASH for that line.
//   list                          -> prints the case lines this binary knows (used by the generator)
//   misuse <call> <role> <kind>   -> OK value | ERR class
//   value <op> <args>             -> OK value | ERR class    (NDSize / NDArray value types, see value_ops)
#include "common.hpp"
#include <hdf5.h>
#include <nix/util/dataAccess.hpp>
#include <map>
#include <functional>
#include <memory>
#include <cstring>
#include <sstream>
#include <nix/NDArray.hpp>

using namespace nixv;
using namespace nix;

struct Ctx {
    File file, file2;
    Block block, block2;
    DataArray da, pos, ext;
    DataFrame frame;
    Tag tag;
    MultiTag mtag;
    Feature feat;
    Group group;
    Source src, child;
    Section sec, subsec;
    Property prop;
    SampledDimension sdim;
    RangeDimension rdim;
    SetDimension setdim;
    Dimension dim;
    std::shared_ptr<DataView> view;
};

static std::string wd;

static void populate(File &f, Ctx &c, bool second) {
    Block b = f.createBlock("b", "t");
    Block b2 = f.createBlock("b2", "t");
    DataArray da = b.createDataArray("da", "t", DataType::Double, NDSize({4, 3}));
    std::vector<double> v(12, 1.0);
    da.setData(DataType::Double, v.data(), NDSize({4, 3}), NDSize({0, 0}));
    SampledDimension sd = da.appendSampledDimension(0.5, "time", "s");
    SetDimension st = da.appendSetDimension(std::vector<std::string>{"a", "b", "c"});
    DataArray ra = b.createDataArray("ra", "t", DataType::Double, NDSize({3}));
    RangeDimension rd = ra.appendRangeDimension(std::vector<double>{1.0, 2.0, 4.0}, "x", "ms");
    DataArray pos = b.createDataArray("pos", "t", DataType::Double, NDSize({2, 2}));
    DataArray ext = b.createDataArray("ext", "t", DataType::Double, NDSize({2, 2}));
    std::vector<double> pv = {0.0, 0.0, 0.5, 1.0};
    pos.setData(DataType::Double, pv.data(), NDSize({2, 2}), NDSize({0, 0}));
    ext.setData(DataType::Double, pv.data(), NDSize({2, 2}), NDSize({0, 0}));
    std::vector<Column> cols = {{"c", "V", DataType::Double}, {"n", "", DataType::String}};
    DataFrame fr = b.createDataFrame("frame", "t", cols);
    fr.rows(2);
    Tag tag = b.createTag("tag", "t", std::vector<double>{0.0, 0.0});
    tag.extent(std::vector<double>{1.0, 1.0});
    tag.addReference(da);
    Feature feat = tag.createFeature(ra, LinkType::Untagged);
    MultiTag mt = b.createMultiTag("mtag", "t", pos);
    mt.extents(ext);
    mt.addReference(da);
    Group g = b.createGroup("g", "t");
    g.addDataArray(da);
    Source s = b.createSource("s", "t");
    Source ch = s.createSource("child", "t");
    Section sec = f.createSection("sec", "t");
    Section sub = sec.createSection("sub", "t");
    Property p = sec.createProperty("p", Variant(1.5));
    da.metadata(sec);
    da.addSource(s);
    if (!second) {
        c.block = b; c.block2 = b2; c.da = da; c.pos = pos; c.ext = ext; c.frame = fr; c.tag = tag; c.mtag = mt; c.feat = feat;
        c.group = g; c.src = s; c.child = ch; c.sec = sec; c.subsec = sub; c.prop = p; c.sdim = sd; c.rdim = rd; c.setdim = st;
        c.dim = da.getDimension(1);
        c.view = std::make_shared<DataView>(da, NDSize({2, 2}), NDSize({1, 0}));
    }
}

// ------------------------------------------------------------------ bad handles, per role
typedef std::function<void(Ctx &, const std::string &)> Breaker;
static std::map<std::string, Breaker> breakers;

template <typename T> static T closed_copy(const std::string &what);

static void init_breakers() {
    // helper: open the second file with the same content, pick the entity, close the file
    auto second = [](Ctx &c2) -> File {
        File f2 = File::open(wd + "/second.nix", FileMode::Overwrite);
        populate(f2, c2, false);
        return f2;
    };
    breakers["file"] = [second](Ctx &c, const std::string &k) {
        if (k == "none") c.file = File();
        else if (k == "closed") { c.file.close(); }
        else throw std::logic_error("bad kind");
    };
    breakers["block"] = [second](Ctx &c, const std::string &k) {
        if (k == "none") c.block = Block();
        else if (k == "deleted") { Block v = c.file.createBlock("victim", "t"); c.file.deleteBlock(v); c.block = v; }
        else if (k == "closed") { Ctx c2; File f2 = second(c2); f2.close(); c.block = c2.block; }
        else if (k == "foreign") { Ctx c2; c.file2 = second(c2); c.block = c2.block; }
        else throw std::logic_error("bad kind");
    };
    breakers["da"] = [second](Ctx &c, const std::string &k) {
        if (k == "none") c.da = DataArray();
        else if (k == "deleted") { DataArray v = c.block.createDataArray("victim", "t", DataType::Double, NDSize({2})); c.block.deleteDataArray(v); c.da = v; }
        else if (k == "closed") { Ctx c2; File f2 = second(c2); f2.close(); c.da = c2.da; }
        else if (k == "foreign") { c.da = c.block2.createDataArray("other", "t", DataType::Double, NDSize({4, 3})); }
        else throw std::logic_error("bad kind");
    };
    breakers["frame"] = [second](Ctx &c, const std::string &k) {
        std::vector<Column> cols = {{"c", "V", DataType::Double}};
        if (k == "none") c.frame = DataFrame();
        else if (k == "deleted") { DataFrame v = c.block.createDataFrame("victim", "t", cols); c.block.deleteDataFrame(v); c.frame = v; }
        else if (k == "closed") { Ctx c2; File f2 = second(c2); f2.close(); c.frame = c2.frame; }
        else if (k == "foreign") { c.frame = c.block2.createDataFrame("frame", "t", cols); }
        else throw std::logic_error("bad kind");
    };
    breakers["tag"] = [second](Ctx &c, const std::string &k) {
        if (k == "none") c.tag = Tag();
        else if (k == "deleted") { Tag v = c.block.createTag("victim", "t", std::vector<double>{0.0}); c.block.deleteTag(v); c.tag = v; }
        else if (k == "closed") { Ctx c2; File f2 = second(c2); f2.close(); c.tag = c2.tag; }
        else if (k == "foreign") { c.tag = c.block2.createTag("other", "t", std::vector<double>{0.0, 0.0}); }
        else throw std::logic_error("bad kind");
    };
    breakers["mtag"] = [second](Ctx &c, const std::string &k) {
        if (k == "none") c.mtag = MultiTag();
        else if (k == "deleted") { MultiTag v = c.block.createMultiTag("victim", "t", c.pos); c.block.deleteMultiTag(v); c.mtag = v; }
        else if (k == "closed") { Ctx c2; File f2 = second(c2); f2.close(); c.mtag = c2.mtag; }
        else if (k == "foreign") { DataArray p2 = c.block2.createDataArray("pos2", "t", DataType::Double, NDSize({2, 2})); c.mtag = c.block2.createMultiTag("other", "t", p2); }
        else throw std::logic_error("bad kind");
    };
    breakers["feat"] = [second](Ctx &c, const std::string &k) {
        if (k == "none") c.feat = Feature();
        else if (k == "deleted") { Feature v = c.tag.createFeature(c.pos, LinkType::Tagged); c.tag.deleteFeature(v); c.feat = v; }
        else if (k == "closed") { Ctx c2; File f2 = second(c2); f2.close(); c.feat = c2.feat; }
        else if (k == "foreign") { c.feat = c.mtag.createFeature(c.pos, LinkType::Indexed); }
        else throw std::logic_error("bad kind");
    };
    breakers["group"] = [second](Ctx &c, const std::string &k) {
        if (k == "none") c.group = Group();
        else if (k == "deleted") { Group v = c.block.createGroup("victim", "t"); c.block.deleteGroup(v); c.group = v; }
        else if (k == "closed") { Ctx c2; File f2 = second(c2); f2.close(); c.group = c2.group; }
        else if (k == "foreign") { c.group = c.block2.createGroup("other", "t"); }
        else throw std::logic_error("bad kind");
    };
    breakers["src"] = [second](Ctx &c, const std::string &k) {
        if (k == "none") c.src = Source();
        else if (k == "deleted") { Source v = c.block.createSource("victim", "t"); Source vc = v.createSource("vc", "t"); c.block.deleteSource(v); c.src = vc; }
        else if (k == "closed") { Ctx c2; File f2 = second(c2); f2.close(); c.src = c2.src; }
        else if (k == "foreign") { c.src = c.block2.createSource("other", "t"); }
        else throw std::logic_error("bad kind");
    };
    breakers["sec"] = [second](Ctx &c, const std::string &k) {
        if (k == "none") c.sec = Section();
        else if (k == "deleted") { Section v = c.file.createSection("victim", "t"); Section vs = v.createSection("vs", "t"); c.file.deleteSection(v); c.sec = vs; }
        else if (k == "closed") { Ctx c2; File f2 = second(c2); f2.close(); c.sec = c2.sec; }
        else if (k == "foreign") { Ctx c2; c.file2 = second(c2); c.sec = c2.sec; }
        else throw std::logic_error("bad kind");
    };
    breakers["prop"] = [second](Ctx &c, const std::string &k) {
        if (k == "none") c.prop = Property();
        else if (k == "deleted") { Property v = c.sec.createProperty("victim", Variant(1)); c.sec.deleteProperty(v); c.prop = v; }
        else if (k == "closed") { Ctx c2; File f2 = second(c2); f2.close(); c.prop = c2.prop; }
        else if (k == "foreign") { c.prop = c.subsec.createProperty("other", Variant(2)); }
        else throw std::logic_error("bad kind");
    };
    breakers["dim"] = [second](Ctx &c, const std::string &k) {
        if (k == "none") { c.sdim = SampledDimension(); c.rdim = RangeDimension(); c.setdim = SetDimension(); c.dim = Dimension(); }
        else if (k == "deleted") { c.da.deleteDimensions(); c.block.getDataArray("ra").deleteDimensions(); }
        else if (k == "closed") { Ctx c2; File f2 = second(c2); f2.close(); c.sdim = c2.sdim; c.rdim = c2.rdim; c.setdim = c2.setdim; c.dim = c2.dim; }
        else if (k == "foreign") { c.block.deleteDataArray(c.da); c.block.deleteDataArray("ra"); }   // owning arrays gone
        else throw std::logic_error("bad kind");
    };
    breakers["view"] = [second](Ctx &c, const std::string &k) {
        if (k == "none") throw std::logic_error("bad kind");
        else if (k == "deleted") { c.block.deleteDataArray(c.da); }
        else if (k == "closed") { Ctx c2; File f2 = second(c2); f2.close(); c.view = c2.view; }
        else if (k == "foreign") { c.da.dataExtent(NDSize({1, 1})); }        // the array shrank under the view
        else throw std::logic_error("bad kind");
    };
}

// ------------------------------------------------------------------ the calls
struct Call { std::vector<std::string> roles; std::function<std::string(Ctx &)> fn; };
static std::vector<std::pair<std::string, Call>> calls;

static std::string S(size_t n) { return std::to_string(n); }
static std::string B(bool b) { return b ? "1" : "0"; }
static std::string O(const boost::optional<std::string> &o) { return o ? enc_str(*o) : std::string("-"); }
#define CALL(name, roles, body) calls.push_back({name, Call{roles, [](Ctx &c) -> std::string { body }}})
typedef std::vector<std::string> R;

static void init_calls() {
    // --- receivers
    CALL("file.blockCount", R({"file"}), return S(c.file.blockCount()););
    CALL("file.blocks", R({"file"}), return S(c.file.blocks().size()););
    CALL("file.createBlock", R({"file"}), c.file.createBlock("nb", "t"); return "done";);
    CALL("file.findSections", R({"file"}), return S(c.file.findSections().size()););
    CALL("file.validate", R({"file"}), return S(c.file.validate().getErrors().size()););
    CALL("file.flush", R({"file"}), return B(c.file.flush()););
    CALL("block.name", R({"block"}), return enc_str(c.block.name()););
    CALL("block.id", R({"block"}), return S(c.block.id().size()););
    CALL("block.dataArrays", R({"block"}), return S(c.block.dataArrays().size()););
    CALL("block.createDataArray", R({"block"}), c.block.createDataArray("n", "t", DataType::Int32, NDSize({2})); return "done";);
    CALL("block.findSources", R({"block"}), return S(c.block.findSources().size()););
    CALL("block.metadata", R({"block"}), return B(static_cast<bool>(c.block.metadata())););
    CALL("block.definition", R({"block"}), return O(c.block.definition()););
    CALL("block.compare", R({"block"}), return S(static_cast<size_t>(c.file.getBlock("b2").compare(c.block) + 5)););
    CALL("block.eq", R({"block"}), return B(c.file.getBlock("b2") == c.block););
    CALL("block.stream", R({"block"}), std::ostringstream o; o << c.block; return S(o.str().size() > 0););
    CALL("file.hasBlock", R({"file", "block"}), return B(c.file.hasBlock(c.block)););
    CALL("file.deleteBlock", R({"file", "block"}), return B(c.file.deleteBlock(c.block)););
    CALL("da.dataExtent", R({"da"}), return S(c.da.dataExtent().size()););
    CALL("da.dataType", R({"da"}), return S(static_cast<size_t>(c.da.dataType())););
    CALL("da.getData", R({"da"}), std::vector<double> v(12); c.da.getData(DataType::Double, v.data(), NDSize({4, 3}), NDSize({0, 0})); return S(v.size()););
    CALL("da.setData", R({"da"}), std::vector<double> v(12, 2.0); c.da.setData(DataType::Double, v.data(), NDSize({4, 3}), NDSize({0, 0})); return "done";);
    CALL("da.dimensions", R({"da"}), return S(c.da.dimensions().size()););
    CALL("da.getDimension", R({"da"}), return B(static_cast<bool>(c.da.getDimension(1))););
    CALL("da.appendSetDimension", R({"da"}), c.da.appendSetDimension(); return "done";);
    CALL("da.label", R({"da"}), return O(c.da.label()););
    CALL("da.unitset", R({"da"}), c.da.unit("mV"); return "done";);
    CALL("da.polynom", R({"da"}), return S(c.da.polynomCoefficients().size()););
    CALL("da.sources", R({"da"}), return S(c.da.sources().size()););
    CALL("da.metadata", R({"da"}), return B(static_cast<bool>(c.da.metadata())););
    CALL("da.isValidEntity", R({"da"}), return B(c.da.isValidEntity()););
    CALL("da.compare", R({"da"}), return S(static_cast<size_t>(c.pos.compare(c.da) + 5)););
    CALL("da.eq", R({"da"}), return B(c.pos == c.da););
    CALL("da.stream", R({"da"}), std::ostringstream o; o << c.da; return S(o.str().size() > 0););
    CALL("block.hasDataArray", R({"block", "da"}), return B(c.block.hasDataArray(c.da)););
    CALL("block.deleteDataArray", R({"block", "da"}), return B(c.block.deleteDataArray(c.da)););
    CALL("da.metadataSet", R({"da", "sec"}), c.da.metadata(c.sec); return "done";);
    CALL("da.addSource", R({"da", "src"}), c.da.addSource(c.src); return "done";);
    CALL("da.hasSource", R({"da", "src"}), return B(c.da.hasSource(c.src)););
    CALL("da.removeSource", R({"da", "src"}), return B(c.da.removeSource(c.src)););
    CALL("da.sourcesSet", R({"da", "src"}), c.da.sources(std::vector<Source>{c.src}); return "done";);
    CALL("da.appendDataFrameDimension", R({"da", "frame"}), c.da.appendDataFrameDimension(c.frame); return "done";);
    CALL("frame.rows", R({"frame"}), return S(c.frame.rows()););
    CALL("frame.columns", R({"frame"}), return S(c.frame.columns().size()););
    CALL("frame.readRow", R({"frame"}), return S(c.frame.readRow(0).size()););
    CALL("frame.rowsSet", R({"frame"}), c.frame.rows(3); return "done";);
    CALL("block.hasDataFrame", R({"block", "frame"}), return B(c.block.hasDataFrame(c.frame)););
    CALL("block.deleteDataFrame", R({"block", "frame"}), return B(c.block.deleteDataFrame(c.frame)););
    CALL("tag.position", R({"tag"}), return S(c.tag.position().size()););
    CALL("tag.extent", R({"tag"}), return S(c.tag.extent().size()););
    CALL("tag.units", R({"tag"}), return S(c.tag.units().size()););
    CALL("tag.references", R({"tag"}), return S(c.tag.references().size()););
    CALL("tag.features", R({"tag"}), return S(c.tag.features().size()););
    CALL("tag.getFeature", R({"tag"}), return B(static_cast<bool>(c.tag.getFeature(0))););
    CALL("tag.taggedData", R({"tag"}), return S(c.tag.taggedData(0).dataExtent().size()););
    CALL("tag.featureData", R({"tag"}), return S(c.tag.featureData(0).dataExtent().size()););
    CALL("tag.addReference", R({"tag", "da"}), c.tag.addReference(c.da); return "done";);
    CALL("tag.hasReference", R({"tag", "da"}), return B(c.tag.hasReference(c.da)););
    CALL("tag.removeReference", R({"tag", "da"}), return B(c.tag.removeReference(c.da)););
    CALL("tag.referencesSet", R({"tag", "da"}), c.tag.references(std::vector<DataArray>{c.da}); return "done";);
    CALL("tag.createFeature", R({"tag", "da"}), c.tag.createFeature(c.da, LinkType::Tagged); return "done";);
    CALL("tag.hasFeature", R({"tag", "feat"}), return B(c.tag.hasFeature(c.feat)););
    CALL("tag.deleteFeature", R({"tag", "feat"}), return B(c.tag.deleteFeature(c.feat)););
    CALL("util.taggedData", R({"tag", "da"}), return S(util::taggedData(c.tag, c.da).dataExtent().size()););
    CALL("util.featureData", R({"tag", "feat"}), return S(util::featureData(c.tag, c.feat).dataExtent().size()););
    CALL("block.hasTag", R({"block", "tag"}), return B(c.block.hasTag(c.tag)););
    CALL("block.deleteTag", R({"block", "tag"}), return B(c.block.deleteTag(c.tag)););
    CALL("mtag.positions", R({"mtag"}), return B(static_cast<bool>(c.mtag.positions())););
    CALL("mtag.extents", R({"mtag"}), return B(static_cast<bool>(c.mtag.extents())););
    CALL("mtag.positionCount", R({"mtag"}), return S(c.mtag.positionCount()););
    CALL("mtag.taggedData", R({"mtag"}), return S(c.mtag.taggedData(0, 0).dataExtent().size()););
    CALL("mtag.positionsSet", R({"mtag", "da"}), c.mtag.positions(c.da); return "done";);
    CALL("mtag.extentsSet", R({"mtag", "da"}), c.mtag.extents(c.da); return "done";);
    CALL("mtag.addReference", R({"mtag", "da"}), c.mtag.addReference(c.da); return "done";);
    CALL("mtag.hasReference", R({"mtag", "da"}), return B(c.mtag.hasReference(c.da)););
    CALL("mtag.createFeature", R({"mtag", "da"}), c.mtag.createFeature(c.da, LinkType::Indexed); return "done";);
    CALL("util.taggedDataM", R({"mtag", "da"}), return S(util::taggedData(c.mtag, 0, c.da).dataExtent().size()););
    CALL("block.createMultiTag", R({"block", "da"}), c.block.createMultiTag("nm", "t", c.da); return "done";);
    CALL("block.hasMultiTag", R({"block", "mtag"}), return B(c.block.hasMultiTag(c.mtag)););
    CALL("block.deleteMultiTag", R({"block", "mtag"}), return B(c.block.deleteMultiTag(c.mtag)););
    CALL("feat.data", R({"feat"}), return B(static_cast<bool>(c.feat.data())););
    CALL("feat.linkType", R({"feat"}), return S(static_cast<size_t>(c.feat.linkType())););
    CALL("feat.dataSet", R({"feat", "da"}), c.feat.data(c.da); return "done";);
    CALL("group.dataArrays", R({"group"}), return S(c.group.dataArrays().size()););
    CALL("group.addDataArray", R({"group", "da"}), c.group.addDataArray(c.da); return "done";);
    CALL("group.hasDataArray", R({"group", "da"}), return B(c.group.hasDataArray(c.da)););
    CALL("group.removeDataArray", R({"group", "da"}), return B(c.group.removeDataArray(c.da)););
    CALL("group.addTag", R({"group", "tag"}), c.group.addTag(c.tag); return "done";);
    CALL("group.addMultiTag", R({"group", "mtag"}), c.group.addMultiTag(c.mtag); return "done";);
    CALL("group.addDataFrame", R({"group", "frame"}), c.group.addDataFrame(c.frame); return "done";);
    CALL("block.hasGroup", R({"block", "group"}), return B(c.block.hasGroup(c.group)););
    CALL("block.deleteGroup", R({"block", "group"}), return B(c.block.deleteGroup(c.group)););
    CALL("src.sources", R({"src"}), return S(c.src.sources().size()););
    CALL("src.findSources", R({"src"}), return S(c.src.findSources().size()););
    CALL("src.parentSource", R({"src"}), return B(static_cast<bool>(c.src.parentSource())););
    CALL("src.referringDataArrays", R({"src"}), return S(c.src.referringDataArrays().size()););
    CALL("src.createSource", R({"src"}), c.src.createSource("n", "t"); return "done";);
    CALL("src.hasSource", R({"src"}), return B(c.block.getSource("s").hasSource(c.src)););
    CALL("src.deleteSource", R({"src"}), return B(c.block.getSource("s").deleteSource(c.src)););
    CALL("block.hasSource", R({"block", "src"}), return B(c.block.hasSource(c.src)););
    CALL("block.deleteSource", R({"block", "src"}), return B(c.block.deleteSource(c.src)););
    CALL("sec.sections", R({"sec"}), return S(c.sec.sections().size()););
    CALL("sec.properties", R({"sec"}), return S(c.sec.properties().size()););
    CALL("sec.findSections", R({"sec"}), return S(c.sec.findSections().size()););
    CALL("sec.findRelated", R({"sec"}), return S(c.sec.findRelated().size()););
    CALL("sec.inheritedProperties", R({"sec"}), return S(c.sec.inheritedProperties().size()););
    CALL("sec.parent", R({"sec"}), return B(static_cast<bool>(c.sec.parent())););
    CALL("sec.link", R({"sec"}), return B(static_cast<bool>(c.sec.link())););
    CALL("sec.referringDataArrays", R({"sec"}), return S(c.sec.referringDataArrays().size()););
    CALL("sec.createProperty", R({"sec"}), c.sec.createProperty("np", Variant(3)); return "done";);
    CALL("sec.linkSet", R({"sec"}), c.subsec.link(c.sec); return "done";);
    CALL("sec.hasSection", R({"sec"}), return B(c.file.getSection("sec").hasSection(c.sec)););
    CALL("file.hasSection", R({"file", "sec"}), return B(c.file.hasSection(c.sec)););
    CALL("file.deleteSection", R({"file", "sec"}), return B(c.file.deleteSection(c.sec)););
    CALL("prop.values", R({"prop"}), return S(c.prop.values().size()););
    CALL("prop.valuesSet", R({"prop"}), c.prop.values(std::vector<Variant>{Variant(2.5)}); return "done";);
    CALL("prop.unit", R({"prop"}), return O(c.prop.unit()););
    CALL("prop.dataType", R({"prop"}), return S(static_cast<size_t>(c.prop.dataType())););
    CALL("sec.hasProperty", R({"sec", "prop"}), return B(c.sec.hasProperty(c.prop)););
    CALL("sec.deleteProperty", R({"sec", "prop"}), return B(c.sec.deleteProperty(c.prop)););
    CALL("dim.sampled.label", R({"dim"}), return O(c.sdim.label()););
    CALL("dim.sampled.interval", R({"dim"}), return enc_dbl(c.sdim.samplingInterval()););
    CALL("dim.sampled.indexOf", R({"dim"}), return B(static_cast<bool>(c.sdim.indexOf(1.0, PositionMatch::GreaterOrEqual))););
    CALL("dim.sampled.intervalSet", R({"dim"}), c.sdim.samplingInterval(2.0); return "done";);
    CALL("dim.range.ticks", R({"dim"}), return S(c.rdim.ticks().size()););
    CALL("dim.range.tickAt", R({"dim"}), return enc_dbl(c.rdim.tickAt(1)););
    CALL("dim.range.indexOf", R({"dim"}), return B(static_cast<bool>(c.rdim.indexOf(2.0, PositionMatch::Equal))););
    CALL("dim.range.ticksSet", R({"dim"}), c.rdim.ticks(std::vector<double>{1.0, 3.0}); return "done";);
    CALL("dim.set.labels", R({"dim"}), return S(c.setdim.labels().size()););
    CALL("dim.set.indexOf", R({"dim"}), return B(static_cast<bool>(c.setdim.indexOf(1.0, PositionMatch::Equal))););
    CALL("dim.generic.type", R({"dim"}), return S(static_cast<size_t>(c.dim.dimensionType())););
    CALL("dim.generic.as", R({"dim"}), return O(c.dim.asSampledDimension().unit()););
    CALL("view.dataExtent", R({"view"}), return S(c.view->dataExtent().size()););
    CALL("view.getData", R({"view"}), std::vector<double> v(4); c.view->getData(DataType::Double, v.data(), NDSize({2, 2}), NDSize({0, 0})); return S(v.size()););
    CALL("view.setData", R({"view"}), std::vector<double> v(4, 9.0); c.view->setData(DataType::Double, v.data(), NDSize({2, 2}), NDSize({0, 0})); return "done";);
    CALL("util.dataSlice", R({"da"}), return S(util::dataSlice(c.da, std::vector<double>{0.0, 0.0}, std::vector<double>{1.0, 1.0}).dataExtent().size()););
}

static const char *kinds_for(const std::string &role, int i) {
    static const char *all[] = {"none", "deleted", "closed", "foreign"};
    if (role == "file") { static const char *f[] = {"none", "closed", nullptr, nullptr}; return f[i]; }
    if (role == "view") { static const char *v[] = {"deleted", "closed", "foreign", nullptr}; return v[i]; }
    return all[i];
}

// ---- value types of the public API (NDSize, NDArray): construction from empty containers, swap, arithmetic with
// mismatching ranks, element access past the end.  Objects are built by placement new inside storage that was
// filled with 0xAB first, so that a member a constructor forgets to initialise is visibly garbage.
template<typename F> static std::string in_dirty_ndsize(F f) {
    alignas(NDSize) unsigned char buf[sizeof(NDSize)];
    std::memset(buf, 0xAB, sizeof(buf));
    NDSize *p = f(static_cast<void *>(buf));
    std::string out = "rank=" + std::to_string(p->size()) + " [";
    for (size_t i = 0; i < p->size(); i++) out += " " + std::to_string((*p)[i]);
    out += " ] nelms=" + std::to_string(p->size() ? p->nelms() : 0);
    p->~NDSize();
    return out;
}

static std::string show_nd(const NDSize &n) {
    std::string out = "rank=" + std::to_string(n.size()) + " [";
    for (size_t i = 0; i < n.size(); i++) out += " " + std::to_string(n[i]);
    return out + " ]";
}

static const char *value_ops[] = {
    "ndfromvec 0", "ndfromvec 1", "ndfromvec 3", "ndfromlist 0", "ndfromlist 2", "ndfill 0", "ndfill 3", "nddefault 0",
    "ndswap 1 3", "ndswap 3 1", "ndswap 0 2", "ndswap 2 0", "ndswap 2 2",
    "ndcopy 0", "ndcopy 3", "ndmove 0", "ndmove 3", "ndassign 1 3", "ndassign 3 0", "ndassign 0 3",
    "ndarith add 2 2", "ndarith add 2 3", "ndarith sub 2 2", "ndarith sub 3 2", "ndarith mul 2 2", "ndarith mul 1 2", "ndarith div 2 2", "ndarith div 2 1",
    "ndarith lt 2 2", "ndarith lt 2 3", "ndarith le 0 0", "ndarith gt 3 2", "ndarith ge 1 1", "ndarith eq 2 3", "ndarith ne 0 1",
    "ndarith dot 2 2", "ndarith dot 2 3", "ndarith dot 0 0",
    "ndindex 2 0", "ndindex 2 1", "ndindex 2 2", "ndindex 2 100", "ndindex 0 0", "ndindex 2 18446744073709551615", "ndindex 0 18446744073709551615",
    "ndarray strread 3", "ndarray strwrite 3", "ndarray strctor 2",
    "ndscalar add 3", "ndscalar sub 3", "ndscalar dec 3", "ndscalar inc 3",
    "ndarray get 2x3 0", "ndarray get 2x3 5", "ndarray get 2x3 6", "ndarray get 2x3 1000", "ndarray set 2x3 5", "ndarray set 2x3 6", "ndarray set 2x3 1000",
    "ndarray getnd 2x3 1,2", "ndarray getnd 2x3 2,0", "ndarray getnd 2x3 1", "ndarray getnd 2x3 0,0,0", "ndarray setnd 2x3 1,2", "ndarray setnd 2x3 5,5",
    "ndarray getwide 2x3 5", "ndarray resize 2x3 0", "ndarray zero 0 0",
    nullptr};

static std::string value_op(const std::vector<std::string> &t) {
    const std::string &op = t[1];
    auto num = [&](size_t i) { return static_cast<size_t>(dec_u64(t.at(i))); };
    if (op == "ndfromvec") { size_t n = num(2); return in_dirty_ndsize([&](void *b) { return new (b) NDSize(std::vector<int>(n, 3)); }); }
    if (op == "ndfromlist") {
        if (num(2) == 0) return in_dirty_ndsize([&](void *b) { return new (b) NDSize(std::initializer_list<int>{}); });
        return in_dirty_ndsize([&](void *b) { return new (b) NDSize({4, 5}); });
    }
    if (op == "ndfill") { size_t n = num(2); return in_dirty_ndsize([&](void *b) { return new (b) NDSize(n, 7); }); }
    if (op == "nddefault") return in_dirty_ndsize([&](void *b) { return new (b) NDSize(); });
    if (op == "ndswap") {
        NDSize a(num(2), 7), b(num(3), 9);
        a.swap(b);
        NDSize ca(a), cb(b);     // a copy reads rank-many entries
        return "a: " + show_nd(a) + " b: " + show_nd(b) + " copies: " + show_nd(ca) + " " + show_nd(cb);
    }
    if (op == "ndcopy") { NDSize a(num(2), 7); NDSize b(a); return show_nd(b); }
    if (op == "ndmove") { NDSize a(num(2), 7); NDSize b(std::move(a)); return show_nd(b) + " from: " + show_nd(a); }
    if (op == "ndassign") { NDSize a(num(2), 7), b(num(3), 9); a = b; return show_nd(a) + " " + show_nd(b); }
    if (op == "ndarith") {
        const std::string &f = t.at(2);
        NDSize a(num(3), 6), b(num(4), 3);
        if (f == "add") return show_nd(a + b);
        if (f == "sub") return show_nd(a - b);
        if (f == "mul") return show_nd(a * b);
        if (f == "div") return show_nd(a / b);
        if (f == "lt") return a < b ? "1" : "0";
        if (f == "le") return a <= b ? "1" : "0";
        if (f == "gt") return a > b ? "1" : "0";
        if (f == "ge") return a >= b ? "1" : "0";
        if (f == "eq") return a == b ? "1" : "0";
        if (f == "ne") return a != b ? "1" : "0";
        if (f == "dot") return std::to_string(a.dot(b));
    }
    if (op == "ndindex") { NDSize a(num(2), 7); return std::to_string(a[num(3)]); }
    if (op == "ndscalar") {
        const std::string &f = t.at(2);
        NDSize a(num(3), 6);
        if (f == "add") return show_nd(a + 2);
        if (f == "sub") { a -= 2; return show_nd(a); }
        if (f == "dec") { a--; --a; return show_nd(a); }
        if (f == "inc") { a++; ++a; return show_nd(a); }
    }
    if (op == "ndarray") {
        const std::string &f = t.at(2);
        auto idx = [&](const std::string &x) { std::vector<ndsize_t> v; std::stringstream ss(x); std::string it; while (std::getline(ss, it, ',')) v.push_back(dec_u64(it)); return NDSize(v); };
        if (f == "zero") { NDArray z(DataType::Double, NDSize()); return "elems=" + std::to_string(z.rank()); }
        if (f == "strctor") { NDArray sa(DataType::String, NDSize({num(3)})); return "elems=" + std::to_string(sa.num_elements()); }
        if (f == "strread" || f == "strwrite") {
            // a String DataArray read into / written from an NDArray of element type String
            File sf = File::open(wd + "/value.nix", FileMode::Overwrite);
            Block sb = sf.createBlock("b", "t");
            DataArray sd = sb.createDataArray("s", "t", DataType::String, NDSize({num(3)}));
            std::vector<std::string> sv(num(3), "a string that is longer than the small string buffer of std::string");
            sd.setData(sv);
            std::string out;
            try {
                NDArray sa(DataType::String, NDSize({num(3)}));
                if (f == "strread") { sd.getData(sa); out = "read"; } else { sd.setData(sa); out = "written"; }
            } catch (...) { sf.close(); throw; }
            sf.close();
            return out;
        }
        NDArray arr(DataType::Double, NDSize({2, 3}));
        for (size_t i = 0; i < 6; i++) arr.set<double>(i, 10.0 + static_cast<double>(i));
        if (f == "get") return enc_dbl(arr.get<double>(num(4)));
        if (f == "set") { arr.set<double>(num(4), 1.5); return "done"; }
        if (f == "getnd") return enc_dbl(arr.get<double>(idx(t.at(4))));
        if (f == "setnd") { arr.set<double>(idx(t.at(4)), 1.5); return "done"; }
        if (f == "getwide") { NDArray small(DataType::Int8, NDSize({2, 3})); return enc_dbl(small.get<double>(num(4))); }
        if (f == "resize") { arr.resize(NDSize({0, 3})); return "elems=" + std::to_string(arr.num_elements()); }
    }
    throw std::logic_error("bad value op");
}

static std::string handle(const std::vector<std::string> &t) {
    if (t[0] == "value") return value_op(t);
    if (t[0] != "misuse" || t.size() != 4) throw std::logic_error("bad command");
    Ctx c;
    c.file = File::open(wd + "/main.nix", FileMode::Overwrite);
    populate(c.file, c, false);
    const Call *call = nullptr;
    for (auto &p : calls) if (p.first == t[1]) call = &p.second;
    if (!call) throw std::logic_error("unknown call " + t[1]);
    auto br = breakers.find(t[2]);
    if (br == breakers.end()) throw std::logic_error("unknown role " + t[2]);
    if (t[3] != "good") br->second(c, t[3]);
    std::string out;
    try {
        out = call->fn(c);
    } catch (...) {
        if (c.file2 && c.file2.isOpen()) c.file2.close();
        if (c.file && c.file.isOpen()) c.file.close();
        throw;
    }
    if (c.file2 && c.file2.isOpen()) c.file2.close();
    if (c.file && c.file.isOpen()) c.file.close();
    return out;
}

int main(int argc, char **argv) {
    init_breakers();
    init_calls();
    if (argc >= 2 && std::string(argv[1]) == "list") {
        for (const char **v = value_ops; *v; v++) std::cout << "value " << *v << "\n";
        for (auto &p : calls)
            for (auto &r : p.second.roles) {
                std::cout << "misuse " << p.first << " " << r << " good\n";
                for (int i = 0; i < 4; i++) {
                    const char *k = kinds_for(r, i);
                    if (k) std::cout << "misuse " << p.first << " " << r << " " << k << "\n";
                }
            }
        return 0;
    }
    if (argc < 3) { std::cerr << "usage: drv_C16 <casefile> <workdir> | list\n"; return 2; }
    wd = argv[2];
    H5Eset_auto2(H5E_DEFAULT, nullptr, nullptr);
    return run_file(argv[1], handle);
}
