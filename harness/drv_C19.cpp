// C19 correspondence driver: builds a nix file from a script through the public API (and, for
// states the API refuses to create, through direct HDF5 C calls on the file), runs
// File::validate() and prints the canonical multiset of results.
//
// A case is a sequence of lines; the first is always `new`.  Every creating command gives the
// created entity the next *ordinal* (0,1,2,.. in creation order, data frames included); later
// commands name entities by ordinal, dimensions by (array ordinal, 1-based index).
// Strings are s:<hex>, doubles d:<16 hex>.  Every line answers `OK -` except `validate`.
//
//   new
//   block N T                         array B N T rank e1..er          frame B N T rows s:colunit
//   aunit A s:u      apoly A n        aorigin A                        adata A n d:..
//   dset A n s:label..                dsamp A d:interval               drange A n d:tick..
//   dalias A                          ddf A F col|-                    dunit A k s:u     doffset A k d:o
//   tag B N T n d:pos..               tunits T n s:u..                 textent T n d:e..
//   mtag B N T P                      mext M A                         ref T A           feat T A 0|1|2
//   source B|S N T                    section -|S N T                  prop S N nvalues  punit P s:u
//   h5 ticks A k n d:..   h5 interval A k d:x   h5 nointerval A k      h5 dunit A k s:u  h5 deldim A k
//   h5 units T n s:u..    h5 nopositions M      h5 noposition T        h5 nodata F       h5 nolink F
//   h5 notype E
//   edits of existing entities (histories: build, validate, edit, validate again ... in one process):
//   dnounit A k   anounit A   anopoly A   anoorigin A   dlabels A k n s:..   dticks A k n d:..   dinterval A k d:x
//   dnooffset A k   frows F n   aextent A rank e1..   deldims A   fdata F A   mpositions M A   pnounit P
//   pvalues P n   etype E T   unref T A   (tunits T 0 = units(none))
//   vlive         ->  File::validate() in the session that is open, through the kept-alive handles; same answer format
//   entities ro|rw -> every valid::validate(entity) free function on every entity (format at do_entities)
//   validate      ->  OK <n> <E|W>:<ordinal|unknown|?id>:<s:hex message> ...   (sorted)
//                     the file is closed, validated first in a ReadOnly session (its first observation ever), then
//                     in a ReadWrite session; `OK MODE ro=[..] rw=[..]` when the two answers differ
#include "common.hpp"
#include <hdf5.h>
#include <algorithm>
#include <map>

using namespace nixv;

namespace {

struct Ent {
    char kind;                       // b a f(rame) t m F(eature) s(ource) S(ection) p
    std::string id;
    std::string path;                // absolute HDF5 path of the entity's group / dataset
    std::vector<std::string> chain;  // names from the root container (block / file) down to the entity
    long parent;                     // owning block / tag / section ordinal (or -1)
};

std::string workdir;
std::string fname;
nix::File nf;
bool nix_open = false;
hid_t raw = -1;
std::vector<Ent> ents;

void close_nix();

void close_raw() {
    if (raw >= 0) { H5Fclose(raw); raw = -1; }
}

void drop_handles();

void close_nix() {
    drop_handles();
    if (nix_open) { nf.close(); nix_open = false; }
}

void need_nix() {
    close_raw();
    if (!nix_open) { nf = nix::File::open(fname, nix::FileMode::ReadWrite); nix_open = true; }
}

void need_raw() {
    close_nix();
    if (raw < 0) {
        raw = H5Fopen(fname.c_str(), H5F_ACC_RDWR, H5P_DEFAULT);
        if (raw < 0) throw std::logic_error("bad: cannot open file raw");
    }
}

Ent &ent(const std::string &tok) {
    size_t k = (size_t)dec_u64(tok);
    if (k >= ents.size()) throw std::logic_error("bad ordinal " + tok);
    return ents[k];
}

nix::Block blk(const Ent &e) { return nf.getBlock(e.chain[0]); }
// handles of arrays, tags and multi-tags are kept alive for as long as the session lasts: edits between two
// validations of one session go through the same handle objects, edits after a reopen through fresh ones
std::map<const Ent *, nix::DataArray> live_arr;
std::map<const Ent *, nix::Tag> live_tag;
std::map<const Ent *, nix::MultiTag> live_mtag;
nix::DataArray arr(const Ent &e) {
    auto it = live_arr.find(&e);
    if (it != live_arr.end()) return it->second;
    nix::DataArray a = nf.getBlock(e.chain[0]).getDataArray(e.chain[1]);
    live_arr[&e] = a;
    return a;
}
nix::DataFrame frm(const Ent &e) { return nf.getBlock(e.chain[0]).getDataFrame(e.chain[1]); }
nix::Tag tg(const Ent &e) {
    auto it = live_tag.find(&e);
    if (it != live_tag.end()) return it->second;
    nix::Tag g = nf.getBlock(e.chain[0]).getTag(e.chain[1]);
    live_tag[&e] = g;
    return g;
}
nix::MultiTag mtg(const Ent &e) {
    auto it = live_mtag.find(&e);
    if (it != live_mtag.end()) return it->second;
    nix::MultiTag g = nf.getBlock(e.chain[0]).getMultiTag(e.chain[1]);
    live_mtag[&e] = g;
    return g;
}
void drop_handles() { live_arr.clear(); live_tag.clear(); live_mtag.clear(); }

nix::Source src(const Ent &e) {
    nix::Source s = nf.getBlock(e.chain[0]).getSource(e.chain[1]);
    for (size_t i = 2; i < e.chain.size(); i++) s = s.getSource(e.chain[i]);
    return s;
}
nix::Section sec(const Ent &e) {
    nix::Section s = nf.getSection(e.chain[0]);
    for (size_t i = 1; i < e.chain.size(); i++) s = s.getSection(e.chain[i]);
    return s;
}

std::vector<double> dbls(const std::vector<std::string> &t, size_t at) {
    size_t n = (size_t)dec_u64(t.at(at));
    std::vector<double> v;
    for (size_t i = 0; i < n; i++) v.push_back(dec_dbl(t.at(at + 1 + i)));
    return v;
}

std::vector<std::string> strs(const std::vector<std::string> &t, size_t at) {
    size_t n = (size_t)dec_u64(t.at(at));
    std::vector<std::string> v;
    for (size_t i = 0; i < n; i++) v.push_back(dec_str(t.at(at + 1 + i)));
    return v;
}

void add(char kind, const std::string &id, const std::string &path, const std::vector<std::string> &chain, long parent) {
    ents.push_back(Ent{kind, id, path, chain, parent});
}

// ---- raw HDF5 helpers -------------------------------------------------------------------------

void h5_check(herr_t r, const char *what) {
    if (r < 0) throw std::logic_error(std::string("bad: hdf5 call failed: ") + what);
}

void h5_unlink(const std::string &path) {
    h5_check(H5Ldelete(raw, path.c_str(), H5P_DEFAULT), ("unlink " + path).c_str());
}

void h5_del_attr(const std::string &obj, const char *name) {
    hid_t o = H5Oopen(raw, obj.c_str(), H5P_DEFAULT);
    if (o < 0) throw std::logic_error("bad: cannot open " + obj);
    herr_t r = H5Adelete(o, name);
    H5Oclose(o);
    h5_check(r, "delete attribute");
}

void h5_set_str_attr(const std::string &obj, const char *name, const std::string &val) {
    hid_t o = H5Oopen(raw, obj.c_str(), H5P_DEFAULT);
    if (o < 0) throw std::logic_error("bad: cannot open " + obj);
    if (H5Aexists(o, name) > 0) H5Adelete(o, name);
    hid_t ty = H5Tcopy(H5T_C_S1);
    H5Tset_size(ty, H5T_VARIABLE);
    hid_t sp = H5Screate(H5S_SCALAR);
    hid_t at = H5Acreate2(o, name, ty, sp, H5P_DEFAULT, H5P_DEFAULT);
    const char *p = val.c_str();
    herr_t r = H5Awrite(at, ty, &p);
    H5Aclose(at); H5Sclose(sp); H5Tclose(ty); H5Oclose(o);
    h5_check(r, "write string attribute");
}

void h5_set_dbl_attr(const std::string &obj, const char *name, double v) {
    hid_t o = H5Oopen(raw, obj.c_str(), H5P_DEFAULT);
    if (o < 0) throw std::logic_error("bad: cannot open " + obj);
    if (H5Aexists(o, name) > 0) H5Adelete(o, name);
    hid_t sp = H5Screate(H5S_SCALAR);
    hid_t at = H5Acreate2(o, name, H5T_IEEE_F64LE, sp, H5P_DEFAULT, H5P_DEFAULT);
    herr_t r = H5Awrite(at, H5T_NATIVE_DOUBLE, &v);
    H5Aclose(at); H5Sclose(sp); H5Oclose(o);
    h5_check(r, "write double attribute");
}

void h5_write_dbls(const std::string &path, const std::vector<double> &v) {
    if (H5Lexists(raw, path.c_str(), H5P_DEFAULT) > 0) h5_unlink(path);
    hsize_t dims[1] = { v.size() };
    hsize_t maxd[1] = { H5S_UNLIMITED };
    hsize_t chunk[1] = { 16 };
    hid_t sp = H5Screate_simple(1, dims, maxd);
    hid_t pl = H5Pcreate(H5P_DATASET_CREATE);
    H5Pset_chunk(pl, 1, chunk);
    hid_t ds = H5Dcreate2(raw, path.c_str(), H5T_IEEE_F64LE, sp, H5P_DEFAULT, pl, H5P_DEFAULT);
    herr_t r = 0;
    if (!v.empty()) r = H5Dwrite(ds, H5T_NATIVE_DOUBLE, H5S_ALL, H5S_ALL, H5P_DEFAULT, v.data());
    H5Dclose(ds); H5Pclose(pl); H5Sclose(sp);
    h5_check(r, "write doubles");
}

void h5_write_strs(const std::string &path, const std::vector<std::string> &v) {
    if (H5Lexists(raw, path.c_str(), H5P_DEFAULT) > 0) h5_unlink(path);
    hsize_t dims[1] = { v.size() };
    hsize_t maxd[1] = { H5S_UNLIMITED };
    hsize_t chunk[1] = { 16 };
    hid_t ty = H5Tcopy(H5T_C_S1);
    H5Tset_size(ty, H5T_VARIABLE);
    hid_t sp = H5Screate_simple(1, dims, maxd);
    hid_t pl = H5Pcreate(H5P_DATASET_CREATE);
    H5Pset_chunk(pl, 1, chunk);
    hid_t ds = H5Dcreate2(raw, path.c_str(), ty, sp, H5P_DEFAULT, pl, H5P_DEFAULT);
    std::vector<const char *> p;
    for (auto &s : v) p.push_back(s.c_str());
    herr_t r = 0;
    if (!v.empty()) r = H5Dwrite(ds, ty, H5S_ALL, H5S_ALL, H5P_DEFAULT, p.data());
    H5Dclose(ds); H5Pclose(pl); H5Sclose(sp); H5Tclose(ty);
    h5_check(r, "write strings");
}

std::string dim_path(const Ent &a, const std::string &k) {
    return a.path + "/dimensions/" + std::to_string(dec_u64(k));
}

// ---- commands ----------------------------------------------------------------------------------

// canonical form of a result: count, then the sorted messages with ids replaced by creation ordinals
std::string render(const nix::valid::Result &r) {
    std::map<std::string, size_t> ord;
    for (size_t i = 0; i < ents.size(); i++) ord[ents[i].id] = i;
    std::vector<std::string> lines;
    auto one = [&](const char *k, const nix::valid::Message &m) {
        std::string who;
        if (m.id == "unknown") who = "unknown";
        else if (ord.count(m.id)) who = std::to_string(ord[m.id]);
        else who = "?" + std::to_string(m.id.size());     // an id the script never created
        lines.push_back(std::string(k) + ":" + who + ":" + enc_str(m.msg));
    };
    for (auto &m : r.getErrors()) one("E", m);
    for (auto &m : r.getWarnings()) one("W", m);
    std::sort(lines.begin(), lines.end());
    std::string out = std::to_string(lines.size());
    for (auto &l : lines) out += " " + l;
    return out;
}

// one validation of the file as it is on disk, in a session opened with `mode`
std::string validate_in(nix::FileMode mode) {
    close_raw();
    close_nix();
    std::string out;
    try {
        nix::File f = nix::File::open(fname, mode);
        try {
            out = render(f.validate());
        } catch (...) {
            out = "THROWS:" + classify();
        }
        f.close();
    } catch (...) {
        out = "OPEN-THROWS:" + classify();
    }
    return out;
}

// `validate`: the building session never validates, counts or enumerates anything.  The file is closed and the
// FIRST observation of it is a validation in a ReadOnly session; then it is validated again in a ReadWrite session.
// The verdict must not depend on the open mode: equal answers are printed once (the canonical form the model
// prints), different answers as `MODE ro=[..] rw=[..]`, which no model or specification answer equals.
std::string do_validate() {
    std::string ro = validate_in(nix::FileMode::ReadOnly);
    std::string rw = validate_in(nix::FileMode::ReadWrite);
    if (ro == rw) return ro;
    return "MODE ro=[ " + ro + " ] rw=[ " + rw + " ]";
}

// ---- `entities ro|rw`: every free function valid::validate(entity) on every entity of the file ---------------
// Answer: walk=<0|1> acc=<0|1> ids=<0|1> n=<calls> then, sorted, one token per message
//   <ordinal>:<E|W>:<s:msg>           valid::validate(Block/DataArray/Tag/MultiTag/Feature/Source/Section/Property)
//   <array>.<index>:<E|W>:<s:msg>     valid::validate(RangeDimension/SampledDimension/SetDimension) as in the walk
//   g<array>.<index>:<E|W>:<s:msg>    valid::validate(const Dimension&) on every descriptor (data-frame ones included)
//   file:<E|W>:<s:msg>                valid::validate(const File&)
// walk: the concatenation (Result::concat) of the per-entity results in the order of File::validate's loops is
//       File::validate()'s result, message by message;  ids: every message carries the id of the entity it was
//       asked about ("unknown" for descriptors);  acc: ok / hasErrors / hasWarnings / concat / addError /
//       addWarning / the none_t constructors / operator<< agree with getErrors / getWarnings on every Result seen.

struct Probe {
    bool acc = true, ids = true;
    size_t calls = 0;
    std::vector<std::string> toks;

    static bool same(const std::vector<nix::valid::Message> &a, const std::vector<nix::valid::Message> &b) {
        if (a.size() != b.size()) return false;
        for (size_t i = 0; i < a.size(); i++) if (a[i].id != b[i].id || a[i].msg != b[i].msg) return false;
        return true;
    }

    void accessors(const nix::valid::Result &r) {
        std::vector<nix::valid::Message> e = r.getErrors(), w = r.getWarnings();
        if (r.hasErrors() != !e.empty() || r.hasWarnings() != !w.empty() || r.ok() != (e.empty() && w.empty())) acc = false;
        // rebuild the result through the other constructors / mutators
        nix::valid::Result viaVec(e, w), viaAdd, onlyE(e, nix::none), onlyW(nix::none, w);
        for (auto &m : e) viaAdd.addError(m);
        for (auto &m : w) viaAdd.addWarning(m);
        if (!same(viaVec.getErrors(), e) || !same(viaVec.getWarnings(), w) || !same(viaAdd.getErrors(), e) ||
            !same(viaAdd.getWarnings(), w) || !same(onlyE.getErrors(), e) || !onlyE.getWarnings().empty() ||
            !same(onlyW.getWarnings(), w) || !onlyW.getErrors().empty()) acc = false;
        if (!e.empty()) {
            nix::valid::Result one(e[0], nix::none);
            if (one.getErrors().size() != 1 || one.getErrors()[0].msg != e[0].msg || one.hasWarnings()) acc = false;
        }
        if (!w.empty()) {
            nix::valid::Result one(nix::none, w[0]);
            if (one.getWarnings().size() != 1 || one.getWarnings()[0].id != w[0].id || one.hasErrors()) acc = false;
        }
        // concat appends to the receiver and returns a copy of it
        nix::valid::Result left = onlyW;
        nix::valid::Result ret = left.concat(onlyE);
        if (!same(left.getErrors(), e) || !same(left.getWarnings(), w) || !same(ret.getErrors(), e) || !same(ret.getWarnings(), w)) acc = false;
        std::ostringstream o, want;
        o << r;
        for (auto &m : w) { if (!m.id.empty()) want << "ID " << m.id << " "; want << "WARNING: " << m.msg << std::endl; }
        for (auto &m : e) { if (!m.id.empty()) want << "ID " << m.id << " "; want << "ERROR: " << m.msg << std::endl; }
        if (o.str() != want.str()) acc = false;
    }

    void take(const std::string &key, const std::string &id, const nix::valid::Result &r) {
        calls++;
        accessors(r);
        for (auto &m : r.getErrors()) { if (m.id != id) ids = false; toks.push_back(key + ":E:" + enc_str(m.msg)); }
        for (auto &m : r.getWarnings()) { if (m.id != id) ids = false; toks.push_back(key + ":W:" + enc_str(m.msg)); }
    }
};

nix::Feature feat_of(const Ent &e) {
    const Ent &p = ents[(size_t)e.parent];
    return p.kind == 't' ? tg(p).getFeature(e.id) : mtg(p).getFeature(e.id);
}

nix::Property prop_of(const Ent &e) {
    std::vector<std::string> ch(e.chain.begin(), e.chain.end() - 1);
    Ent tmp{'S', "", "", ch, -1};
    return sec(tmp).getProperty(e.chain.back());
}

std::string do_entities(const std::string &mode) {
    close_raw();
    close_nix();
    nf = nix::File::open(fname, mode == "ro" ? nix::FileMode::ReadOnly : nix::FileMode::ReadWrite);
    nix_open = true;
    Probe pr;
    for (size_t i = 0; i < ents.size(); i++) {
        const Ent &e = ents[i];
        std::string key = std::to_string(i);
        switch (e.kind) {
        case 'b': pr.take(key, e.id, nix::valid::validate(blk(e))); break;
        case 'a': {
            nix::DataArray a = arr(e);
            pr.take(key, e.id, nix::valid::validate(a));
            for (auto &d : a.dimensions()) {
                std::string dk = key + "." + std::to_string(d.index());
                pr.take("g" + dk, "unknown", nix::valid::validate(d));
                if (d.dimensionType() == nix::DimensionType::Range) pr.take(dk, "unknown", nix::valid::validate(d.asRangeDimension()));
                if (d.dimensionType() == nix::DimensionType::Set) pr.take(dk, "unknown", nix::valid::validate(d.asSetDimension()));
                if (d.dimensionType() == nix::DimensionType::Sample) pr.take(dk, "unknown", nix::valid::validate(d.asSampledDimension()));
            }
            break;
        }
        case 't': pr.take(key, e.id, nix::valid::validate(tg(e))); break;
        case 'm': pr.take(key, e.id, nix::valid::validate(mtg(e))); break;
        case 'F': pr.take(key, e.id, nix::valid::validate(feat_of(e))); break;
        case 's': pr.take(key, e.id, nix::valid::validate(src(e))); break;
        case 'S': pr.take(key, e.id, nix::valid::validate(sec(e))); break;
        case 'p': pr.take(key, e.id, nix::valid::validate(prop_of(e))); break;
        default: break;                     // data frames: the library has no validate for them
        }
    }
    pr.take("file", nf.id(), nix::valid::validate(nf));
    // the walk of File::validate, remade from the free functions and Result::concat
    nix::valid::Result cat;
    for (auto &block : nf.blocks()) {
        cat.concat(nix::valid::validate(block));
        for (auto &a : block.dataArrays()) {
            cat.concat(nix::valid::validate(a));
            for (auto &d : a.dimensions()) {
                if (d.dimensionType() == nix::DimensionType::Range) cat.concat(nix::valid::validate(d.asRangeDimension()));
                if (d.dimensionType() == nix::DimensionType::Set) cat.concat(nix::valid::validate(d.asSetDimension()));
                if (d.dimensionType() == nix::DimensionType::Sample) cat.concat(nix::valid::validate(d.asSampledDimension()));
            }
        }
        for (auto &m : block.multiTags()) {
            cat.concat(nix::valid::validate(m));
            for (auto &f : m.features()) cat.concat(nix::valid::validate(f));
        }
        for (auto &g : block.tags()) {
            cat.concat(nix::valid::validate(g));
            for (auto &f : g.features()) cat.concat(nix::valid::validate(f));
        }
        for (auto &s : block.findSources()) cat.concat(nix::valid::validate(s));
    }
    for (auto &s : nf.findSections()) {
        cat.concat(nix::valid::validate(s));
        for (auto &p : s.properties()) cat.concat(nix::valid::validate(p));
    }
    nix::valid::Result whole = nf.validate();
    pr.accessors(whole);
    bool walk = Probe::same(cat.getErrors(), whole.getErrors()) && Probe::same(cat.getWarnings(), whole.getWarnings());
    close_nix();
    std::sort(pr.toks.begin(), pr.toks.end());
    std::string out = std::string("walk=") + (walk ? "1" : "0") + " acc=" + (pr.acc ? "1" : "0") + " ids=" + (pr.ids ? "1" : "0") +
                      " n=" + std::to_string(pr.calls);
    for (auto &x : pr.toks) out += " " + x;
    return out;
}

std::string handle(const std::vector<std::string> &t) {
    const std::string &c = t[0];
    if (c == "new") {
        close_raw();
        close_nix();
        ents.clear();
        ents.reserve(4096);            // handles are cached by the address of the entity record
        fname = workdir + "/c19.nix";
        nf = nix::File::open(fname, nix::FileMode::Overwrite);
        nix_open = true;
        return "-";
    }
    if (c == "validate") return do_validate();
    if (c == "vlive") {                 // File::validate() in the session that is open (kept-alive handles), no reopen
        need_nix();
        return render(nf.validate());
    }
    if (c == "entities") return do_entities(t.at(1));
    if (c == "h5") {
        need_raw();
        const std::string &op = t.at(1);
        Ent &e = ent(t.at(2));
        if (op == "ticks") h5_write_dbls(dim_path(e, t.at(3)) + "/ticks", dbls(t, 4));
        else if (op == "interval") h5_set_dbl_attr(dim_path(e, t.at(3)), "sampling_interval", dec_dbl(t.at(4)));
        else if (op == "nointerval") h5_del_attr(dim_path(e, t.at(3)), "sampling_interval");
        else if (op == "dunit") h5_set_str_attr(dim_path(e, t.at(3)), "unit", dec_str(t.at(4)));
        else if (op == "deldim") h5_unlink(dim_path(e, t.at(3)));
        else if (op == "units") h5_write_strs(e.path + "/units", strs(t, 3));
        else if (op == "nopositions") h5_unlink(e.path + "/positions");
        else if (op == "noposition") h5_unlink(e.path + "/position");
        else if (op == "nodata") h5_unlink(e.path + "/data");
        else if (op == "nolink") h5_del_attr(e.path, "link_type");
        else if (op == "notype") h5_del_attr(e.path, "type");
        else throw std::logic_error("bad h5 command " + op);
        return "-";
    }
    need_nix();
    if (c == "block") {
        nix::Block b = nf.createBlock(t.at(1), t.at(2));
        add('b', b.id(), "/data/" + t.at(1), {t.at(1)}, -1);
    } else if (c == "array") {
        Ent &pb = ent(t.at(1));
        size_t rank = (size_t)dec_u64(t.at(4));
        nix::NDSize shape(rank, 0);
        for (size_t i = 0; i < rank; i++) shape[i] = dec_u64(t.at(5 + i));
        nix::DataArray a = blk(pb).createDataArray(t.at(2), t.at(3), nix::DataType::Double, shape);
        add('a', a.id(), pb.path + "/data_arrays/" + t.at(2), {pb.chain[0], t.at(2)}, (long)dec_u64(t.at(1)));
    } else if (c == "frame") {
        Ent &pb = ent(t.at(1));
        std::vector<nix::Column> cols = { {"c0", dec_str(t.at(5)), nix::DataType::Double}, {"c1", "", nix::DataType::Int64} };
        nix::DataFrame f = blk(pb).createDataFrame(t.at(2), t.at(3), cols);
        f.rows(dec_u64(t.at(4)));
        add('f', f.id(), pb.path + "/data_frames/" + t.at(2), {pb.chain[0], t.at(2)}, (long)dec_u64(t.at(1)));
    } else if (c == "aunit") {
        arr(ent(t.at(1))).unit(dec_str(t.at(2)));
    } else if (c == "apoly") {
        std::vector<double> co;
        for (size_t i = 0; i < dec_u64(t.at(2)); i++) co.push_back(1.0 + i);
        arr(ent(t.at(1))).polynomCoefficients(co);
    } else if (c == "aorigin") {
        arr(ent(t.at(1))).expansionOrigin(0.5);
    } else if (c == "adata") {
        std::vector<double> v = dbls(t, 2);
        nix::DataArray a = arr(ent(t.at(1)));
        a.setData(nix::DataType::Double, v.data(), nix::NDSize({(nix::ndsize_t)v.size()}), nix::NDSize({0}));
    } else if (c == "dset") {
        arr(ent(t.at(1))).appendSetDimension(strs(t, 2));
    } else if (c == "dsamp") {
        arr(ent(t.at(1))).appendSampledDimension(dec_dbl(t.at(2)));
    } else if (c == "drange") {
        arr(ent(t.at(1))).appendRangeDimension(dbls(t, 2));
    } else if (c == "dalias") {
        arr(ent(t.at(1))).appendAliasRangeDimension();
    } else if (c == "ddf") {
        nix::DataArray a = arr(ent(t.at(1)));
        nix::DataFrame f = frm(ent(t.at(2)));
        if (t.at(3) == "-") a.appendDataFrameDimension(f);
        else a.appendDataFrameDimension(f, (unsigned)dec_u64(t.at(3)));
    } else if (c == "dunit") {
        nix::Dimension d = arr(ent(t.at(1))).getDimension(dec_u64(t.at(2)));
        if (d.dimensionType() == nix::DimensionType::Range) d.asRangeDimension().unit(dec_str(t.at(3)));
        else d.asSampledDimension().unit(dec_str(t.at(3)));
    } else if (c == "doffset") {
        arr(ent(t.at(1))).getDimension(dec_u64(t.at(2))).asSampledDimension().offset(dec_dbl(t.at(3)));
    } else if (c == "tag") {
        Ent &pb = ent(t.at(1));
        nix::Tag g = blk(pb).createTag(t.at(2), t.at(3), dbls(t, 4));
        add('t', g.id(), pb.path + "/tags/" + t.at(2), {pb.chain[0], t.at(2)}, (long)dec_u64(t.at(1)));
    } else if (c == "mtag") {
        Ent &pb = ent(t.at(1));
        nix::MultiTag g = blk(pb).createMultiTag(t.at(2), t.at(3), arr(ent(t.at(4))));
        add('m', g.id(), pb.path + "/multi_tags/" + t.at(2), {pb.chain[0], t.at(2)}, (long)dec_u64(t.at(1)));
    } else if (c == "tunits") {
        Ent &e = ent(t.at(1));
        std::vector<std::string> u = strs(t, 2);
        if (u.empty()) { if (e.kind == 't') tg(e).units(nix::none); else mtg(e).units(nix::none); }
        else if (e.kind == 't') tg(e).units(u); else mtg(e).units(u);
    } else if (c == "textent") {
        tg(ent(t.at(1))).extent(dbls(t, 2));
    } else if (c == "mext") {
        mtg(ent(t.at(1))).extents(arr(ent(t.at(2))));
    } else if (c == "ref") {
        Ent &e = ent(t.at(1));
        if (e.kind == 't') tg(e).addReference(arr(ent(t.at(2)))); else mtg(e).addReference(arr(ent(t.at(2))));
    } else if (c == "feat") {
        Ent &e = ent(t.at(1));
        nix::LinkType lt = static_cast<nix::LinkType>(dec_u64(t.at(3)));
        nix::Feature f = e.kind == 't' ? tg(e).createFeature(arr(ent(t.at(2))), lt) : mtg(e).createFeature(arr(ent(t.at(2))), lt);
        add('F', f.id(), e.path + "/features/" + f.id(), {}, (long)dec_u64(t.at(1)));
    } else if (c == "source") {
        Ent &p = ent(t.at(1));
        if (p.kind == 'b') {
            nix::Source s = blk(p).createSource(t.at(2), t.at(3));
            add('s', s.id(), p.path + "/sources/" + t.at(2), {p.chain[0], t.at(2)}, (long)dec_u64(t.at(1)));
        } else {
            nix::Source s = src(p).createSource(t.at(2), t.at(3));
            std::vector<std::string> ch = p.chain; ch.push_back(t.at(2));
            add('s', s.id(), p.path + "/sources/" + t.at(2), ch, (long)dec_u64(t.at(1)));
        }
    } else if (c == "section") {
        if (t.at(1) == "-") {
            nix::Section s = nf.createSection(t.at(2), t.at(3));
            add('S', s.id(), "/metadata/" + t.at(2), {t.at(2)}, -1);
        } else {
            Ent &p = ent(t.at(1));
            nix::Section s = sec(p).createSection(t.at(2), t.at(3));
            std::vector<std::string> ch = p.chain; ch.push_back(t.at(2));
            add('S', s.id(), p.path + "/sections/" + t.at(2), ch, (long)dec_u64(t.at(1)));
        }
    } else if (c == "prop") {
        Ent &p = ent(t.at(1));
        size_t n = (size_t)dec_u64(t.at(3));
        std::vector<nix::Variant> vals;
        for (size_t i = 0; i < (n ? n : 1); i++) vals.push_back(nix::Variant(1.5 + i));
        nix::Property pr = sec(p).createProperty(t.at(2), vals);
        if (n == 0) pr.deleteValues();
        std::vector<std::string> ch = p.chain; ch.push_back(t.at(2));
        add('p', pr.id(), p.path + "/properties/" + t.at(2), ch, (long)dec_u64(t.at(1)));
    } else if (c == "punit") {
        Ent &e = ent(t.at(1));
        std::vector<std::string> ch(e.chain.begin(), e.chain.end() - 1);
        Ent tmp{'S', "", "", ch, -1};
        sec(tmp).getProperty(e.chain.back()).unit(dec_str(t.at(2)));
    } else if (c == "dnounit") {
        nix::Dimension d = arr(ent(t.at(1))).getDimension(dec_u64(t.at(2)));
        if (d.dimensionType() == nix::DimensionType::Range) d.asRangeDimension().unit(nix::none);
        else d.asSampledDimension().unit(nix::none);
    } else if (c == "anounit") {
        arr(ent(t.at(1))).unit(nix::none);
    } else if (c == "anopoly") {
        arr(ent(t.at(1))).polynomCoefficients(nix::none);
    } else if (c == "anoorigin") {
        arr(ent(t.at(1))).expansionOrigin(nix::none);
    } else if (c == "dlabels") {
        nix::SetDimension d = arr(ent(t.at(1))).getDimension(dec_u64(t.at(2))).asSetDimension();
        std::vector<std::string> l = strs(t, 3);
        if (l.empty()) d.labels(nix::none); else d.labels(l);
    } else if (c == "dticks") {
        arr(ent(t.at(1))).getDimension(dec_u64(t.at(2))).asRangeDimension().ticks(dbls(t, 3));
    } else if (c == "dinterval") {
        arr(ent(t.at(1))).getDimension(dec_u64(t.at(2))).asSampledDimension().samplingInterval(dec_dbl(t.at(3)));
    } else if (c == "dnooffset") {
        arr(ent(t.at(1))).getDimension(dec_u64(t.at(2))).asSampledDimension().offset(nix::none);
    } else if (c == "frows") {
        frm(ent(t.at(1))).rows(dec_u64(t.at(2)));
    } else if (c == "aextent") {
        size_t rank = (size_t)dec_u64(t.at(2));
        nix::NDSize shape(rank, 0);
        for (size_t i = 0; i < rank; i++) shape[i] = dec_u64(t.at(3 + i));
        arr(ent(t.at(1))).dataExtent(shape);
    } else if (c == "deldims") {
        arr(ent(t.at(1))).deleteDimensions();
    } else if (c == "fdata") {
        feat_of(ent(t.at(1))).data(arr(ent(t.at(2))));
    } else if (c == "mpositions") {
        mtg(ent(t.at(1))).positions(arr(ent(t.at(2))));
    } else if (c == "pnounit") {
        prop_of(ent(t.at(1))).unit(nix::none);
    } else if (c == "pvalues") {
        size_t n = (size_t)dec_u64(t.at(2));
        nix::Property pr = prop_of(ent(t.at(1)));
        if (n == 0) pr.deleteValues();
        else {
            std::vector<nix::Variant> vals;
            for (size_t i = 0; i < n; i++) vals.push_back(nix::Variant(2.5 + i));
            pr.values(vals);
        }
    } else if (c == "etype") {
        Ent &e = ent(t.at(1));
        switch (e.kind) {
        case 'b': blk(e).type(t.at(2)); break;
        case 'a': arr(e).type(t.at(2)); break;
        case 't': tg(e).type(t.at(2)); break;
        case 'm': mtg(e).type(t.at(2)); break;
        case 's': src(e).type(t.at(2)); break;
        case 'S': sec(e).type(t.at(2)); break;
        default: throw std::logic_error("bad etype target");
        }
    } else if (c == "unref") {
        Ent &e = ent(t.at(1));
        if (e.kind == 't') tg(e).removeReference(arr(ent(t.at(2)))); else mtg(e).removeReference(arr(ent(t.at(2))));
    } else {
        throw std::logic_error("bad command " + c);
    }
    return "-";
}

} // namespace

int main(int argc, char **argv) {
    if (argc < 3) { std::cerr << "usage: drv_C19 <cases> <workdir>\n"; return 2; }
    workdir = argv[2];
    H5Eset_auto2(H5E_DEFAULT, nullptr, nullptr);
    int rc = run_file(argv[1], handle);
    close_raw();
    close_nix();
    return rc;
}
